"""C01 round 7 -- `cli._build_parser` under a contract that is verified on its real body (it used to be an ASSUMED total constructor).

What `cli.main` needs from it (the call is OUTSIDE main's `try`, and so is `parser.parse_known_args(argv)`):
  * it raises nothing and writes nothing (any exception here escapes the CLI as a traceback; stdout must stay clean);
  * it returns the `argparse.ArgumentParser` it constructed;
  * every declaration is one argparse accepts (argparse checks declarations when they are made: unknown action, keyword the action class
    does not take, option string declared twice, positional with `dest=`, positional in a mutually exclusive group, non-callable type);
  * every `type=` converter is one whose only failures are TypeError / ValueError / ArgumentTypeError: argparse turns exactly these three
    into a usage error (SystemExit, the path main handles) -- any other exception of a converter propagates out of `parse_known_args`,
    which is what main's assumed argparse model ("parse_known_args raises only SystemExit") rests on.
The argparse declaration rules are an ASSUMED MODEL of the stdlib (CPython 3.9 - 3.13 `argparse._ActionsContainer.add_argument`), validated
natively by `validate_model` below (the same declarations are replayed on the real argparse; the verdicts must agree).
A declaration the model cannot read (non-constant option string / action) makes the clause carry the pack's NOT-DEFINITE mark: unknown."""
import ast

import z3

from pyvc.values import VExt, VStr

ACTIONS = {None: "store", "store": "store", "store_const": "store_const", "store_true": "store_true", "store_false": "store_false",
           "append": "append", "append_const": "append_const", "count": "count", "help": "help", "version": "version", "extend": "extend"}
_COMMON = {"dest", "default", "required", "help", "deprecated"}
ACTION_KW = {"store": _COMMON | {"nargs", "const", "type", "choices", "metavar"},
             "append": _COMMON | {"nargs", "const", "type", "choices", "metavar"},
             "extend": _COMMON | {"nargs", "const", "type", "choices", "metavar"},
             "store_const": _COMMON | {"const", "metavar"},
             "append_const": _COMMON | {"const", "metavar"},
             "store_true": set(_COMMON), "store_false": set(_COMMON), "count": set(_COMMON),
             "help": {"dest", "default", "help", "deprecated"}, "version": {"version", "dest", "default", "help", "deprecated"}}
PARSER_KW = {"prog", "usage", "description", "epilog", "parents", "formatter_class", "prefix_chars", "fromfile_prefix_chars", "argument_default",
             "conflict_handler", "add_help", "allow_abbrev", "exit_on_error"}
# converters whose only failures are TypeError / ValueError (argparse reports these as usage errors)
SAFE_TYPES = {"pathlib.Path", "pathlib.PurePath", "str", "int", "float", "bool", "complex", "bytes", "os.fspath", "os.fsdecode", "ascii", "repr"}


def _const(v, node_value):
    if isinstance(v, VStr):
        c = v.const()
        if c is not None:
            return c
    if isinstance(node_value, ast.Constant):
        return node_value.value
    return _Unread


class _Unread:
    pass


def _kwnode(node, name):
    for k in getattr(node, "keywords", ()) or ():
        if k.arg == name:
            return k.value
    return None


def _dotted(ex, e):
    parts = []
    while isinstance(e, ast.Attribute):
        parts.append(e.attr)
        e = e.value
    if not isinstance(e, ast.Name):
        return None
    head = e.id
    imports = getattr(ex.module, "imports", {}) or {}
    if head in getattr(ex.module, "functions", {}) or head in getattr(ex.module, "classes", {}):
        return f"<own>.{head}"
    return ".".join([imports.get(head, head)] + list(reversed(parts)))


def _decl_error(ex, st, what, cls="ValueError"):
    if not ex.uni.known(cls):
        cls = "Exception"
    ex.raise_in(st, ex.mk_exc(cls, site=f"argparse: {what}"))
    st.ghost["argparse_errors"] = tuple(st.ghost.get("argparse_errors", ())) + (what,)
    return []


def _unsure(st, what):
    st.ghost["argparse_unsure"] = tuple(st.ghost.get("argparse_unsure", ())) + (what,)


def m_parser(ex, st, args, kwargs, node):
    """argparse.ArgumentParser(**kw): ASSUMED total for keyword arguments of its signature (add_help=True declares -h / --help)"""
    if args:
        _unsure(st, f"{ex.loc(node)} positional constructor arguments")
    for k in kwargs:
        if k not in PARSER_KW:
            return _decl_error(ex, st, f"{ex.loc(node)} ArgumentParser() got an unexpected keyword argument {k!r}", "TypeError")
    p = VExt("ArgParser")
    taken = ("-h", "--help")
    ah = _kwnode(node, "add_help")
    if ah is not None:
        taken = () if (isinstance(ah, ast.Constant) and not ah.value) else taken
        if not isinstance(ah, ast.Constant):
            _unsure(st, f"{ex.loc(node)} add_help not constant")
    st.ghost["argparse_parsers"] = tuple(st.ghost.get("argparse_parsers", ())) + (p.t.decl().name(),)
    st.ghost["argparse_options"] = tuple(taken)
    return [(st, p)]


def m_group(ex, st, obj, args, kwargs, node):
    g = VExt("ArgGroup")
    st.ghost[("argparse_group", g.t.decl().name())] = "exclusive" if "exclusive" in getattr(node.func, "attr", "") else "plain"
    return [(st, g)]


def m_add_argument(ex, st, obj, args, kwargs, node):
    """add_argument(*name_or_flags, **kw): the declaration checks of argparse (ASSUMED MODEL, validated natively)"""
    where = ex.loc(node)
    names = []
    for i, a in enumerate(args):
        c = _const(a, node.args[i] if i < len(node.args) else None)
        if c is _Unread or not isinstance(c, str):
            _unsure(st, f"{where} option string not constant")
            return [(st, VExt("ArgAction"))]
        names.append(c)
    if any(isinstance(a, ast.Starred) for a in node.args) or any(k.arg is None for k in node.keywords):
        _unsure(st, f"{where} */** arguments")
        return [(st, VExt("ArgAction"))]
    prefix = "-"
    positional = len(names) == 1 and not names[0].startswith(prefix) or (not names)
    if not names and "dest" not in kwargs:
        return _decl_error(ex, st, f"{where} add_argument() without a name needs dest=", "TypeError")
    if names and positional and "dest" in kwargs:
        return _decl_error(ex, st, f"{where} dest supplied twice for positional argument {names[0]!r}")
    if len(names) > 1 or (names and not positional):
        for n in names:
            if not n.startswith(prefix):
                return _decl_error(ex, st, f"{where} invalid option string {n!r}: must start with a character '-'")
    an = _kwnode(node, "action")
    act = None
    if an is not None:
        act = _const(kwargs.get("action"), an)
        if act is _Unread or not isinstance(act, str):
            _unsure(st, f"{where} action not a constant string")
            return [(st, VExt("ArgAction"))]
    if act not in ACTIONS:
        return _decl_error(ex, st, f"{where} unknown action {act!r}")
    kind = ACTIONS[act]
    for k in kwargs:
        if k != "action" and k not in ACTION_KW[kind]:
            return _decl_error(ex, st, f"{where} action {kind!r} got an unexpected keyword argument {k!r}", "TypeError")
    if positional and "required" in kwargs:
        return _decl_error(ex, st, f"{where} 'required' is an invalid argument for positionals", "TypeError")
    tn = _kwnode(node, "type")
    if tn is not None:
        if isinstance(tn, ast.Constant) and tn.value is not None:
            return _decl_error(ex, st, f"{where} type {tn.value!r} is not callable")
        d = _dotted(ex, tn)
        if not (isinstance(tn, ast.Constant) and tn.value is None):
            if d is None or d not in SAFE_TYPES:
                st.ghost["argparse_converters"] = tuple(st.ghost.get("argparse_converters", ())) + (f"{where} type={ast.unparse(tn)[:60]}",)
    gk = st.ghost.get(("argparse_group", obj.t.decl().name())) if isinstance(obj, VExt) and obj.sort == "ArgGroup" else None
    if gk == "exclusive" and positional:
        nn = _kwnode(node, "nargs")
        if not (isinstance(nn, ast.Constant) and nn.value in ("?", "*")):
            return _decl_error(ex, st, f"{where} mutually exclusive arguments must be optional")
    if not positional:
        taken = tuple(st.ghost.get("argparse_options", ()))
        for n in names:
            if n in taken:
                return _decl_error(ex, st, f"{where} conflicting option string: {n}", "ArgumentError")
        st.ghost["argparse_options"] = taken + tuple(names)
    st.ghost["argparse_decls"] = tuple(st.ghost.get("argparse_decls", ())) + ((tuple(names), kind),)
    return [(st, VExt("ArgAction"))]


def install(reg):
    reg.ext_models["argparse.ArgumentParser"] = m_parser
    for sort in ("ArgParser", "ArgGroup"):
        reg.method_models[(sort, "add_argument")] = m_add_argument
        reg.method_models[(sort, "add_mutually_exclusive_group")] = m_group
        reg.method_models[(sort, "add_argument_group")] = m_group


def parser_post(c):
    """normal outcome: the result is the parser constructed in this call, every declaration was readable and accepted, every converter safe"""
    from contracts import c01_logging
    if getattr(c, "at_call_site", False):     # the call-site view: a fresh ArgParser (result_maker); the ghost there is the CALLER's
        return z3.BoolVal(isinstance(c.result, VExt) and c.result.sort == "ArgParser")
    g = c.st.ghost
    r = c.result
    made = g.get("argparse_parsers", ())
    ok = isinstance(r, VExt) and r.sort == "ArgParser" and r.t.decl().name() in made
    conv = g.get("argparse_converters", ())
    c.note = f"parsers constructed={len(made)} declarations={list(g.get('argparse_decls', ()))}"[:300]
    if conv:
        c.note += f" converters that may raise other than TypeError/ValueError: {list(conv)}"
    if not ok or conv:
        return z3.BoolVal(False)
    if g.get("argparse_unsure"):
        c.note += f" NOT READ: {list(g['argparse_unsure'])}"[:300]
        return c01_logging.MARK
    return z3.BoolVal(True)


def silent_post(c):
    if getattr(c, "at_call_site", False):     # nothing to add to the caller's ghost: the callee writes nothing
        return z3.BoolVal(True)
    g = c.st.ghost
    quiet = not g.get("stdout_dirty") and not g.get("prints") and not g.get("stdout_writes") and not g.get("stderr_writes")
    return z3.BoolVal(bool(quiet))


def contract():
    from pyvc.contracts import FnContract
    return FnContract(
        target="sharepoint2text/cli.py::_build_parser", params=[], raises=[], total=True,
        ensures=[("returns-its-own-ArgumentParser-with-declarations-argparse-accepts-and-converters-that-fail-as-usage-errors", parser_post),
                 ("writes-nothing", silent_post)],
        result_maker=lambda ex, st, ctx: VExt("ArgParser"),
        note="verified on the real body (round 7; was an assumed total constructor); the call-site view -- a fresh ArgParser, nothing raised -- "
             "is implied by the verified clauses; argparse's declaration checks are an assumed model validated natively")


# ------------------------------------------------------------------ native validation of the assumed argparse model --
_CASES = [
    ((), dict(action="store_true"), TypeError),                                   # no name, no dest  (ValueError on 3.12-: any error)
    (("path",), dict(dest="x"), ValueError),
    (("--a", "b"), {}, ValueError),
    (("--a",), dict(action="store_tru"), ValueError),
    (("--a",), dict(action="store_true", type=int), TypeError),
    (("--a",), dict(action="store_true", nargs=1), TypeError),
    (("a",), dict(required=True), TypeError),
    (("--a",), dict(type="int"), ValueError),
    (("--json",), dict(action="store_true"), Exception),                          # declared twice -> ArgumentError
    (("-h",), dict(action="store_true"), Exception),
    (("--ok",), dict(action="store_true", dest="ok", help="h", default=False), None),
    (("ok2",), dict(type=str, help="h"), None),
    (("--n",), dict(type=int, nargs="?", const=1, choices=[1, 2], metavar="N"), None),
    (("--c",), dict(action="count", default=0), None),
]


def validate_model(repo, tier):
    """the declaration rules above against the real argparse of this interpreter: same verdict (raises / accepted) on every case, an
    exclusive group refuses a required positional, and a converter's KeyError leaves parse_known_args while its ValueError is a SystemExit"""
    import argparse
    import contextlib
    import io
    oid = "C01/cli.py::argparse/model-validation#declaration-checks-and-converter-errors-agree-with-the-interpreter.BOUNDED"
    bad = []
    try:
        for names, kw, want in _CASES:
            p = argparse.ArgumentParser(prog="x")
            p.add_argument("--json", action="store_true")
            got = None
            try:
                p.add_argument(*names, **kw)
            except Exception as e:  # noqa
                got = e
            if (want is None) != (got is None) or (want is not None and want is not Exception and not isinstance(got, (want, ValueError, TypeError))):
                bad.append(f"add_argument{names}{kw}: model says {want and want.__name__}, argparse {type(got).__name__ if got else 'accepts'}")
        p = argparse.ArgumentParser(prog="x")
        g = p.add_mutually_exclusive_group()
        try:
            g.add_argument("pos")
            bad.append("exclusive group accepted a required positional")
        except ValueError:
            pass
        try:
            argparse.ArgumentParser(prog="x", nonsense=1)
            bad.append("ArgumentParser accepted an unknown keyword")
        except TypeError:
            pass
        table = {"a": 1}
        p = argparse.ArgumentParser(prog="x")
        p.add_argument("v", type=lambda s: table[s])
        try:
            with contextlib.redirect_stderr(io.StringIO()):
                p.parse_known_args(["zz"])
            bad.append("converter KeyError did not propagate")
        except KeyError:
            pass
        except SystemExit:
            bad.append("converter KeyError became SystemExit (model is stricter than needed, still sound)") if False else None
        p = argparse.ArgumentParser(prog="x")
        p.add_argument("v", type=int)
        try:
            with contextlib.redirect_stderr(io.StringIO()):
                p.parse_known_args(["zz"])
            bad.append("converter ValueError accepted")
        except SystemExit:
            pass
        import pathlib
        for s in ("", "\x00", "a" * 70000, "\udcff", "-"):
            try:
                pathlib.Path(s)
            except (TypeError, ValueError):
                pass
    except Exception as e:  # noqa  (never let an exception escape an EXTRA callable)
        bad.append(f"validation failed: {type(e).__name__}: {e}"[:200])
    # a finite native validation of an ASSUMED model: labelled bounded, never counted as proved
    return {"obligations": [{"id": oid, "kind": "validation", "bounded": True, "status": "unknown" if bad else "bounded-ok", "vcs": len(_CASES) + 5, "seconds": 0.0,
                             "backends": {"native-bounded": len(_CASES) + 5}, "witness": None,
                             "reason": "; ".join(bad)[:400] or "argparse of this interpreter agrees with the assumed declaration model",
                             "loc": "contracts/c01_parser.py", "function": "sharepoint2text/cli.py::_build_parser"}], "functions": []}


validate_model.__name__ = "argparse_model_validation"
