"""C17 round 2 -- the assumptions the event-level proof rests on, as obligations on the real source.

The handler proofs of contracts/C17.py quantify over ALL event sequences; the document-level statement additionally
needs (Appendix B) that the events a handler object receives are html.parser's reference tokenisation `ev(text)` of the
*document's own text*.  Three ways to break that without touching a handler were found by the round-2 seeds:

  (a) the parser subclass reconfigures the tokeniser (class attribute CDATA_CONTENT_ELEMENTS, instance fields such as
      cdata_elem / convert_charrefs, overridden parse_* methods)                       -> `tokeniser_configuration`
  (b) the text is rewritten between the container and the parser (regex pre-strip)     -> `input_provenance`
  (c) an HTML body is routed around the parser (MSG body sniffing)                     -> contract on _looks_like_html
      (contracts/C17.py) + the routing statement checked here.

All obligations here are decided on the AST (back end `dataflow`).  A shape outside the recognised grammar is
*unknown* (never a violation by itself): the native replayer then searches for a failing document; only a reproduced
failure is reported as VIOLATION, otherwise UNDECIDED.
"""
import ast

from pyvc import loader
from pyvc.flow import dotted, ground_obligation

HTML = "sharepoint2text/parsing/extractors/html_extractor.py"
EPUB = "sharepoint2text/parsing/extractors/epub_extractor.py"
MHTML = "sharepoint2text/parsing/extractors/mhtml_extractor.py"
MSG = "sharepoint2text/parsing/extractors/mail/msg_email_extractor.py"
HCLS, ECLS = "_HtmlTreeBuilder", "_XhtmlTextExtractor"
CONTRACTED = {"__init__", "handle_starttag", "handle_endtag", "handle_data", "handle_comment"}


def canonical(m, e, _depth=0):
    """Dotted origin of a name / attribute chain through the module's import table and module-level aliases
    (`from html.parser import HTMLParser`, `import html.parser`, `import html.parser as hp`, `from html import parser`,
    `Base = HTMLParser` all give 'html.parser.HTMLParser'); '' when it is not a plain chain."""
    d = dotted(e)
    if not d:
        return ""
    head, _, rest = d.partition(".")
    if head in m.imports:
        origin = m.imports[head]
        return origin + ("." + rest if rest else "")
    if head in m.assigns and _depth < 4 and head not in m.classes:
        inner = canonical(m, m.assigns[head], _depth + 1)
        return inner + ("." + rest if rest and inner else "") if inner else d
    return d


def is_library_parser(m, e):
    return canonical(m, e) == "html.parser.HTMLParser"


SILENT_CALLBACKS = ("handle_comment", "handle_decl", "handle_pi", "unknown_decl", "handle_charref", "handle_entityref")


def silent_overrides(m, cls):
    """Callbacks for non-text constructs (comment, declaration, processing instruction, marked section, character reference) that
    the class overrides with one text parameter: each gets a CONTRACT "stores nothing" (contracts/C17.py), so overriding them is
    fine exactly when that contract is discharged."""
    out = []
    for name in SILENT_CALLBACKS:
        fn = m.functions.get(f"{cls}.{name}")
        if fn is not None and len(fn.args.args) == 2 and not fn.args.vararg and not fn.args.kwarg and not fn.args.kwonlyargs:
            out.append((name, fn.args.args[1].arg))
    return out


def default_startendtag(m, cls):
    """handle_startendtag spelled out exactly as the base class has it (start then end on the same tag)."""
    fn = m.functions.get(f"{cls}.handle_startendtag")
    if fn is None or len(fn.args.args) != 3:
        return False
    a = [x.arg for x in fn.args.args]
    body = [st for st in fn.body if not (isinstance(st, ast.Expr) and isinstance(st.value, ast.Constant))]
    want = [f"{a[0]}.handle_starttag({a[1]}, {a[2]})", f"{a[0]}.handle_endtag({a[1]})"]
    return [ast.unparse(st.value) if isinstance(st, ast.Expr) else "?" for st in body] == want


def accepted_overrides(m, cls):
    return {n for n, _p in silent_overrides(m, cls)} | ({"handle_startendtag"} if default_startendtag(m, cls) else set())


def library_names():
    """Every attribute name html.parser.HTMLParser (class or instance) owns: a subclass that binds one of them changes the
    tokeniser the proof assumes.  Taken from the interpreter's own html.parser plus names newer CPython versions added."""
    import html.parser as hp
    names = set(dir(hp.HTMLParser)) | set(vars(hp.HTMLParser()))
    names |= {"CDATA_CONTENT_ELEMENTS", "RCDATA_CONTENT_ELEMENTS", "scripting", "_support_cdata", "_escapable", "_set_support_cdata",
              "cdata_elem", "interesting", "convert_charrefs", "rawdata", "lasttag", "_raw_escapable"}
    return {n for n in names if not (n.startswith("__") and n.endswith("__"))}


def class_bindings(node):
    """{name: line} bound on the class or on `self` anywhere in its methods (incl. setattr with a constant name);
    '?' marks a dynamic setattr."""
    out = {}
    for b in node.body:
        if isinstance(b, (ast.FunctionDef, ast.AsyncFunctionDef, ast.ClassDef)):
            out.setdefault(b.name, b.lineno)
        elif isinstance(b, (ast.Assign, ast.AnnAssign, ast.AugAssign)):
            for t in (b.targets if isinstance(b, ast.Assign) else [b.target]):
                for n in ast.walk(t):
                    if isinstance(n, ast.Name):
                        out.setdefault(n.id, b.lineno)
    for n in ast.walk(node):
        if isinstance(n, ast.Attribute) and isinstance(n.ctx, (ast.Store, ast.Del)) and isinstance(n.value, ast.Name) and n.value.id in ("self", "cls"):
            out.setdefault(n.attr, n.lineno)
        if isinstance(n, ast.Call) and dotted(n.func) in ("setattr", "object.__setattr__") and n.args:
            if len(n.args) >= 2 and isinstance(n.args[1], ast.Constant) and isinstance(n.args[1].value, str):
                out.setdefault(n.args[1].value, n.lineno)
            else:
                out.setdefault("?", n.lineno)
    return out


def tokeniser_configuration(repo, tier):
    obls, fns = [], []
    lib = library_names()
    for rel, cls in ((HTML, HCLS), (EPUB, ECLS)):
        m = loader.module(rel, repo)
        short = rel.split("/")[-1]
        node = m.classes.get(cls)
        oid = f"C17/{short}::{cls}/call-site#tokeniser-is-the-library-default:-no-html.parser-attribute-rebound"
        if node is None:
            obls.append(ground_obligation(oid, False, f"class {cls} missing", rel, definite=False))
            continue
        b = class_bindings(node)
        fine = CONTRACTED | accepted_overrides(m, cls)
        shadow = sorted(f"{n} (line {ln})" for n, ln in b.items() if (n in lib or n == "?") and n not in fine)
        base_ok = len(node.bases) == 1 and is_library_parser(m, node.bases[0]) \
            and not node.keywords and not node.decorator_list
        # nothing at module level patches the library either (HTMLParser.X = ..., html.parser.X = ...)
        patched = sorted({f"line {n.lineno}" for n in ast.walk(m.tree) if isinstance(n, ast.Attribute) and isinstance(n.ctx, ast.Store)
                          and (canonical(m, n.value) in ("html.parser", "html.parser.HTMLParser") or dotted(n.value) == cls)})
        obls.append(ground_obligation(oid, base_ok and not shadow and not patched,
                                      f"base HTMLParser unmodified: {base_ok}; rebinds library attributes: {shadow}; patches: {patched}", rel, definite=False))
    return {"obligations": obls, "functions": fns}


# --------------------------------------------------------------------------- provenance --
class Prov:
    """Where a value comes from, through a whitelist of text-preserving steps:
    parameter | X.read() | X.read_text(..) | X.decode(..) | io.BytesIO(X) | X or "" | attribute of a parameter-free object |
    a named source function | X[k:] directly under `if X.startswith(<k-byte literal>)` (byte-order mark).
    Anything else (regex substitution, replace, slicing, concatenation, a second definition through a loop ...) is a problem."""

    def __init__(self, fn, sources=(), attr_sources=()):
        self.fn, self.sources, self.attr_sources = fn, set(sources), set(attr_sources)
        self.params = {a.arg for a in fn.args.posonlyargs + fn.args.args + fn.args.kwonlyargs}
        self.parent = {}
        for p in ast.walk(fn):
            for c in ast.iter_child_nodes(p):
                self.parent[c] = p
        self.atoms, self.problems, self._seen = [], [], set()

    def defs(self, name):
        good, bad = [], []
        for n in ast.walk(self.fn):
            if isinstance(n, ast.Assign) and any(isinstance(t, ast.Name) and t.id == name for t in n.targets):
                good.append(n)
            elif isinstance(n, ast.AnnAssign) and isinstance(n.target, ast.Name) and n.target.id == name and n.value is not None:
                good.append(n)
            elif isinstance(n, ast.Name) and n.id == name and isinstance(n.ctx, (ast.Store, ast.Del)):
                par = self.parent.get(n)
                if not (isinstance(par, (ast.Assign, ast.AnnAssign)) and (n in getattr(par, "targets", []) or n is getattr(par, "target", None))):
                    bad.append(f"line {n.lineno}: `{name}` bound by {type(par).__name__}")
        return good, bad

    def run(self, e):
        if isinstance(e, ast.Name):
            if e.id in self.params:
                self.atoms.append(f"param {e.id}")
                return
            if e.id in self._seen:
                return
            self._seen.add(e.id)
            good, bad = self.defs(e.id)
            self.problems += bad
            if not good and not bad:
                self.problems.append(f"`{e.id}` has no definition in {self.fn.name}")
            for d in good:
                self.step(d.value, d)
            return
        self.step(e, None)

    def step(self, e, stmt):
        if isinstance(e, ast.Name):
            return self.run(e)
        if isinstance(e, ast.Call):
            d = dotted(e.func)
            if isinstance(e.func, ast.Attribute) and e.func.attr in ("decode", "read", "read_text") and not any(isinstance(a, ast.Starred) for a in e.args):
                if e.func.attr == "read" and e.args:
                    self.problems.append(f"line {e.lineno}: partial read `{ast.unparse(e)}`")
                    return
                return self.step(e.func.value, stmt)
            if d in ("io.BytesIO", "BytesIO", "io.StringIO") and len(e.args) == 1 and not e.keywords:
                return self.step(e.args[0], stmt)
            if d in self.sources:
                self.atoms.append(f"source {d}({', '.join(ast.unparse(a) for a in e.args)})")
                for a in e.args:
                    self.step(a, stmt)
                return
        if isinstance(e, ast.BoolOp) and isinstance(e.op, ast.Or) and len(e.values) == 2 and isinstance(e.values[1], ast.Constant) and e.values[1].value in ("", b""):
            return self.step(e.values[0], stmt)
        if isinstance(e, ast.Attribute) and isinstance(e.value, ast.Name):
            if ast.unparse(e) in self.attr_sources:
                self.atoms.append(f"attribute {ast.unparse(e)}")
                return
            return self.problems.append(f"line {e.lineno}: `{ast.unparse(e)}` is not a recognised source")
        if isinstance(e, ast.Subscript) and isinstance(e.slice, ast.Slice) and e.slice.upper is None and e.slice.step is None \
                and isinstance(e.slice.lower, ast.Constant) and isinstance(e.slice.lower.value, int) and stmt is not None:
            guard = self.parent.get(stmt)
            t = guard.test if isinstance(guard, ast.If) and stmt in guard.body else None
            if isinstance(t, ast.Call) and isinstance(t.func, ast.Attribute) and t.func.attr == "startswith" and len(t.args) == 1 \
                    and isinstance(t.args[0], ast.Constant) and isinstance(t.args[0].value, (bytes, str)) \
                    and len(t.args[0].value) == e.slice.lower.value and ast.unparse(t.func.value) == ast.unparse(e.value):
                return self.step(e.value, stmt)       # byte-order mark removed
        self.problems.append(f"line {getattr(e, 'lineno', '?')}: `{ast.unparse(e)[:80]}` rewrites / is not the document text")


def _calls(tree, name):
    return [n for n in ast.walk(tree) if isinstance(n, ast.Call) and dotted(n.func) == name]


def input_provenance(repo, tier):
    obls, fns = [], []

    def P(oid, ok, why, rel):
        obls.append(ground_obligation(oid, bool(ok), why, rel, definite=False))

    # (round 3) the MSG routing statement is under a symbolic contract: contracts/C17_glue.py::read_msg_format_mail
    return {"obligations": obls, "functions": fns}


# ------------------------------------------------------------------------- bounded scope --
def mhtml_fallback_scope(repo, tier):
    """BOUNDED: `_extract_from_mhtml` (MIME decoding, ASSUMED by the read_mhtml contract) must hand over the WHOLE text/html part
    also on its fallback path (archives without a proper header block): multi-line documents with lines starting with `--`
    (comment end, CSS custom property, decrement) are run through read_mhtml as a non-standard archive."""
    import json
    import os
    import subprocess
    out = {"obligations": [], "undecided": []}
    # round 6: second family -- lines in removed content that READ like a delimiter (ruler of dashes in a comment, `--x:` in a style
    # sheet); fails on the library HEAD: recorded finding C17-mhtml-scan-ends-part-at-delimiter-like-line (proposed_fixes/C17_4.diff)
    for oid, family, bound in (
            ("C17/mhtml_extractor.py::_extract_from_mhtml/bounded#html-part-of-a-non-standard-archive-is-not-cut-inside-the-document.BOUNDED",
             "line_start_docs", "4 multi-line documents with `--` at a line start, as a header-less archive with one text/html part"),
            ("C17/mhtml_extractor.py::_extract_from_mhtml/bounded#delimiter-like-line-in-removed-content-does-not-end-the-part-of-a-non-standard-archive.BOUNDED",
             "boundary_like_docs", "4 documents with a line of `--` + boundary characters inside a comment / script / style / noscript, same archive form")):
        req = {"property": "C17", "obligation": oid, "repo": repo, "family": {"fn": family, "only": ["non-standard"]}}
        try:
            p = subprocess.run(["/venv/bin/python", os.path.join(os.path.dirname(os.path.dirname(os.path.abspath(__file__))), "replay", "run.py")],
                               input=json.dumps(req), capture_output=True, text=True, timeout=300, env=dict(os.environ, VERIF_REPO=repo))
            lines = [l for l in p.stdout.splitlines() if l.startswith("{")]
            res = json.loads(lines[-1]) if lines else {"error": (p.stderr or p.stdout)[-500:]}
        except Exception as e:  # noqa
            res = {"error": str(e)}
        if "error" in res or "crashed" in str(res.get("note", "")):
            out["undecided"].append({"obligation": oid, "why": "native scope could not run: " + str(res.get("error", res.get("note")))[:300]})
            continue
        ok = not res.get("reproduced")
        o = ground_obligation(oid, ok, res.get("note", "") if ok else f"{res.get('target')}: {json.dumps((res.get('inputs') or {}).get('markup'))[:200]} -> {str(res.get('observed'))[:200]}",
                              "replay/C17.py", kind="bounded", backend="native-replay")
        o["bounded"] = True
        o["bound"] = bound
        out["obligations"].append(o)
    if not out["undecided"]:
        del out["undecided"]
    return out



def native_scope(repo, tier):
    """BOUNDED stand-in (DESIGN 2.8) for what stays assumed: html.parser's tokenisation itself, the tree walker / get_text
    (C02), MIME decoding of the MHTML part, the MSG reader around the routing statement.  The replayer's document grammar is
    run end to end on the real code through read_html, read_mhtml, msg._html_to_text, read_msg_format_mail (body
    substituted on the repository's fixture) and read_epub; expected token sets = reference html.parser events classified by
    the region spec.  A mismatch is a concrete failing document (violation); finding nothing is `bounded-ok`."""
    import json
    import os
    import subprocess
    oid = "C17/replay::native-scope/bounded#removable-element-grammar-through-all-entry-points.BOUNDED"
    known = []
    try:
        with open(os.path.join(os.path.dirname(os.path.dirname(os.path.abspath(__file__))), "known_findings.json")) as fh:
            for f in json.load(fh).get("findings", []):
                w = f.get("witness") or {}
                if f.get("property") == "C17" and w.get("markup_builder"):
                    known.append(dict(w["markup_builder"], only=w.get("only")))      # replayed on its own by the known_findings hook
                    for fam in w.get("families") or []:
                        known.append({"fn": fam, "index": 0, "only": w.get("only")})
    except Exception:  # noqa
        pass
    req = {"property": "C17", "obligation": oid, "repo": repo, "known_docs": known}
    try:
        p = subprocess.run(["/venv/bin/python", os.path.join(os.path.dirname(os.path.dirname(os.path.abspath(__file__))), "replay", "run.py")],
                           input=json.dumps(req), capture_output=True, text=True, timeout=600, env=dict(os.environ, VERIF_REPO=repo))
        lines = [l for l in p.stdout.splitlines() if l.startswith("{")]
        res = json.loads(lines[-1]) if lines else {"error": (p.stderr or p.stdout)[-500:]}
    except Exception as e:  # noqa
        res = {"error": str(e)}
    if "error" in res or "crashed" in str(res.get("note", "")):
        return {"obligations": [], "undecided": [{"obligation": oid, "why": "native scope could not run: " + str(res.get("error", res.get("note")))[:300]}]}
    ok = not res.get("reproduced")
    o = ground_obligation(oid, ok, res.get("note", "") if ok else f"{res.get('target')}: {json.dumps((res.get('inputs') or {}).get('markup'))[:300]} -> {str(res.get('observed'))[:300]}",
                          "replay/C17.py", kind="bounded", backend="native-replay")
    o["bounded"] = True
    o["bound"] = ("about 1100 documents: visible blocks x 7 removable elements x 17 contents (void, self-closing, unclosed, mis-nested, comment, "
                  "CDATA) and pairs, nested / consecutive removable elements, textual start tags the tokeniser ignores followed by a real "
                  "element, unterminated constructs at the end, removed prefixes of 0..70000 characters; 5 entry points")
    return {"obligations": [o]}
