"""C15 -- ownership / frame analysis of module-level state (back end `dataflow`, real AST of the package).

A context-insensitive, interprocedural label propagation over every function of the package:

  S:<file>::<NAME>   the object bound to the module-level name NAME (a cache / registry / table / per-thread store)
  V:<file>::<NAME>   an object that is *stored in* or was *read out of* that state -- a PUBLISHED object: it is shared with
                     every later call (history) and with every other thread (schedule)
  P:<param>          (summaries only) the object passed as parameter <param>

Flows: assignments, tuple unpacking, for-targets, attribute / subscript selection (component of S is V, component of V is V),
returns (function summaries `ret`), arguments (summaries `mut`: parameters a function may mutate).  Events:

  write(x)   a mutation of an S:x object (subscript / attribute store, mutator method, setattr, rebinding) -- also through
             local aliases and through the container handed out by an accessor function;
  vmut(x)    a mutation of a V:x object  -- the frame condition "objects handed out by a cache are never mutated afterwards"
             (the condition under which results cannot depend on other threads or earlier calls *through cached values*).

A local name that is stored into the state is published from the store on: uses textually after the store, or inside a loop
that contains the store, carry V:x (building the object before it is published is not a mutation of a published object).

One level deep: copies (`dict(x)`, `list(x)`, `x.copy()`, slices) are fresh objects whose elements are no longer tracked;
library callables are assumed not to mutate their arguments (listed in ASSUMPTIONS of the pack).
"""
import ast

from pyvc import loader
from pyvc.flow import dotted

IMMUTABLE_FACTORIES = {
    "re.compile", "frozenset", "tuple", "logging.getLogger", "struct.Struct", "str.maketrans", "min", "max", "len", "int", "float", "str",
    "bytes", "bool", "os.cpu_count", "TypeVar", "typing.TypeVar", "namedtuple", "collections.namedtuple", "object", "range",
    "os.path.join", "os.path.dirname", "os.path.abspath", "os.environ.get", "os.getenv", "Path", "pathlib.Path", "re.escape",
    "mimetypes.guess_type", "sum", "abs", "round", "ord", "chr", "hash", "field",
}
DEF_MUTATORS = {
    "append", "extend", "insert", "remove", "pop", "popitem", "clear", "sort", "reverse", "update", "setdefault", "add", "discard",
    "move_to_end", "appendleft", "popleft", "extendleft", "rotate", "__setitem__", "__delitem__", "difference_update",
    "intersection_update", "symmetric_difference_update", "__setattr__", "__delattr__",
}
# library functions that return an object shared by the whole interpreter: what is stored on their result is a global setting
GLOBAL_ACCESSORS = {"decimal.getcontext", "logging.getLogger", "importlib.import_module", "sys.modules.get", "locale.localeconv", "warnings._get_filters",
                    "mimetypes.MimeTypes", "codecs.lookup", "gc.get_objects", "threading.main_thread", "threading.current_thread", "asyncio.get_event_loop"}
# methods that change such an object
SETTER_METHODS = {"setLevel", "addHandler", "removeHandler", "addFilter", "removeFilter", "disable", "add_type", "read_mime_types", "register", "setprofile", "settrace",
                  "setrecursionlimit", "clear_flags", "clear_traps"}
REMOVALS = {"pop", "popitem", "clear", "discard", "remove", "popleft"}
READERS = {
    "get", "keys", "values", "items", "copy", "index", "count", "startswith", "endswith", "decode", "encode", "hex", "join", "split", "rsplit",
    "splitlines", "strip", "lstrip", "rstrip", "lower", "upper", "casefold", "title", "find", "rfind", "replace", "format", "isdigit", "isalpha",
    "isalnum", "isspace", "isupper", "islower", "partition", "rpartition", "zfill", "ljust", "rjust", "center", "translate", "tobytes",
    "to_bytes", "from_bytes", "bit_length", "union", "intersection", "difference", "issubset", "issuperset", "isdisjoint", "__contains__",
    "__getitem__", "__len__", "__iter__", "match", "search", "fullmatch", "finditer", "findall", "sub", "subn", "group", "groups",
    "most_common", "elements", "total", "as_integer_ratio", "is_integer", "conjugate", "fromkeys", "removeprefix", "removesuffix",
    "expandtabs", "capitalize", "swapcase", "isidentifier", "isnumeric", "isdecimal", "isprintable", "isascii", "istitle", "format_map",
}
# selection methods: the result is (a component of) what the receiver holds
SELECTORS = {"get", "pop", "popitem", "setdefault", "values", "items", "__getitem__"}
FRESH_BUILTINS = {"dict", "list", "set", "sorted", "tuple", "frozenset", "bytes", "bytearray", "str", "repr", "len", "sum", "min", "max", "any", "all",
                  "bool", "int", "float", "isinstance", "issubclass", "hasattr", "id", "hash", "type", "print", "format", "ord", "chr", "abs",
                  "copy.copy", "copy.deepcopy", "deepcopy", "callable", "divmod", "round", "range"}
PASS_THROUGH = {"iter", "reversed", "enumerate", "zip", "next", "filter", "cast", "typing.cast"}


def _own(fnode):
    """Nodes of a function body, not descending into nested function / class definitions (lambdas are descended into)."""
    stack = list(ast.iter_child_nodes(fnode))
    while stack:
        n = stack.pop()
        yield n
        if isinstance(n, (ast.FunctionDef, ast.AsyncFunctionDef, ast.ClassDef)):
            continue
        stack.extend(ast.iter_child_nodes(n))


def mutable_expr(e):
    if isinstance(e, (ast.Dict, ast.List, ast.Set, ast.ListComp, ast.DictComp, ast.SetComp)):
        return True
    if isinstance(e, ast.BinOp) and isinstance(e.op, (ast.Mult, ast.Add)):
        return mutable_expr(e.left) or mutable_expr(e.right)          # [0] * 16, [..] + [..]
    if isinstance(e, ast.Call):
        d = dotted(e.func)
        if d in IMMUTABLE_FACTORIES:
            return False
        if isinstance(e.func, ast.Attribute) and (isinstance(e.func.value, ast.Constant) or e.func.attr in ("compile", "join", "format", "maketrans")):
            return False
        return True
    return False


def comp(labels):
    """Labels of a component (element / attribute / item) of an object with `labels`."""
    out = set()
    for l in labels:
        out.add("V:" + l[2:] if l.startswith("S:") else l)
    return frozenset(out)


class Fn:
    def __init__(self, rel, q, node, cls=None, parent=None):
        self.rel, self.q, self.node, self.cls, self.parent = rel, q, node, cls, parent
        a = node.args
        self.params = [x.arg for x in a.posonlyargs + a.args]
        self.kwonly = [x.arg for x in a.kwonlyargs]
        self.vararg = a.vararg.arg if a.vararg else None
        self.kwarg = a.kwarg.arg if a.kwarg else None
        self.all_params = self.params + self.kwonly + [x for x in (self.vararg, self.kwarg) if x]
        self.is_method = cls is not None and not any(dotted(d) == "staticmethod" for d in node.decorator_list)
        self.cached = any("cache" in ast.unparse(d) for d in node.decorator_list)
        self.own = list(_own(node))
        self.globals_decl = {nm for n in self.own if isinstance(n, ast.Global) for nm in n.names}
        stores = {n.id for n in self.own if isinstance(n, ast.Name) and isinstance(n.ctx, (ast.Store, ast.Del))}
        self.locals = (stores | set(self.all_params)) - self.globals_decl
        self.env = {}          # name -> frozenset(labels)
        self.pubs = {}         # name -> [(state, store stmt)]
        self.ret = frozenset()
        self.mut = {}          # param -> definite?
        self.reads = set()     # module-level state names read (transitively)
        # enclosing loops of every node
        self.loops = {}
        self._index_loops(node, ())

    def _index_loops(self, n, enc):
        for ch in ast.iter_child_nodes(n):
            if isinstance(ch, (ast.FunctionDef, ast.AsyncFunctionDef, ast.ClassDef)):
                continue
            e2 = enc + (id(ch),) if isinstance(ch, (ast.For, ast.While, ast.AsyncFor)) else enc
            self.loops[id(ch)] = e2
            self._index_loops(ch, e2)

    def key(self):
        return (self.rel, self.q)

    def name(self):
        return f"{self.rel.split('/')[-1]}::{self.q}"


class Analysis:
    def __init__(self, repo=None, files=None):
        self.repo = repo
        files = files if files is not None else [f for f in loader.all_package_files(repo) if "/sharepoint_io/" not in f]
        self.mods = {f: loader.module(f, repo) for f in files}
        self.modname = {}
        for rel in self.mods:
            dn = rel[:-3].replace("/", ".")
            if dn.endswith(".__init__"):
                dn = dn[: -len(".__init__")]
            self.modname[dn] = rel
        self.imports = {}
        for rel, m in self.mods.items():
            imp = {}
            pkg = rel[:-3].replace("/", ".").split(".")
            pkg = pkg[:-1]                                   # package of the module (also for __init__)
            for node in ast.walk(m.tree):
                if isinstance(node, ast.Import):
                    for a in node.names:
                        imp[a.asname or a.name.split(".")[0]] = a.name if a.asname else a.name.split(".")[0]
                elif isinstance(node, ast.ImportFrom):
                    base = node.module or ""
                    if node.level:
                        up = pkg[: len(pkg) - (node.level - 1)] if node.level > 1 else pkg
                        base = ".".join(up + ([base] if base else []))
                    for a in node.names:
                        imp[a.asname or a.name] = f"{base}.{a.name}"
            self.imports[rel] = imp
        self.fns = {}
        for rel, m in self.mods.items():
            for q, node in m.functions.items():
                cls = None
                if ".<locals>." not in q and "." in q:
                    c = q.rsplit(".", 1)[0]
                    if c in m.classes:
                        cls = c
                parent = None
                if ".<locals>." in q:
                    parent = (rel, q.split(".<locals>.")[0])
                self.fns[(rel, q)] = Fn(rel, q, node, cls, parent)
        # module-level state candidates
        self.state = {}        # (rel, NAME) -> expr
        for rel, m in self.mods.items():
            for name, e in m.assigns.items():
                if mutable_expr(e):
                    self.state[(rel, name)] = e
            for cq, c in m.classes.items():
                inst_attrs = {t.attr for fn in ast.walk(c) if isinstance(fn, ast.FunctionDef) for t in ast.walk(fn)
                              if isinstance(t, ast.Attribute) and isinstance(t.ctx, ast.Store) and isinstance(t.value, ast.Name) and t.value.id == "self"}
                is_dc = any("dataclass" in ast.unparse(d) for d in c.decorator_list)
                for s in c.body:
                    tgt, v = None, None
                    if isinstance(s, ast.Assign) and len(s.targets) == 1 and isinstance(s.targets[0], ast.Name):
                        tgt, v = s.targets[0].id, s.value
                    elif isinstance(s, ast.AnnAssign) and isinstance(s.target, ast.Name) and s.value is not None:
                        tgt, v = s.target.id, s.value
                        if is_dc and "ClassVar" not in ast.unparse(s.annotation):
                            continue
                    if tgt and v is not None and mutable_expr(v) and tgt not in inst_attrs:
                        self.state[(rel, f"{cq}.{tgt}")] = v
        self.events = []
        self.cached_fns = {k for k, f in self.fns.items() if f.cached}
        _AN[0] = self
        self._run()

    # ------------------------------------------------------------ naming --
    def sid(self, rel, name):
        return f"{rel.split('/')[-1]}::{name}"

    def state_of_label(self, l):
        return l[2:]

    # -------------------------------------------------------- resolution --
    def resolve_name(self, rel, name):
        """('fn', key) | ('class', rel, q) | ('state', rel, NAME) | None for a bare name used in module `rel`."""
        m = self.mods[rel]
        if name in m.functions:
            return ("fn", (rel, name))
        if name in m.classes:
            return ("class", rel, name)
        if (rel, name) in self.state:
            return ("state", rel, name)
        org = self.imports[rel].get(name)
        if org:
            if org in self.modname:
                return ("module", self.modname[org])
            mod, _, attr = org.rpartition(".")
            rel2 = self.modname.get(mod)
            if rel2 is not None:
                m2 = self.mods[rel2]
                if attr in m2.functions:
                    return ("fn", (rel2, attr))
                if attr in m2.classes:
                    return ("class", rel2, attr)
                if (rel2, attr) in self.state:
                    return ("state", rel2, attr)
                if attr in self.imports[rel2] and rel2 != rel:        # re-export through a package __init__
                    return self.resolve_name(rel2, attr)
        return None

    def class_method(self, rel, cls, meth, depth=0):
        m = self.mods[rel]
        if f"{cls}.{meth}" in m.functions:
            return (rel, f"{cls}.{meth}")
        c = m.classes.get(cls)
        if c is None or depth > 4:
            return None
        for b in c.bases:
            r = self.resolve_name(rel, dotted(b)) if dotted(b) else None
            if r and r[0] == "class":
                k = self.class_method(r[1], r[2], meth, depth + 1)
                if k:
                    return k
        return None

    def class_has_external_base(self, rel, cls):
        c = self.mods[rel].classes.get(cls)
        if c is None:
            return True
        for b in c.bases:
            r = self.resolve_name(rel, dotted(b)) if dotted(b) else None
            if not (r and r[0] == "class"):
                if dotted(b) not in ("object", "ABC", "abc.ABC", "Protocol", "typing.Protocol", "Generic"):
                    return True
            elif self.class_has_external_base(r[1], r[2]):
                return True
        return False

    def resolve_call(self, fn, call):
        """Callee Fn key for a call inside `fn`, or None."""
        f = call.func
        if isinstance(f, ast.Name):
            # nested function of this or an enclosing function
            g = fn
            while g is not None:
                base = g.q
                k = (g.rel, f"{base}.<locals>.{f.id}")
                if k in self.fns:
                    return k
                g = self.fns.get(g.parent) if g.parent else None
            if f.id in fn.locals:
                return None
            r = self.resolve_name(fn.rel, f.id)
            if r and r[0] == "fn":
                return r[1]
            if r and r[0] == "class":
                return self.class_method(r[1], r[2], "__init__")
            return None
        if isinstance(f, ast.Attribute):
            if isinstance(f.value, ast.Name) and f.value.id in ("self", "cls"):
                host = fn
                while host is not None and host.cls is None:
                    host = self.fns.get(host.parent) if host.parent else None
                if host is not None:
                    return self.class_method(host.rel, host.cls, f.attr)
            if isinstance(f.value, ast.Name) and f.value.id not in fn.locals:
                r = self.resolve_name(fn.rel, f.value.id)
                if r and r[0] == "module":
                    m2 = self.mods[r[1]]
                    if f.attr in m2.functions:
                        return (r[1], f.attr)
                if r and r[0] == "class":
                    return self.class_method(r[1], r[2], f.attr)
        return None

    def methods_named(self, rel, meth):
        m = self.mods[rel]
        return [(rel, q) for q in m.functions if "." in q and ".<locals>." not in q and q.rsplit(".", 1)[1] == meth]

    # ------------------------------------------------------------ labels --
    def lookup(self, fn, name, at):
        g = fn
        while g is not None:
            if name in g.locals:
                lab = set(g.env.get(name, ()))
                if name in g.all_params and g is fn:
                    lab.add("P:" + name)
                for (x, store) in g.pubs.get(name, ()):
                    if g is not fn or self.after(g, at, store):
                        lab.add("V:" + x)
                return frozenset(lab)
            g = self.fns.get(g.parent) if g.parent else None
        r = self.resolve_name(fn.rel, name)
        if r and r[0] == "state":
            return frozenset({"S:" + self.sid(r[1], r[2])})
        org = self.imports[fn.rel].get(name)
        if r is None and org and not org.startswith("sharepoint2text") and org.split(".")[0] not in ("typing", "dataclasses", "abc", "enum"):
            return frozenset({"X:" + org})               # an object of another library / the interpreter: shared by everybody
        return frozenset()

    def after(self, fn, use, store):
        if use is None:
            return True
        if getattr(use, "lineno", 0) > getattr(store, "end_lineno", store.lineno):
            return True
        lu, ls = fn.loops.get(id(use), ()), fn.loops.get(id(store), ())
        return bool(set(lu) & set(ls))

    def L(self, fn, e, at=None):
        at = at if at is not None else e
        if e is None:
            return frozenset()
        if isinstance(e, ast.Name):
            return self.lookup(fn, e.id, at)
        if isinstance(e, ast.Attribute):
            # class-level tables through self / cls / the class name
            if isinstance(e.value, ast.Name):
                host = fn
                while host is not None and host.cls is None:
                    host = self.fns.get(host.parent) if host.parent else None
                if e.value.id in ("self", "cls") and host is not None and (host.rel, f"{host.cls}.{e.attr}") in self.state:
                    return frozenset({"S:" + self.sid(host.rel, f"{host.cls}.{e.attr}")})
                if e.value.id not in fn.locals:
                    r = self.resolve_name(fn.rel, e.value.id)
                    if r and r[0] == "class" and (r[1], f"{r[2]}.{e.attr}") in self.state:
                        return frozenset({"S:" + self.sid(r[1], f"{r[2]}.{e.attr}")})
                    if r and r[0] == "module" and (r[1], e.attr) in self.state:
                        return frozenset({"S:" + self.sid(r[1], e.attr)})
            return comp(self.L(fn, e.value, at))
        if isinstance(e, ast.Subscript):
            if isinstance(e.slice, ast.Slice):
                return frozenset()                      # a slice is a fresh object
            return comp(self.L(fn, e.value, at))
        if isinstance(e, ast.Starred):
            return self.L(fn, e.value, at)
        if isinstance(e, ast.Tuple):
            out = set()
            for x in e.elts:
                out |= self.L(fn, x, at)
            return frozenset(out)
        if isinstance(e, (ast.List, ast.Set)):
            out = set()
            for x in e.elts:
                out |= {l for l in self.L(fn, x, at) if l.startswith("X:")}     # a fresh container; external objects inside stay external
            return frozenset(out)
        if isinstance(e, (ast.IfExp,)):
            return self.L(fn, e.body, at) | self.L(fn, e.orelse, at)
        if isinstance(e, ast.BoolOp):
            out = set()
            for x in e.values:
                out |= self.L(fn, x, at)
            return frozenset(out)
        if isinstance(e, ast.NamedExpr):
            return self.L(fn, e.value, at)
        if isinstance(e, ast.Await):
            return self.L(fn, e.value, at)
        if isinstance(e, ast.Call):
            return self.L_call(fn, e, at)
        return frozenset()

    def bind_args(self, callee, call, skip_self):
        """[(param name, arg expr)] of a call to `callee`."""
        params = list(callee.params)
        if skip_self and params:
            params = params[1:]
        out = []
        for i, a in enumerate(call.args):
            if isinstance(a, ast.Starred):
                continue
            if i < len(params):
                out.append((params[i], a))
            elif callee.vararg:
                out.append((callee.vararg, a))
        for kw in call.keywords:
            if kw.arg is None:
                continue
            if kw.arg in callee.params or kw.arg in callee.kwonly:
                out.append((kw.arg, kw.value))
            elif callee.kwarg:
                out.append((callee.kwarg, kw.value))
        return out

    def call_binding(self, fn, call):
        k = self.resolve_call(fn, call)
        if k is None:
            return None, []
        callee = self.fns[k]
        f = call.func
        bound = []
        skip_self = False
        if callee.is_method:
            if isinstance(f, ast.Attribute):
                r = self.resolve_name(fn.rel, f.value.id) if isinstance(f.value, ast.Name) and f.value.id not in fn.locals else None
                if not (r and r[0] == "class"):            # bound call: receiver is `self`
                    skip_self = True
                    if callee.params:
                        bound.append((callee.params[0], f.value))
            else:
                skip_self = True                           # constructor call Class(...): self is the fresh object
        bound += self.bind_args(callee, call, skip_self)
        return callee, bound

    def L_call(self, fn, e, at):
        f = e.func
        d = dotted(f)
        if d:
            root, _, rest = d.partition(".")
            org = self.imports[fn.rel].get(root) if root not in fn.locals else None
            full = (org + ("." + rest if rest else "")) if org else ""
            if full in GLOBAL_ACCESSORS:
                return frozenset({"X:" + full + "()"})       # hands out an interpreter-wide object (context, logger, module)
        if d in ("getattr",) and e.args:
            return comp(self.L(fn, e.args[0], at)) | (self.L(fn, e.args[2], at) if len(e.args) > 2 else frozenset())
        if d in FRESH_BUILTINS:
            return frozenset()
        if d in PASS_THROUGH:
            out = set()
            for a in e.args:
                out |= comp(self.L(fn, a, at))
            return frozenset(out)
        callee, bound = self.call_binding(fn, e)
        if callee is not None:
            if isinstance(f, ast.Name):
                r = self.resolve_name(fn.rel, f.id)
                if r and r[0] == "class" and (fn.rel, f"{fn.q}.<locals>.{f.id}") not in self.fns:
                    return frozenset()                 # constructor: fresh instance
            out = set()
            if callee.cached:
                out.add("V:" + self.sid(callee.rel, callee.q + "()"))
            for l in callee.ret:
                if l.startswith("P:"):
                    for (p, a) in bound:
                        if p == l[2:]:
                            out |= self.L(fn, a, at)
                else:
                    out.add(l)
            return frozenset(out)
        if isinstance(f, ast.Attribute):
            recv = self.L(fn, f.value, at)
            if recv and f.attr in SELECTORS | {"keys", "__iter__"}:
                return comp(recv)
            if recv and f.attr in ("copy",):
                return frozenset()
        return frozenset()

    # ------------------------------------------------------------ passes --
    def _assign(self, fn, tgt, labels, stmt):
        ch = False
        if isinstance(tgt, ast.Name):
            if tgt.id in fn.locals:
                old = fn.env.get(tgt.id, frozenset())
                new = old | frozenset(l for l in labels)
                if new != old:
                    fn.env[tgt.id] = new
                    ch = True
        elif isinstance(tgt, (ast.Tuple, ast.List)):
            for x in tgt.elts:
                ch |= self._assign(fn, x.value if isinstance(x, ast.Starred) else x, comp(labels), stmt)
        return ch

    def _publish(self, fn, value, x, stmt):
        """`value` is stored into state x by `stmt`: the names it is built from are published from here on."""
        ch = False
        names = []
        if isinstance(value, ast.Name):
            names = [value.id]
        elif isinstance(value, (ast.Tuple, ast.List)):
            names = [v.id for v in value.elts if isinstance(v, ast.Name)]
        for nm in names:
            g = fn
            while g is not None and nm not in g.locals:
                g = self.fns.get(g.parent) if g.parent else None
            if g is None:
                continue
            lst = g.pubs.setdefault(nm, [])
            if not any(p[0] == x and p[1] is stmt for p in lst):
                lst.append((x, stmt))
                ch = True
        return ch

    def _flow(self, fn):
        """One flow-insensitive pass over the bindings of `fn`; True if something changed."""
        ch = False
        for n in fn.own:
            if isinstance(n, ast.Assign):
                lab = self.L(fn, n.value, n)
                for t in n.targets:
                    ch |= self._assign(fn, t, lab, n)
                    ch |= self._store_publish(fn, t, n.value, n)
            elif isinstance(n, ast.AnnAssign) and n.value is not None:
                ch |= self._assign(fn, n.target, self.L(fn, n.value, n), n)
                ch |= self._store_publish(fn, n.target, n.value, n)
            elif isinstance(n, ast.NamedExpr):
                ch |= self._assign(fn, n.target, self.L(fn, n.value, n), n)
            elif isinstance(n, (ast.For, ast.AsyncFor)):
                ch |= self._assign(fn, n.target, comp(self.L(fn, n.iter, n)), n)
            elif isinstance(n, ast.comprehension):
                ch |= self._assign(fn, n.target, comp(self.L(fn, n.iter, n.iter)), n)
            elif isinstance(n, (ast.With, ast.AsyncWith)):
                for it in n.items:
                    if it.optional_vars is not None:
                        ch |= self._assign(fn, it.optional_vars, self.L(fn, it.context_expr, n), n)
            elif isinstance(n, ast.Call):
                # publication through mutator calls: X.setdefault(k, v) / X.append(v) / X.add(v) / setattr(X, n, v)
                f = n.func
                if isinstance(f, ast.Attribute) and f.attr in ("setdefault", "append", "add", "appendleft", "insert", "__setitem__") and n.args:
                    for l in self.L(fn, f.value, n):
                        if l[0] in "SV":
                            ch |= self._publish(fn, n.args[-1], l[2:], n)
                if dotted(f) == "setattr" and len(n.args) == 3:
                    for l in self.L(fn, n.args[0], n):
                        if l[0] in "SV":
                            ch |= self._publish(fn, n.args[2], l[2:], n)
                # parameters of callees receive the labels of the arguments (global labels only)
                callee, bound = self.call_binding(fn, n)
                if callee is not None:
                    for (p, a) in bound:
                        lab = frozenset(l for l in self.L(fn, a, n) if not l.startswith("P:"))
                        if lab and p in callee.locals:
                            old = callee.env.get(p, frozenset())
                            if not lab <= old:
                                callee.env[p] = old | lab
                                ch = True
        # summaries
        ret = set(fn.ret)
        for n in fn.own:
            if isinstance(n, ast.Return) and n.value is not None:
                ret |= self.L(fn, n.value, n)
            elif isinstance(n, (ast.Yield,)) and n.value is not None:
                ret |= self.L(fn, n.value, n)
        if frozenset(ret) != fn.ret:
            fn.ret = frozenset(ret)
            ch = True
        return ch

    def _store_publish(self, fn, tgt, value, stmt):
        ch = False
        if isinstance(tgt, ast.Subscript) and isinstance(tgt.slice, ast.Slice):
            return False                      # X[a:b] = v copies the elements of v; v itself is not stored
        if isinstance(tgt, (ast.Subscript, ast.Attribute)):
            for l in self.L(fn, tgt.value, stmt):
                if l[0] in "SV":
                    ch |= self._publish(fn, value, l[2:], stmt)
        return ch

    def _mutations(self, fn, record):
        """Mutation sites of `fn`: updates the `mut` summary; with record=True appends write / vmut events."""
        ch = False

        def hit(labels, node, how, definite, removal=False, key=None, value=None, rebind=False):
            nonlocal ch
            for l in labels:
                if l.startswith("P:"):
                    p = l[2:]
                    if p not in fn.mut or (definite and not fn.mut[p]):
                        fn.mut[p] = bool(definite) or fn.mut.get(p, False)
                        ch = True
                elif record and (definite or l[0] != "X"):        # calling into a library is not a mutation of the library
                    self.events.append({"kind": {"S": "write", "V": "vmut", "X": "xmut"}[l[0]], "state": l[2:], "fn": fn.key(), "node": node, "how": how,
                                        "definite": definite, "removal": removal, "key": key, "value": value, "rebind": rebind})

        for n in fn.own:
            if isinstance(n, (ast.Assign, ast.AugAssign, ast.AnnAssign, ast.Delete)):
                tgts = n.targets if isinstance(n, (ast.Assign, ast.Delete)) else [n.target]
                flat = []
                for t in tgts:
                    flat.extend(t.elts if isinstance(t, (ast.Tuple, ast.List)) else [t])
                for t in flat:
                    if isinstance(t, ast.Subscript):
                        hit(self.L(fn, t.value, n), n, f"line {n.lineno}: {ast.unparse(t)} {'deleted' if isinstance(n, ast.Delete) else 'assigned'}", True,
                            removal=isinstance(n, ast.Delete), key=t.slice, value=getattr(n, "value", None))
                    elif isinstance(t, ast.Attribute) and record and self._code_object_state(fn, t) is not None:
                        # state kept on a function / class object of the package: f.cache = ..., Class.counter += 1, type(self).seen = ...
                        hit({"S:" + self._code_object_state(fn, t)}, n, f"line {n.lineno}: attribute {ast.unparse(t)} of a function / class object assigned", True,
                            key=ast.Constant(t.attr), value=getattr(n, "value", None))
                    elif isinstance(t, ast.Attribute):
                        hit(self.L(fn, t.value, n), n, f"line {n.lineno}: attribute {ast.unparse(t)} {'deleted' if isinstance(n, ast.Delete) else 'assigned'}", True,
                            removal=isinstance(n, ast.Delete), key=ast.Constant(t.attr), value=getattr(n, "value", None))
                    elif isinstance(t, ast.Name) and isinstance(n, ast.AugAssign) and isinstance(n.op, (ast.Add, ast.BitOr, ast.Mult, ast.Sub, ast.BitAnd)):
                        lab = frozenset(l for l in self.L(fn, t, n) if not l.startswith("P:"))   # x += ... mutates lists / sets / dicts in place
                        hit(lab, n, f"line {n.lineno}: in-place {ast.unparse(n)}", False)
                    elif isinstance(t, ast.Name) and t.id in fn.globals_decl and record:
                        r = self.resolve_name(fn.rel, t.id)
                        if r and r[0] == "state":
                            hit({"S:" + self.sid(r[1], r[2])}, n, f"line {n.lineno}: global {t.id} rebound", True, rebind=True, value=getattr(n, "value", None))
            elif isinstance(n, ast.Call):
                f = n.func
                d = dotted(f)
                if d == "setattr" and n.args:
                    hit(self.L(fn, n.args[0], n), n, f"line {n.lineno}: {ast.unparse(n)[:80]}", True, key=n.args[1] if len(n.args) > 1 else None,
                        value=n.args[2] if len(n.args) > 2 else None)
                    continue
                if d == "delattr" and n.args:
                    hit(self.L(fn, n.args[0], n), n, f"line {n.lineno}: {ast.unparse(n)[:80]}", True, removal=True)
                    continue
                callee, bound = self.call_binding(fn, n)
                if callee is not None:
                    for (p, a) in bound:
                        if p in callee.mut:
                            hit(self.L(fn, a, n), n, f"line {n.lineno}: passed as `{p}` to {callee.q}, which mutates it", callee.mut[p])
                    continue
                if isinstance(f, ast.Attribute):
                    recv = self.L(fn, f.value, n)
                    if not recv:
                        continue
                    m = f.attr
                    if m in SETTER_METHODS and any(l.startswith("X:") for l in recv):
                        hit(frozenset(l for l in recv if l.startswith("X:")), n, f"line {n.lineno}: {ast.unparse(n)[:80]}", True)
                        continue
                    if m in DEF_MUTATORS:
                        key = n.args[0] if n.args and m in ("setdefault", "pop", "move_to_end") else None
                        val = n.args[1] if m == "setdefault" and len(n.args) > 1 else (n.args[0] if m in ("append", "add", "appendleft") and n.args else None)
                        hit(recv, n, f"line {n.lineno}: {ast.unparse(n)[:80]}", True, removal=m in REMOVALS, key=key, value=val)
                    elif m in READERS:
                        continue
                    else:
                        # a method of a package class (unique by name in this module), else unknown
                        cands = self.methods_named(fn.rel, m)
                        if len(cands) == 1:
                            cal = self.fns[cands[0]]
                            selfp = cal.params[0] if cal.params else None
                            ext = self.class_has_external_base(cal.rel, cal.cls) if cal.cls else True
                            if selfp in cal.mut:
                                hit(recv, n, f"line {n.lineno}: {ast.unparse(f)}() mutates its receiver ({cal.q})", cal.mut[selfp])
                            elif ext and any("super()" in ast.unparse(x) for x in cal.own if isinstance(x, ast.Call)):
                                hit(recv, n, f"line {n.lineno}: {ast.unparse(f)}() calls into an external base class", False)
                        else:
                            glob = frozenset(l for l in recv if not l.startswith("P:"))
                            hit(glob, n, f"line {n.lineno}: method {m}() of unknown effect called on it", False)
        return ch

    def _code_object_state(self, fn, t):
        """`t` = X.attr (store) where X is a function or class of the package (also cls / type(self) / self.__class__): the id of
        that piece of state, else None."""
        v = t.value
        host = fn
        while host is not None and host.cls is None:
            host = self.fns.get(host.parent) if host.parent else None
        if isinstance(v, ast.Name):
            if v.id == "cls" and host is not None and "cls" in fn.all_params:
                return self.sid(host.rel, f"{host.cls}.{t.attr}")
            if v.id in fn.locals:
                return None
            g = fn
            while g is not None:                              # nested function objects
                if (g.rel, f"{g.q}.<locals>.{v.id}") in self.fns:
                    return self.sid(g.rel, f"{g.q}.<locals>.{v.id}.{t.attr}")
                g = self.fns.get(g.parent) if g.parent else None
            r = self.resolve_name(fn.rel, v.id)
            if r and r[0] == "fn":
                return self.sid(r[1][0], f"{r[1][1]}.{t.attr}")
            if r and r[0] == "class":
                return self.sid(r[1], f"{r[2]}.{t.attr}")
            return None
        if host is not None and (ast.unparse(v) in ("type(self)", "self.__class__")):
            return self.sid(host.rel, f"{host.cls}.{t.attr}")
        return None

    def _reads(self, fn):
        ch = False
        new = set(fn.reads)
        for n in fn.own:
            if isinstance(n, ast.Name) and isinstance(n.ctx, ast.Load) and n.id not in fn.locals:
                g, shadow = (self.fns.get(fn.parent) if fn.parent else None), False
                while g is not None:
                    if n.id in g.locals:
                        shadow = True
                        break
                    g = self.fns.get(g.parent) if g.parent else None
                if shadow:
                    continue
                r = self.resolve_name(fn.rel, n.id)
                if r and r[0] == "state":
                    new.add(self.sid(r[1], r[2]))
            elif isinstance(n, ast.Call):
                k = self.resolve_call(fn, n)
                if k is not None:
                    new |= self.fns[k].reads
        if new != fn.reads:
            fn.reads = new
            ch = True
        return ch

    def _run(self):
        order = sorted(self.fns.values(), key=lambda f: (f.rel, f.q))
        for _ in range(10):
            ch = False
            for fn in order:
                ch |= self._flow(fn)
                ch |= self._mutations(fn, False)
                ch |= self._reads(fn)
            if not ch:
                break
        self.converged = not ch
        for fn in order:
            self._mutations(fn, True)

    # ----------------------------------------------------------- queries --
    def writes(self, x):
        return [e for e in self.events if e["kind"] == "write" and e["state"] == x]

    def xmuts(self):
        return [e for e in self.events if e["kind"] == "xmut"]

    def vmuts(self, x):
        return [e for e in self.events if e["kind"] == "vmut" and e["state"] == x]

    def written_states(self):
        if getattr(self, "_written", None) is None:
            self._written = sorted({e["state"] for e in self.events if e["kind"] == "write"})
        return self._written

    def published_states(self):
        return sorted({e["state"] for e in self.events})

    def readers(self, x):
        """[(Fn, node, kind)] reads of the state object x in the package: kind in key / whole / select."""
        out = []
        lab = "S:" + x
        for fn in self.fns.values():
            pm = None
            for n in fn.own:
                if not (isinstance(n, (ast.Name, ast.Attribute)) and isinstance(getattr(n, "ctx", None), ast.Load)):
                    continue
                if lab not in self.L(fn, n, n):
                    continue
                if pm is None:
                    pm = {}
                    for p in ast.walk(fn.node):
                        for c in ast.iter_child_nodes(p):
                            pm[id(c)] = p
                out.append((fn, n, pm.get(id(n))))
        return out


# --------------------------------------------------------------- key injectivity --
def single_assignment(fn, name):
    """The one expression assigned to local `name` in `fn` (None when there are several bindings or none)."""
    vals = []
    for n in fn.own:
        if isinstance(n, ast.Assign):
            for t in n.targets:
                if isinstance(t, ast.Name) and t.id == name:
                    vals.append(n.value)
                elif isinstance(t, (ast.Tuple, ast.List)) and any(isinstance(x, ast.Name) and x.id == name for x in ast.walk(t)):
                    vals.append(None)
        elif isinstance(n, (ast.AnnAssign, ast.NamedExpr)) and isinstance(n.target, ast.Name) and n.target.id == name and getattr(n, "value", None) is not None:
            vals.append(n.value)
        elif isinstance(n, (ast.AugAssign,)) and isinstance(n.target, ast.Name) and n.target.id == name:
            vals.append(None)
        elif isinstance(n, (ast.For, ast.comprehension)) and any(isinstance(x, ast.Name) and x.id == name for x in ast.walk(n.target)):
            vals.append(None)
    if len(vals) == 1 and vals[0] is not None and name not in fn.all_params:
        return vals[0]
    return None


INJECTIVE_WRAPPERS = {"tuple", "bytes", "list", "bytearray", "memoryview"}


def determines(an, fn, expr, param, depth=0):
    """True when the value of `expr` (inside `fn`) determines the value of parameter `param` by construction: the parameter
    itself, a tuple / list display with such a component, an order-preserving conversion of it, a local bound once to such an
    expression, or a package function all of whose return values determine the corresponding argument.  (Sufficient, not
    necessary: anything else -- slices, len(), hashes, attributes, formatting -- is NOT recognised.)"""
    if depth > 5 or expr is None:
        return False
    if isinstance(expr, ast.Name):
        if expr.id == param and param in fn.all_params and single_rebinding_free(fn, param):
            return True
        if expr.id in fn.locals and expr.id not in fn.all_params:
            v = single_assignment(fn, expr.id)
            return v is not None and determines(an, fn, v, param, depth + 1)
        return False
    if isinstance(expr, (ast.Tuple, ast.List)):
        return any(determines(an, fn, x, param, depth + 1) for x in expr.elts)
    if isinstance(expr, ast.Call):
        d = dotted(expr.func)
        if d in INJECTIVE_WRAPPERS and len(expr.args) == 1 and not expr.keywords:
            return determines(an, fn, expr.args[0], param, depth + 1)
        callee, bound = an.call_binding(fn, expr)
        if callee is not None and not callee.cached:
            rets = [n.value for n in callee.own if isinstance(n, ast.Return)]
            if not rets or any(r is None for r in rets):
                return False
            for (p, a) in bound:
                if determines(an, fn, a, param, depth + 1) and all(determines(an, callee, r, p, depth + 1) for r in rets):
                    return True
        return False
    return False


def single_rebinding_free(fn, param):
    return not any(isinstance(n, ast.Name) and n.id == param and isinstance(n.ctx, ast.Store) for n in fn.own)


def _binds(stmt, name):
    """Does `stmt` (anywhere inside, not descending into nested defs) bind / rebind / delete the local `name`?"""
    for n in [stmt] + list(_own(stmt)):
        if isinstance(n, ast.Name) and n.id == name and isinstance(n.ctx, (ast.Store, ast.Del)):
            return True
    return False


def reaching_def(fn, name, at):
    """The ONE assignment `name = <expr>` that reaches the statement containing `at` on every path, found by scanning the
    statements before it in its own block and then in the enclosing blocks; None when another binding may intervene (a compound
    statement binding the name, a loop around it that rebinds it) or none is found.  -> (value expr, assignment stmt) | None"""
    pm = getattr(fn, "_pm", None) or parents_of(fn)
    fn._pm = pm
    s = at
    while s is not None and not isinstance(s, ast.stmt):
        s = pm.get(id(s))
    while s is not None and s is not fn.node:
        parent = pm.get(id(s))
        block = None
        for fld in ("body", "orelse", "finalbody"):
            lst = getattr(parent, fld, None)
            if isinstance(lst, list) and any(x is s for x in lst):
                block = lst
        if block is None and isinstance(parent, ast.ExceptHandler):
            block = parent.body
        if block is None:
            s = parent
            continue
        idx = next(i for i, x in enumerate(block) if x is s)
        for t in reversed(block[:idx]):
            if isinstance(t, ast.Assign) and len(t.targets) == 1 and isinstance(t.targets[0], ast.Name) and t.targets[0].id == name:
                return (t.value, t)
            if isinstance(t, ast.AnnAssign) and isinstance(t.target, ast.Name) and t.target.id == name and t.value is not None:
                return (t.value, t)
            if isinstance(t, ast.Assign) and len(t.targets) == 1 and isinstance(t.targets[0], (ast.Tuple, ast.List)) \
                    and any(isinstance(e, ast.Name) and e.id == name for e in t.targets[0].elts):
                i = next(i for i, e in enumerate(t.targets[0].elts) if isinstance(e, ast.Name) and e.id == name)
                return (("component", i, t.value), t)
            if _binds(t, name):
                return None
        if isinstance(parent, (ast.For, ast.While, ast.AsyncFor)) and _binds(parent, name):
            return None
        if isinstance(parent, (ast.With, ast.AsyncWith)) and any(it.optional_vars is not None and _binds(it.optional_vars, name) for it in parent.items):
            return None
        if isinstance(parent, ast.If) and _binds(parent.test, name):
            return None                                        # walrus in the test: the branch decides what reaches
        s = parent
        while s is not None and not isinstance(s, (ast.stmt, ast.ExceptHandler)):
            s = pm.get(id(s))
        if isinstance(s, ast.ExceptHandler):
            s = pm.get(id(s))
    return None


def deps(an, fn, expr, exclude_state=(), at=None):
    """Parameters and module-level state that `expr` may depend on: through local assignments, and through the module state read
    by package functions it calls.  Flow-insensitive, except that a local whose single reaching definition at `at` is found
    (reaching_def) takes the dependencies of that definition only."""
    params = fn.all_params
    dep = {p: {p} for p in params}
    mutdep = {}            # what flows INTO the object a local names by mutation (x[k] = v, x.append(v), x += v): survives any rebinding analysis

    def of(e):
        d = set()
        for x in ast.walk(e):
            if isinstance(x, ast.Name):
                if x.id in fn.locals:
                    d |= dep.get(x.id, set())
                else:
                    r = an.resolve_name(fn.rel, x.id)
                    if r and r[0] == "state":
                        d.add("state:" + an.sid(r[1], r[2]))
            elif isinstance(x, ast.Call):
                k = an.resolve_call(fn, x)
                if k is not None:
                    d |= {"state:" + s for s in an.fns[k].reads}
        return d

    for _ in range(6):
        for n in fn.own:
            tgts, val = [], None
            if isinstance(n, ast.Assign):
                tgts, val = n.targets, n.value
            elif isinstance(n, (ast.AugAssign, ast.AnnAssign)) and getattr(n, "value", None) is not None:
                tgts, val = [n.target], n.value
            elif isinstance(n, ast.NamedExpr):
                tgts, val = [n.target], n.value
            elif isinstance(n, (ast.For, ast.comprehension)):
                tgts, val = [n.target], n.iter
            elif isinstance(n, ast.Call) and isinstance(n.func, ast.Attribute) and n.func.attr in DEF_MUTATORS and n.args:
                # x.append(v) / x.update(v): v flows into x
                b = n.func.value
                while isinstance(b, (ast.Subscript, ast.Attribute)):
                    b = b.value
                if isinstance(b, ast.Name) and b.id in fn.locals:
                    d = set()
                    for a in n.args:
                        d |= of(a)
                    dep[b.id] = dep.get(b.id, set()) | d
                    mutdep[b.id] = mutdep.get(b.id, set()) | d
                continue
            if val is None:
                continue
            d = of(val)
            for t in tgts:
                elts = t.elts if isinstance(t, (ast.Tuple, ast.List)) else [t]
                for e in elts:
                    b = e.value if isinstance(e, ast.Starred) else e
                    extra = set()
                    through = isinstance(b, (ast.Subscript, ast.Attribute)) or isinstance(n, ast.AugAssign)
                    while isinstance(b, (ast.Subscript, ast.Attribute)):
                        if isinstance(b, ast.Subscript):
                            extra |= of(b.slice)
                        b = b.value
                    if isinstance(b, ast.Name):
                        dep[b.id] = dep.get(b.id, set()) | d | extra
                        if through:
                            mutdep[b.id] = mutdep.get(b.id, set()) | d | extra
    def of_at(e, where, depth=0):
        if where is None or depth > 6:
            return of(e)
        d = set()
        stack = [e]
        while stack:
            x = stack.pop()
            if isinstance(x, ast.Name) and x.id in fn.locals and isinstance(x.ctx, ast.Load):
                rd = reaching_def(fn, x.id, where)
                if rd is None:
                    d |= dep.get(x.id, set())
                else:
                    val, stmt = rd
                    if isinstance(val, tuple):
                        val = val[2]
                    d |= of_at(val, stmt, depth + 1) | mutdep.get(x.id, set())
                continue
            if isinstance(x, ast.Name) or isinstance(x, ast.Call):
                d |= of(x) if isinstance(x, ast.Name) else {"state:" + s_ for k_ in [an.resolve_call(fn, x)] if k_ is not None for s_ in an.fns[k_].reads}
            if isinstance(x, (ast.ListComp, ast.SetComp, ast.DictComp, ast.GeneratorExp, ast.Lambda)):
                d |= of(x)                                      # own scopes: flow-insensitive
                continue
            stack.extend(ast.iter_child_nodes(x))
        return d

    out = of_at(expr, at)
    live = {"state:" + s for s in an.written_states()} - {"state:" + s for s in exclude_state}     # tables nobody writes are constants
    return {x for x in out if not x.startswith("state:") or x in live}


# ------------------------------------------------------------------ disciplines --
def parents_of(fn):
    pm = {}
    for p in ast.walk(fn.node):
        for c in ast.iter_child_nodes(p):
            pm[id(c)] = p
    return pm


def inside(pm, node, container_stmts):
    """Is `node` inside one of the statements `container_stmts` (by ancestry)?"""
    ids = {id(s) for s in container_stmts}
    n = node
    while n is not None:
        if id(n) in ids:
            return True
        n = pm.get(id(n))
    return False


def mentions_state(an, fn, expr, x):
    for n in ast.walk(expr):
        if isinstance(n, (ast.Name, ast.Attribute)):
            lab = an.L(fn, n, n)
            if ("S:" + x) in lab or ("V:" + x) in lab:
                return True
    return False


def is_state_expr(an, fn, e, x):
    return isinstance(e, (ast.Name, ast.Attribute)) and ("S:" + x) in an.L(fn, e, e)


def exits(stmts):
    return bool(stmts) and isinstance(stmts[-1], (ast.Return, ast.Raise, ast.Continue))


def content_writes(an, x):
    """Write events that change what the state holds (not: reordering, rebinding the module-level name)."""
    out = []
    for e in an.writes(x):
        n = e["node"]
        if e["rebind"]:
            continue
        if isinstance(n, ast.Call) and isinstance(n.func, ast.Attribute) and n.func.attr == "move_to_end":
            continue
        out.append(e)
    return out


def miss_guard(an, fn, node, x):
    """The write at `node` happens only after a miss of the state's own lookup.  Recognised (up to negation of the test, which
    only swaps the branches): an `if` that tests the state x or something selected from it and
      * precedes `node` and leaves the function / iteration in one branch (`if hit: return ...`), `node` not in that `if`;
      * or contains `node` in its body or else-branch (`if missing: create and store`, `if hit: ... else: store`);
    a conditional expression / `or` with the lookup in its test is not a statement and is not recognised; EAFP:
      * `node` inside an `except KeyError / LookupError` handler of a `try` whose body reads the state, or after such a `try`
        whose body returns."""
    pm = parents_of(fn)
    for g in fn.own:
        if isinstance(g, ast.If) and g.lineno <= node.lineno and mentions_state(an, fn, g.test, x):
            if inside(pm, node, g.body) or inside(pm, node, g.orelse):
                return g
            if (exits(g.body) or exits(g.orelse)) and g.end_lineno < node.lineno:
                return g
        if isinstance(g, ast.Try) and g.lineno <= node.lineno and any(mentions_state(an, fn, s_, x) for s_ in g.body):
            for h in g.handlers:
                names = [] if h.type is None else [dotted(t) for t in (h.type.elts if isinstance(h.type, ast.Tuple) else [h.type])]
                if set(names) & {"KeyError", "LookupError"}:
                    if inside(pm, node, h.body):
                        return g
                    if exits(g.body) and g.end_lineno < node.lineno:
                        return g
    return None


def emptiness_guards(an, x):
    """[(Fn, If, form)]: `if X: return ...` (form 'nonempty-return') / `if not X: <populate>` (form 'empty-populate') /
    len(X) compared with 0 -- the reader assumes: non-empty means completely populated."""
    out = []
    for fn in an.fns.values():
        for g in fn.own:
            if not isinstance(g, ast.If):
                continue
            t = g.test
            neg = False
            if isinstance(t, ast.UnaryOp) and isinstance(t.op, ast.Not):
                t, neg = t.operand, True
            if isinstance(t, ast.Call) and dotted(t.func) == "len" and len(t.args) == 1:
                t = t.args[0]
            elif isinstance(t, ast.Compare) and len(t.ops) == 1 and isinstance(t.left, ast.Call) and dotted(t.left.func) == "len" and len(t.left.args) == 1 \
                    and isinstance(t.comparators[0], ast.Constant) and t.comparators[0].value in (0, 1):
                op, c = t.ops[0], t.comparators[0].value
                empty_test = (c == 0 and isinstance(op, (ast.Eq, ast.LtE))) or (c == 1 and isinstance(op, ast.Lt))
                nonempty_test = (c == 0 and isinstance(op, (ast.NotEq, ast.Gt))) or (c == 1 and isinstance(op, ast.GtE))
                if not (empty_test or nonempty_test):
                    continue
                if empty_test:
                    neg = not neg
                t = t.left.args[0]
            elif isinstance(t, ast.Compare) and len(t.ops) == 1 and isinstance(t.ops[0], (ast.Eq, ast.NotEq)) and isinstance(t.comparators[0], (ast.Dict, ast.List, ast.Set)) \
                    and not getattr(t.comparators[0], "keys", getattr(t.comparators[0], "elts", None)):
                if isinstance(t.ops[0], ast.Eq):
                    neg = not neg
                t = t.left
            if not is_state_expr(an, fn, t, x):
                continue
            if not neg and exits(g.body):
                out.append((fn, g, "nonempty-return"))
            elif not neg and g.orelse:
                out.append((fn, g, "populate-in-else"))
            elif neg:
                out.append((fn, g, "empty-populate"))
    return out


def keyed_acts(an, x):
    """[(Fn, node, text)] operations on the state x that raise when their key is absent."""
    out = []
    for fn in an.fns.values():
        for n in fn.own:
            if isinstance(n, ast.Subscript) and isinstance(n.ctx, (ast.Load, ast.Del)) and not isinstance(n.slice, ast.Slice) and is_state_expr(an, fn, n.value, x):
                out.append((fn, n, ast.unparse(n)))
            elif isinstance(n, ast.Call) and isinstance(n.func, ast.Attribute) and is_state_expr(an, fn, n.func.value, x):
                if n.func.attr == "move_to_end" or (n.func.attr == "pop" and len(n.args) == 1 and not n.keywords) or n.func.attr in ("remove", "index"):
                    out.append((fn, n, ast.unparse(n)[:60]))
    out.sort(key=lambda t: (t[0].rel, t[1].lineno, t[1].col_offset))
    return out


def suppressed(imports, w):
    """Exception class expressions E1.. of `with contextlib.suppress(E1, ...):` (one with-item, no `as`, the name resolved through the
    module's imports, plain names / dotted names as arguments), else None.  Such a statement IS `try: body  except (E1, ...): pass`."""
    if not isinstance(w, ast.With) or len(w.items) != 1 or w.items[0].optional_vars is not None:
        return None
    e = w.items[0].context_expr
    if not (isinstance(e, ast.Call) and not e.keywords and e.args and all(isinstance(a, (ast.Name, ast.Attribute)) and dotted(a) for a in e.args)):
        return None
    d = dotted(e.func) or ""
    head, _, rest = d.partition(".")
    if head not in imports:
        return None
    if (imports[head] + ("." + rest if rest else "")) != "contextlib.suppress":
        return None
    return list(e.args)


def suppress_as_try(imports, w):
    """The `try` statement that `with contextlib.suppress(...)` stands for (same body nodes), or None."""
    excs = suppressed(imports, w)
    if excs is None:
        return None
    typ = excs[0] if len(excs) == 1 else ast.Tuple(elts=list(excs), ctx=ast.Load())
    h = ast.ExceptHandler(type=typ, name=None, body=[ast.Pass()])
    t = ast.Try(body=w.body, handlers=[h], orelse=[], finalbody=[])
    ast.copy_location(t, w)
    for x in (h, h.body[0], typ):
        ast.copy_location(x, w)
    return t


def tolerant_or_locked(fn, node):
    """Inside `try` with a handler for KeyError (or wider) -- also spelt `with contextlib.suppress(KeyError)` --, or inside `with <...lock...>`."""
    pm = parents_of(fn)
    n, child = pm.get(id(node)), node
    while n is not None and n is not fn.node:
        if isinstance(n, ast.Try) and any(child is s or any(child is y for y in ast.walk(s)) for s in n.body):
            for h in n.handlers:
                names = [] if h.type is None else [dotted(t) for t in (h.type.elts if isinstance(h.type, ast.Tuple) else [h.type])]
                if h.type is None or set(names) & {"KeyError", "LookupError", "Exception", "BaseException"}:
                    return True
        if isinstance(n, (ast.With, ast.AsyncWith)) and any(is_lock_expr(fn, it.context_expr) for it in n.items):
            return True
        if isinstance(n, ast.With) and _AN[0] is not None and any(child is s for s in n.body):
            excs = suppressed(_AN[0].imports.get(fn.rel, {}), n)
            if excs and {dotted(t) for t in excs} & {"KeyError", "LookupError", "Exception", "BaseException"}:
                return True
        child, n = n, pm.get(id(n))
    return False


LOCK_FACTORIES = {"threading.Lock", "threading.RLock", "Lock", "RLock", "threading.Semaphore", "threading.BoundedSemaphore", "threading.Condition",
                  "multiprocessing.Lock", "multiprocessing.RLock"}
_AN = [None]          # the analysis in use (lets locked() resolve a with-item to a module-level lock object)


def is_lock_expr(fn, e):
    """A with-item that is a lock: a module- / class-level name bound to threading.Lock() / RLock() ... (also through an import or
    an attribute of self), else -- unresolved -- an expression whose text says so."""
    an = _AN[0]
    if an is not None and isinstance(e, ast.Name) and e.id not in fn.locals:
        r = an.resolve_name(fn.rel, e.id)
        if r and r[0] == "state":
            v = an.state.get((r[1], r[2]))
            if isinstance(v, ast.Call) and dotted(v.func) in LOCK_FACTORIES:
                return True
    return "lock" in ast.unparse(e).lower() or "mutex" in ast.unparse(e).lower()


def locked(fn, node):
    pm = parents_of(fn)
    n = pm.get(id(node))
    while n is not None and n is not fn.node:
        if isinstance(n, (ast.With, ast.AsyncWith)) and any(is_lock_expr(fn, it.context_expr) for it in n.items):
            return True
        n = pm.get(id(n))
    return False


def touching_functions(an, x):
    """Names of the functions in which the state x or an object handed out by it occurs (schedule points for the replayer)."""
    out = set()
    labs = {"S:" + x, "V:" + x}
    for fn in an.fns.values():
        if labs & set(fn.ret) or any(labs & set(v) for v in fn.env.values()) or any(p[0] == x for ps in fn.pubs.values() for p in ps):
            out.add(fn.node.name)
            continue
        for n in fn.own:
            if isinstance(n, ast.Name) and isinstance(n.ctx, ast.Load) and n.id not in fn.locals:
                r = an.resolve_name(fn.rel, n.id)
                if r and r[0] == "state" and an.sid(r[1], r[2]) == x:
                    out.add(fn.node.name)
                    break
    return sorted(out)


# ------------------------------------------------------- interprocedural helpers (round 3) --
def callers(an):
    """callee key -> [(caller Fn, call node)] over the whole package (resolved calls only; `with f():` and decorators count)."""
    cm = getattr(an, "_callers", None)
    if cm is None:
        cm = {}
        for fn in an.fns.values():
            for n in fn.own:
                if isinstance(n, ast.Call):
                    k = an.resolve_call(fn, n)
                    if k is not None and k != fn.key():
                        cm.setdefault(k, []).append((fn, n))
        an._callers = cm
    return cm


def referenced_elsewhere(an, fn):
    """Is the function used as a value (callback, table entry, re-export) somewhere in the package, i.e. may it have callers the
    call graph does not show?"""
    name = fn.node.name
    for g in an.fns.values():
        for n in g.own:
            if isinstance(n, ast.Name) and n.id == name and isinstance(n.ctx, ast.Load) and g.key() != fn.key():
                r = an.resolve_name(g.rel, name)
                if r and r[0] == "fn" and r[1] == fn.key():
                    # a plain call is in the call graph already
                    pm = getattr(g, "_pm", None) or parents_of(g)
                    g._pm = pm
                    p = pm.get(id(n))
                    if not (isinstance(p, ast.Call) and p.func is n):
                        return True
    return False


def guard_chains(an, fn, node, x, depth=0):
    """Where is the write at `node` (in `fn`) guarded by a miss of the state's own lookup?  -> [(root Fn, guarded?, chain)] with
    chain = [(caller Fn, call node), ...] from the innermost caller outwards.  A helper that stores into the cache is "after a
    miss" if every call site is (recursively, three levels)."""
    if miss_guard(an, fn, node, x) is not None:
        return [(fn, True, [])]
    cs = callers(an).get(fn.key(), [])
    if not cs or depth >= 3 or referenced_elsewhere(an, fn):
        return [(fn, False, [])]
    out = []
    for (g, call) in cs:
        for (root, ok, ch) in guard_chains(an, g, call, x, depth + 1):
            out.append((root, ok, [(g, call)] + ch))
    return out


def arg_of(an, caller, call, callee, param):
    """The argument expression bound to `param` of `callee` at `call` (None: default / not passed)."""
    c2, bound = an.call_binding(caller, call)
    if c2 is None or c2.key() != callee.key():
        return None
    for (p, a) in bound:
        if p == param:
            return a
    return None


def lift_deps(an, fn, d, chain):
    """Dependencies `d` (parameters of `fn` and module state) expressed in terms of the root of `chain`: a parameter becomes
    whatever its argument depends on at the call site; a constant argument (imported module, literal) contributes nothing."""
    cur, cur_d = fn, set(d)
    for (g, call) in chain:
        nxt = set()
        for p in cur_d:
            if p.startswith("state:"):
                nxt.add(p)
                continue
            a = arg_of(an, g, call, cur, p)
            if a is not None:
                nxt |= deps(an, g, a)
        cur, cur_d = g, nxt
    return cur_d


def lift_expr_text(an, fn, expr, chain):
    """Source text of `expr` with the parameters of `fn` replaced by the argument expressions along `chain` (for comparing a
    helper's store key with the root's lookup key)."""
    cur, e = fn, expr
    for (g, call) in chain:
        class Sub(ast.NodeTransformer):
            def visit_Name(self, n):
                if n.id in cur.all_params and single_rebinding_free(cur, n.id):
                    a = arg_of(an, g, call, cur, n.id)
                    if a is not None:
                        return a
                return n
        import copy
        e = Sub().visit(copy.deepcopy(e))
        cur = g
    return ast.unparse(e)


def dict_sources(an, fn, expr, chain=(), depth=0):
    """What a dict-valued expression holds, as keyed (key expr, value expr) pairs: -> [(site Fn, key, value, chain, how)] or None
    when the shape is not recognised.  Understands dict displays, dict comprehensions, local staging dicts (`d[k] = v` stores),
    `dict(<local or display>)` copies and package helpers returning one of those (`chain` records the call sites for lifting)."""
    if depth > 4 or expr is None:
        return None
    if isinstance(expr, ast.Dict):
        if any(k is None for k in expr.keys):
            return None
        return [(fn, k, v, tuple(chain), f"line {expr.lineno}: dict display") for k, v in zip(expr.keys, expr.values)]
    if isinstance(expr, ast.DictComp):
        return [(fn, expr.key, expr.value, tuple(chain), f"line {expr.lineno}: dict comprehension")]
    if isinstance(expr, ast.Name) and expr.id in fn.locals and expr.id not in fn.all_params:
        out, seen = [], False
        for n in fn.own:
            if isinstance(n, (ast.Assign, ast.AnnAssign)) and getattr(n, "value", None) is not None:
                tgts = n.targets if isinstance(n, ast.Assign) else [n.target]
                for t in tgts:
                    if isinstance(t, ast.Name) and t.id == expr.id:
                        seen = True
                        if isinstance(n.value, ast.Dict) and not n.value.keys:
                            continue                                  # d = {}
                        if isinstance(n.value, ast.Call) and dotted(n.value.func) in ("dict", "OrderedDict", "collections.OrderedDict") and not n.value.args and not n.value.keywords:
                            continue                                  # d = dict()
                        sub = dict_sources(an, fn, n.value, chain, depth + 1)
                        if sub is None:
                            return None
                        out += sub
                    elif isinstance(t, ast.Subscript) and isinstance(t.value, ast.Name) and t.value.id == expr.id and not isinstance(t.slice, ast.Slice):
                        out.append((fn, t.slice, n.value, tuple(chain), f"line {n.lineno}: {ast.unparse(t)} staged"))
            elif isinstance(n, ast.Call) and isinstance(n.func, ast.Attribute) and isinstance(n.func.value, ast.Name) and n.func.value.id == expr.id:
                if n.func.attr == "setdefault" and len(n.args) == 2:
                    out.append((fn, n.args[0], n.args[1], tuple(chain), f"line {n.lineno}: setdefault staged"))
                elif n.func.attr == "update" and len(n.args) == 1:
                    sub = dict_sources(an, fn, n.args[0], chain, depth + 1)
                    if sub is None:
                        return None
                    out += sub
                elif n.func.attr in DEF_MUTATORS and n.func.attr not in REMOVALS:
                    return None
        return out if seen else None
    if isinstance(expr, ast.Call):
        d = dotted(expr.func)
        if d in ("dict", "OrderedDict", "collections.OrderedDict") and len(expr.args) == 1 and not expr.keywords:
            return dict_sources(an, fn, expr.args[0], chain, depth + 1)
        callee, _bound = an.call_binding(fn, expr)
        if callee is not None and not callee.cached:
            rets = [n.value for n in callee.own if isinstance(n, ast.Return)]
            if not rets or any(r is None for r in rets) or any(isinstance(n, (ast.Yield, ast.YieldFrom)) for n in callee.own if not _in_genexp(callee, n)):
                return None
            out = []
            for r in rets:
                sub = dict_sources(an, callee, r, ((fn, expr),) + tuple(chain), depth + 1)
                if sub is None:
                    return None
                out += sub
            return out
    return None


def _in_genexp(fn, node):
    return False


def value_origins(an, fn, expr, depth=0, chain_up=True):
    """Where the value of `expr` comes from, for "what does this patch install?": a set of
       ('fn', name) module-level function / ('nested', name) closure defined in an enclosing function / ('foreign', dotted) an
       attribute of another library / ('unknown', text).  Follows single assignments, dict displays iterated with .items() /
       .values(), tuple targets of for-loops, and parameters to the arguments at every call site."""
    if depth > 6 or expr is None:
        return {("unknown", "depth")}
    if isinstance(expr, ast.Name):
        name = expr.id
        g = fn
        while g is not None:                                  # nested function objects
            if (g.rel, f"{g.q}.<locals>.{name}") in an.fns:
                return {("nested", f"{g.q}.<locals>.{name}")}
            g = an.fns.get(g.parent) if g.parent else None
        if name in fn.all_params and single_rebinding_free(fn, name):
            cs = callers(an).get(fn.key(), [])
            if not cs or not chain_up:
                return {("unknown", f"parameter {name}")}
            out = set()
            for (c, call) in cs:
                a = arg_of(an, c, call, fn, name)
                out |= value_origins(an, c, a, depth + 1) if a is not None else {("unknown", f"default of {name}")}
            return out
        if name in fn.locals:
            v = single_assignment(fn, name)
            if v is not None:
                return value_origins(an, fn, v, depth + 1)
            # loop target: for k, v in D.items() / for v in D.values() / for v in (a, b)
            for n in fn.own:
                if isinstance(n, (ast.For, ast.comprehension)):
                    tg = n.target
                    elts = tg.elts if isinstance(tg, (ast.Tuple, ast.List)) else [tg]
                    idx = next((i for i, e in enumerate(elts) if isinstance(e, ast.Name) and e.id == name), None)
                    if idx is None:
                        continue
                    it = n.iter
                    if isinstance(it, ast.Call) and isinstance(it.func, ast.Attribute) and it.func.attr in ("items", "values") and not it.args:
                        src = dict_sources(an, fn, it.func.value) if not (isinstance(it.func.value, ast.Name) and it.func.value.id in fn.all_params) else None
                        if src is None and isinstance(it.func.value, ast.Name) and it.func.value.id in fn.all_params:
                            # the dict is a parameter: look at what the callers pass
                            out = set()
                            for (c, call) in callers(an).get(fn.key(), []):
                                a = arg_of(an, c, call, fn, it.func.value.id)
                                s2 = dict_sources(an, c, a) if a is not None else None
                                if s2 is None:
                                    return {("unknown", f"dict passed as {it.func.value.id}")}
                                for (sf, k, v, _ch, _how) in s2:
                                    out |= value_origins(an, sf, k if (it.func.attr == "items" and idx == 0 and len(elts) == 2) else v, depth + 1)
                            return out or {("unknown", f"{name}: no caller")}
                        if src is not None:
                            out = set()
                            for (sf, k, v, _ch, _how) in src:
                                out |= value_origins(an, sf, k if (it.func.attr == "items" and idx == 0 and len(elts) == 2) else v, depth + 1)
                            return out
                    if isinstance(it, (ast.Tuple, ast.List)):
                        out = set()
                        for e in it.elts:
                            if isinstance(e, (ast.Tuple, ast.List)) and len(elts) > 1 and idx < len(e.elts):
                                out |= value_origins(an, fn, e.elts[idx], depth + 1)
                            elif len(elts) == 1:
                                out |= value_origins(an, fn, e, depth + 1)
                            else:
                                return {("unknown", name)}
                        return out
            return {("unknown", name)}
        r = an.resolve_name(fn.rel, name)
        if r and r[0] == "fn":
            return {("fn", r[1][1])}
        if r and r[0] == "class":
            return {("class", r[2])}
        org = an.imports[fn.rel].get(name)
        if org and not org.startswith("sharepoint2text"):
            return {("foreign", org)}
        return {("unknown", name)}
    if isinstance(expr, ast.Attribute):
        base = value_origins(an, fn, expr.value, depth + 1)
        if all(k == "foreign" for (k, _v) in base):
            return {("foreign", f"{v}.{expr.attr}") for (_k, v) in base}
        return {("unknown", ast.unparse(expr)[:40])}
    if isinstance(expr, ast.IfExp):
        return value_origins(an, fn, expr.body, depth + 1) | value_origins(an, fn, expr.orelse, depth + 1)
    if isinstance(expr, ast.Constant):
        return {("const", repr(expr.value)[:20])}
    if isinstance(expr, ast.Lambda):
        return {("unknown", "lambda")}
    return {("unknown", ast.unparse(expr)[:40])}


def top_chains(an, fn, stop=(), depth=0, seen=()):
    """Call chains from `fn` up to functions nobody in the package calls (or that are in `stop`): [[Fn, ..., top Fn]]."""
    if fn.key() in stop or depth >= 6 or fn.key() in seen:
        return [[fn]]
    cs = callers(an).get(fn.key(), [])
    if not cs:
        return [[fn]]
    out = []
    for (g, _call) in cs:
        for ch in top_chains(an, g, stop, depth + 1, seen + (fn.key(),)):
            out.append([fn] + ch)
    return out


def site_locked(an, fn, node, stop=(), depth=0):
    """The statement runs under a lock: in its own function, or at every call site of that function (up to a root in `stop`)."""
    if locked(fn, node):
        return True
    if fn.key() in stop or depth >= 4:
        return False
    cs = callers(an).get(fn.key(), [])
    return bool(cs) and all(site_locked(an, g, call, stop, depth + 1) for (g, call) in cs)


def is_generator(fn):
    return any(isinstance(n, (ast.Yield, ast.YieldFrom)) for n in fn.own)


def is_context_manager(fn):
    return any("contextmanager" in ast.unparse(d) for d in fn.node.decorator_list)


def root_name(n):
    while isinstance(n, (ast.Attribute, ast.Subscript)):
        n = n.value
    return n.id if isinstance(n, ast.Name) else None


def receiver_of(node, pred):
    """The expression denoting the object that the statement / call `node` mutates (the one satisfying `pred`), or None."""
    cands = []
    if isinstance(node, ast.Call):
        d = dotted(node.func)
        if d in ("setattr", "delattr") and node.args:
            cands.append(node.args[0])
        if isinstance(node.func, ast.Attribute):
            cands.append(node.func.value)
        cands += list(node.args) + [k.value for k in node.keywords]
    elif isinstance(node, (ast.Assign, ast.AugAssign, ast.AnnAssign, ast.Delete)):
        tgts = node.targets if isinstance(node, (ast.Assign, ast.Delete)) else [node.target]
        for t in tgts:
            for e in (t.elts if isinstance(t, (ast.Tuple, ast.List)) else [t]):
                if isinstance(e, (ast.Attribute, ast.Subscript)):
                    cands.append(e.value)
                else:
                    cands.append(e)
    for c in cands:
        try:
            if pred(c):
                return c
        except Exception:  # noqa
            continue
    return None


def origin_roots(an, fn, recv, depth=0):
    """The functions on whose behalf `recv` (an expression of `fn` denoting a shared object) is touched: where the object is
    *named* rather than received -- climbs to the callers as long as the object arrives through a parameter."""
    labs = an.L(fn, recv, recv)
    params = sorted({l[2:] for l in labs if l.startswith("P:")})
    cs = callers(an).get(fn.key(), [])
    if not params or not cs or depth >= 4:
        return [fn]
    out = []
    for (g, call) in cs:
        for p in params:
            a = arg_of(an, g, call, fn, p)
            if a is not None:
                out += origin_roots(an, g, a, depth + 1)
    uniq = {}
    for r in out:
        uniq[r.key()] = r
    return list(uniq.values()) or [fn]


def resolve_alias_text(fn, text):
    """`text` with a local that is bound exactly once replaced by what it is bound to (so `k = (a, b); C[k]` and `C[(a, b)]` agree)."""
    try:
        e = ast.parse(text, mode="eval").body
    except SyntaxError:
        return text
    for _ in range(3):
        if isinstance(e, ast.Name) and e.id in fn.locals and e.id not in fn.all_params:
            v = single_assignment(fn, e.id)
            if v is None:
                break
            e = v
        else:
            break
    return ast.unparse(e)


def _stmt_of(fn, node):
    pm = getattr(fn, "_pm", None) or parents_of(fn)
    fn._pm = pm
    s = node
    while s is not None and not isinstance(s, ast.stmt):
        s = pm.get(id(s))
    return s


def _dominates_in_block(fn, first, later):
    """`first` (a statement) is an earlier sibling of the statement containing `later`, or of one of its ancestors."""
    pm = getattr(fn, "_pm", None) or parents_of(fn)
    fn._pm = pm
    parent = pm.get(id(first))
    s = _stmt_of(fn, later)
    while s is not None and s is not fn.node:
        if pm.get(id(s)) is parent:
            for fld in ("body", "orelse", "finalbody"):
                lst = getattr(parent, fld, None)
                if isinstance(lst, list) and any(t is first for t in lst) and any(t is s for t in lst):
                    return [i for i, t in enumerate(lst) if t is first][0] < [i for i, t in enumerate(lst) if t is s][0]
            return False
        s = pm.get(id(s))
        while s is not None and not isinstance(s, ast.stmt):
            s = pm.get(id(s))
    return False


def must_carry(an, fn, expr, at, x, depth=0):
    """Does `expr`, evaluated at `at`, CERTAINLY denote the state object x ('S') or an object it holds / has handed out ('V')?
    Only flows that hold on every path count: the single reaching definition of a local, selections on the state object, results
    of package functions all of whose (non-None) returns do, and a local that an earlier statement of the same block stored
    into the state.  None: not certain (the may-analysis may still say so)."""
    if depth > 6 or expr is None:
        return None
    if isinstance(expr, ast.Name):
        name = expr.id
        if name not in fn.locals:
            r = an.resolve_name(fn.rel, name)
            return "S" if (r and r[0] == "state" and an.sid(r[1], r[2]) == x) else None
        for (sx, store) in fn.pubs.get(name, ()):
            st_stmt = _stmt_of(fn, store)
            if sx == x and st_stmt is not None and _dominates_in_block(fn, st_stmt, at):
                a, b = reaching_def(fn, name, at), reaching_def(fn, name, st_stmt)
                if (a is None and b is None and not any(_binds(t, name) for t in _between(fn, st_stmt, at))) or (a is not None and b is not None and a[1] is b[1]):
                    return "V"
        rd = reaching_def(fn, name, at)
        if rd is None:
            return None
        val, stmt = rd
        if isinstance(val, tuple):
            b = must_carry(an, fn, val[2], stmt, x, depth + 1)
            return "V" if b else None
        return must_carry(an, fn, val, stmt, x, depth + 1)
    if isinstance(expr, ast.Attribute) or (isinstance(expr, ast.Subscript) and not isinstance(expr.slice, ast.Slice)):
        b = must_carry(an, fn, expr.value, at, x, depth + 1)
        return "V" if b else None
    if isinstance(expr, ast.NamedExpr):
        return must_carry(an, fn, expr.value, at, x, depth + 1)
    if isinstance(expr, ast.IfExp):
        a, b = must_carry(an, fn, expr.body, at, x, depth + 1), must_carry(an, fn, expr.orelse, at, x, depth + 1)
        return a if a and a == b else None
    if isinstance(expr, ast.Call):
        f = expr.func
        if dotted(f) == "getattr" and expr.args:
            return "V" if must_carry(an, fn, expr.args[0], at, x, depth + 1) else None
        if isinstance(f, ast.Attribute) and f.attr in SELECTORS:
            callee, _b = an.call_binding(fn, expr)
            if callee is None:
                return "V" if must_carry(an, fn, f.value, at, x, depth + 1) else None
        callee, _b = an.call_binding(fn, expr)
        if callee is not None:
            rets = [n for n in callee.own if isinstance(n, ast.Return) and n.value is not None and not (isinstance(n.value, ast.Constant) and n.value.value is None)]
            kinds = {must_carry(an, callee, r.value, r, x, depth + 1) for r in rets}
            if rets and len(kinds) == 1 and None not in kinds:
                return kinds.pop()
    return None


def _between(fn, first, later):
    pm = getattr(fn, "_pm", None) or parents_of(fn)
    parent = pm.get(id(first))
    s = _stmt_of(fn, later)
    while s is not None and pm.get(id(s)) is not parent:
        s = pm.get(id(s))
    for fld in ("body", "orelse", "finalbody"):
        lst = getattr(parent, fld, None)
        if isinstance(lst, list) and any(t is first for t in lst) and s is not None and any(t is s for t in lst):
            i, j = [k for k, t in enumerate(lst) if t is first][0], [k for k, t in enumerate(lst) if t is s][0]
            return lst[i + 1:j]
    return []


def certain_mutation(an, e):
    """A vmut / write event whose mutation form is definite AND whose receiver certainly is the published / state object."""
    if not e["definite"]:
        return False
    fn = an.fns[e["fn"]]
    lab = ("V:" if e["kind"] == "vmut" else "S:") + e["state"]
    recv = receiver_of(e["node"], lambda t: lab in an.L(fn, t, e["node"]))
    if recv is None:
        return False
    # passed to a function that mutates its parameter: certain only if the callee's own mutation is a definite form
    return must_carry(an, fn, recv, e["node"], e["state"]) is not None


def callee_closure(an, key, limit=400):
    """Keys of the package functions reachable from `key` through resolved calls (transitively)."""
    cache = getattr(an, "_closure", None)
    if cache is None:
        cache = an._closure = {}
        an._callees = {}
        for fn in an.fns.values():
            out = set()
            for n in fn.own:
                if isinstance(n, ast.Call):
                    k = an.resolve_call(fn, n)
                    if k is not None:
                        out.add(k)
            # nested functions run as part of their parent
            for k2, g in an.fns.items():
                if g.parent == fn.key():
                    out.add(k2)
            an._callees[fn.key()] = out
    if key in cache:
        return cache[key]
    seen, stack = set(), [key]
    while stack and len(seen) < limit:
        k = stack.pop()
        for c in an._callees.get(k, ()):
            if c not in seen:
                seen.add(c)
                stack.append(c)
    cache[key] = seen
    return seen
