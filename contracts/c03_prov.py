"""Order provenance on the AST of the real source (used by the construction-site obligations of C03).

`provenance(ctx, expr)` answers: from which source sequence does the sequence-valued expression `expr` draw its
elements, is the order kept, and is it one element per source element ("map") or at most one ("filter")?  It follows the
DATA FLOW, not the spelling: local aliases with a single definition, lists built by `append` in one loop, list / generator
comprehensions (comprehension == loop), list()/tuple()/iter()/enumerate()/zip() wrappers, slices without a step,
conditional expressions, and calls of helpers of the same module / methods of the same class (their `return` values,
with parameters replaced by the caller's arguments).  sorted / reversed / set / .sort() / .reverse() / insert make the
result `reordered` (a definite verdict); anything else that is not understood gives None (-> the obligation is `unknown`
and the native replayer decides).
"""
from __future__ import annotations

import ast
from dataclasses import dataclass
from typing import Optional

from pyvc.flow import dotted

REORDER_CALLS = {"sorted", "reversed", "set", "frozenset", "shuffle", "sample"}
WRAPPERS = {"list", "tuple", "iter", "enumerate", "zip"}
MUT_REORDER = {"sort", "reverse", "insert"}
MUT_OTHER = {"extend", "pop", "remove", "clear", "__setitem__"}


@dataclass
class Prov:
    root: str                 # unparsed source expression (in the function where it is evaluated)
    kind: str = "map"         # "map": exactly one element per source element; "filter": at most one
    reordered: bool = False
    why: str = ""
    loop: Optional[ast.AST] = None      # the loop / comprehension that produced the elements (innermost producer)
    fn: Optional[ast.AST] = None        # function containing `loop`
    elem: Optional[ast.AST] = None      # expression appended / comprehension element
    index: Optional[str] = None         # name bound to the enumerate index in `loop`, with `start`
    start: Optional[int] = None
    lst: Optional[str] = None           # name of the list the loop appends to (when built by append)

    def weaker(self, kind):
        return "filter" if "filter" in (self.kind, kind) else "map"


@dataclass
class Ctx:
    mod: object               # loader.Module
    fn: ast.AST               # function in which expressions are evaluated
    qual: str                 # its qualname
    env: Optional[dict] = None          # parameter name -> (Ctx of the caller, argument expression)
    depth: int = 0


def _defs(fn, name):
    """Assignments `name = value` (plain / annotated) inside fn (nested functions excluded), plus a flag for other writes."""
    out, other = [], False
    for n in _walk_fn(fn):
        if isinstance(n, ast.Assign):
            for t in n.targets:
                if isinstance(t, ast.Name) and t.id == name:
                    out.append(n)
                elif any(isinstance(x, ast.Name) and x.id == name and isinstance(x.ctx, ast.Store) for x in ast.walk(t)):
                    other = True
        elif isinstance(n, ast.AnnAssign) and isinstance(n.target, ast.Name) and n.target.id == name and n.value is not None:
            out.append(n)
        elif isinstance(n, ast.AugAssign) and isinstance(n.target, ast.Name) and n.target.id == name:
            if not (isinstance(n.op, ast.Add) and isinstance(n.value, ast.List) and len(n.value.elts) == 1):
                other = True          # `xs += [e]` is an append (handled with the appends), anything else is not understood
        elif isinstance(n, (ast.For, ast.comprehension)) and any(isinstance(x, ast.Name) and x.id == name for x in ast.walk(n.target)):
            other = True
        elif isinstance(n, ast.NamedExpr) and n.target.id == name:
            out.append(n)
        elif isinstance(n, ast.With):
            for it in n.items:
                if it.optional_vars is not None and any(isinstance(x, ast.Name) and x.id == name for x in ast.walk(it.optional_vars)):
                    other = True
    return out, other


def _walk_fn(fn):
    """nodes of fn without the bodies of nested functions / lambdas"""
    stack = list(ast.iter_child_nodes(fn))
    while stack:
        n = stack.pop()
        yield n
        if isinstance(n, (ast.FunctionDef, ast.AsyncFunctionDef, ast.Lambda, ast.ClassDef)):
            continue
        stack.extend(ast.iter_child_nodes(n))


def _params(fn):
    a = fn.args
    return [p.arg for p in a.posonlyargs + a.args + a.kwonlyargs]


def _enum_info(loop_iter, target):
    """(sequence expression, index name, start) for `enumerate(seq, start)` with a tuple target, else (iter, None, None)."""
    if isinstance(loop_iter, ast.Call) and dotted(loop_iter.func) == "enumerate" and loop_iter.args:
        start = 0
        sv = None
        for k in loop_iter.keywords:
            if k.arg == "start":
                sv = k.value
        if len(loop_iter.args) > 1:
            sv = loop_iter.args[1]
        if sv is not None:
            start = sv.value if isinstance(sv, ast.Constant) and isinstance(sv.value, int) else None
        idx = target.elts[0].id if isinstance(target, ast.Tuple) and target.elts and isinstance(target.elts[0], ast.Name) else None
        return loop_iter.args[0], idx, start
    return loop_iter, None, None


def provenance(ctx: Ctx, expr) -> Optional[Prov]:
    from contracts.c03_flow import iteration_paths
    if ctx.depth > 8 or expr is None:
        return None
    fn, mod = ctx.fn, ctx.mod
    nxt = lambda e, **kw: provenance(Ctx(mod, fn, ctx.qual, ctx.env, ctx.depth + 1), e, **kw)
    # ---- names ---------------------------------------------------------------------------------------------------
    if isinstance(expr, ast.Name):
        name = expr.id
        if name in _params(fn):
            if ctx.env and name in ctx.env:
                cctx, arg = ctx.env[name]
                return provenance(Ctx(cctx.mod, cctx.fn, cctx.qual, cctx.env, ctx.depth + 1), arg)
            return Prov(f"<parameter {name} of {ctx.qual}>")
        defs, other = _defs(fn, name)
        if other or not defs:
            return None
        muts = [n for n in _walk_fn(fn) if isinstance(n, ast.Call) and isinstance(n.func, ast.Attribute) and isinstance(n.func.value, ast.Name)
                and n.func.value.id == name and n.func.attr in (MUT_REORDER | MUT_OTHER | {"append"})]
        if any(m_.func.attr in MUT_REORDER for m_ in muts):
            return Prov(name, reordered=True, why=f"{name}.{[m_.func.attr for m_ in muts if m_.func.attr in MUT_REORDER][0]}() re-orders the list")
        stores = [n for n in _walk_fn(fn) if isinstance(n, ast.Subscript) and isinstance(n.ctx, (ast.Store, ast.Del)) and isinstance(n.value, ast.Name)
                  and n.value.id == name and isinstance(n.slice, ast.Slice)]
        if stores or any(m_.func.attr in MUT_OTHER for m_ in muts):
            return None
        empties = [d for d in defs if isinstance(d.value, ast.List) and not d.value.elts or
                   (isinstance(d.value, ast.Call) and dotted(d.value.func) == "list" and not d.value.args)]
        appends = [m_ for m_ in muts if m_.func.attr == "append"]
        appends += [n for n in _walk_fn(fn) if isinstance(n, ast.AugAssign) and isinstance(n.target, ast.Name) and n.target.id == name
                    and isinstance(n.op, ast.Add) and isinstance(n.value, ast.List) and len(n.value.elts) == 1]
        if appends:
            if len(defs) != 1 or len(empties) != 1:
                return None
            # all appends inside ONE loop (innermost loop of each append is the same), one / at most one per iteration
            loops = []
            for lp in [n for n in _walk_fn(fn) if isinstance(n, (ast.For, ast.While))]:
                inner = [x for x in ast.walk(lp) if isinstance(x, (ast.For, ast.While)) and x is not lp]
                own = [a for a in appends if any(a is x for x in ast.walk(lp)) and not any(any(a is y for y in ast.walk(i)) for i in inner)]
                if own:
                    loops.append((lp, own))
            if len(loops) != 1 or len(loops[0][1]) != len(appends) or not isinstance(loops[0][0], ast.For):
                return None
            lp = loops[0][0]
            is_app = lambda n: any(n is a for a in appends)
            paths = iteration_paths(lp.body, [is_app])
            counts = {v[0] for (v, s_) in paths if s_ in ("fall", "continue")}
            if any(s_ == "break" for (_v, s_) in paths) or not counts <= {0, 1}:
                return None
            kind = "map" if counts == {1} else "filter"
            seq, idx, start = _enum_info(lp.iter, lp.target)
            p = nxt(seq)
            if p is None:
                return None
            a0 = appends[0]
            elem = None
            if len(appends) == 1:
                elem = a0.value.elts[0] if isinstance(a0, ast.AugAssign) else (a0.args[0] if len(a0.args) == 1 else None)
            return Prov(p.root, p.weaker(kind), p.reordered, p.why, lp, fn, elem, idx, start, name)
        if len(defs) != 1:
            return None
        return nxt(defs[0].value)
    # ---- comprehensions ------------------------------------------------------------------------------------------
    if isinstance(expr, (ast.ListComp, ast.GeneratorExp)):
        if len(expr.generators) != 1:
            return None
        g = expr.generators[0]
        seq, idx, start = _enum_info(g.iter, g.target)
        p = nxt(seq)
        if p is None:
            return None
        return Prov(p.root, p.weaker("filter" if g.ifs else "map"), p.reordered, p.why, expr, fn, expr.elt, idx, start)
    if isinstance(expr, ast.List) and not expr.elts:
        return Prov("<empty>")
    # ---- calls ---------------------------------------------------------------------------------------------------
    if isinstance(expr, ast.Call):
        d = dotted(expr.func)
        last = d.split(".")[-1] if d else (expr.func.attr if isinstance(expr.func, ast.Attribute) else "")
        if last in REORDER_CALLS and (d == last or d.split(".")[0] in ("random", "builtins")):
            return Prov(ast.unparse(expr)[:60], reordered=True, why=f"{last}(...) re-orders / de-duplicates the source")
        if d in WRAPPERS and expr.args:
            return nxt(expr.args[0])
        callee_q = None
        if d and "." not in d and d in mod.functions:
            callee_q = d
        elif d.startswith("self.") and d.count(".") == 1 and "." in ctx.qual:
            q = ctx.qual.rsplit(".", 1)[0] + "." + d.split(".")[1]
            if q in mod.functions:
                callee_q = q
        if callee_q is not None:
            callee = mod.functions[callee_q]
            ps = _params(callee)
            if ps and ps[0] == "self" and d.startswith("self."):
                ps = ps[1:]
            if any(isinstance(a, ast.Starred) for a in expr.args) or len(expr.args) > len(ps):
                return None
            env = {p_: (ctx, a) for p_, a in zip(ps, expr.args)}
            for k in expr.keywords:
                if k.arg:
                    env[k.arg] = (ctx, k.value)
            if any(isinstance(x, (ast.Yield, ast.YieldFrom)) for x in _walk_fn(callee)):
                return None
            provs = []
            for r in [n for n in _walk_fn(callee) if isinstance(n, ast.Return)]:
                v = r.value
                if v is None:
                    continue
                p = provenance(Ctx(mod, callee, callee_q, env, ctx.depth + 1), v)
                if p is None:
                    return None
                if p.root != "<empty>":
                    provs.append(p)
            if not provs:
                return Prov("<empty>")
            if len({p.root for p in provs}) != 1:
                return None
            p0 = provs[0]
            kind = "map" if all(p.kind == "map" for p in provs) else "filter"
            return Prov(p0.root, kind, any(p.reordered for p in provs), next((p.why for p in provs if p.why), ""), p0.loop, p0.fn, p0.elem, p0.index, p0.start)
        if isinstance(expr.func, ast.Attribute):
            return Prov(ast.unparse(expr))          # a library call producing the source sequence (findall, iter, sheets(), finditer ...)
        return None
    if isinstance(expr, ast.Attribute):
        return Prov(ast.unparse(expr))
    if isinstance(expr, ast.Subscript) and isinstance(expr.slice, ast.Slice):
        if expr.slice.step is not None:
            return Prov(ast.unparse(expr)[:60], reordered=True, why="slice with a step")
        p = nxt(expr.value)
        return None if p is None else Prov(p.root, "filter", p.reordered, p.why, p.loop, p.fn, p.elem, p.index, p.start)
    if isinstance(expr, ast.IfExp):
        a, b = nxt(expr.body), nxt(expr.orelse)
        if a is None or b is None:
            return None
        if a.root == "<empty>":
            return Prov(b.root, "filter", b.reordered, b.why, b.loop, b.fn, b.elem, b.index, b.start)
        if b.root == "<empty>":
            return Prov(a.root, "filter", a.reordered, a.why, a.loop, a.fn, a.elem, a.index, a.start)
        return a if a.root == b.root and a.kind == b.kind else None
    if isinstance(expr, ast.BoolOp) and isinstance(expr.op, ast.Or) and len(expr.values) == 2:
        a, b = nxt(expr.values[0]), nxt(expr.values[1])
        if a is not None and b is not None and b.root == "<empty>":
            return a
        return None
    return None


def returned(ctx: Ctx):
    """Provenance of what a function returns (all `return` statements must agree; empty lists ignored)."""
    provs = []
    for r in [n for n in _walk_fn(ctx.fn) if isinstance(n, ast.Return)]:
        if r.value is None:
            continue
        p = provenance(ctx, r.value)
        if p is None:
            return None
        if p.root != "<empty>":
            provs.append(p)
    if not provs:
        return Prov("<empty>")
    if len({p.root for p in provs}) != 1:
        return None
    p0 = provs[0]
    kind = "map" if all(p.kind == "map" for p in provs) else "filter"
    return Prov(p0.root, kind, any(p.reordered for p in provs), next((p.why for p in provs if p.why), ""), p0.loop, p0.fn, p0.elem, p0.index, p0.start)


def sink_arg(fn, ctor, field):
    """the expressions passed as <ctor>(<field>=...) inside fn"""
    out = []
    for n in _walk_fn(fn):
        if isinstance(n, ast.Call) and dotted(n.func).split(".")[-1] == ctor:
            for k in n.keywords:
                if k.arg == field:
                    out.append(k.value)
    return out
