"""C07 -- routing: is_supported_file == get_extractor succeeds; extension decides.

Functions under contract: router._file_type_from_extension, _get_extractor,
is_supported_file, get_extractor; mime_types.is_supported_mime_type; read_file;
archive_extractor._is_supported_file_cached, _get_file_extractor_cached,
_should_skip_file, _process_archive_entry (+ dataflow on the three member loops);
data_types.EmailContent.iterate_supported_attachments (EXTRA `attachments_site`,
invariant shared with contracts/C16.py).
`os.path.splitext` and `mimetypes.guess_type` are uninterpreted (E, M): the
proofs hold for *every* MIME database and every splitext satisfying axioms
A1-A3 (A5 is used only by the alias lemma).  Round 7: A1-A3 are discharged on
the interpreter's own `genericpath._splitext` / `posixpath.splitext` (EXTRA
`splitext_stdlib`); `archive_extractor._get_router_functions` has a contract.  `str.lower` is uninterpreted: both
entry points are shown to depend on the path only through lower(path).
"""
import z3

from pyvc import loader, ops
from pyvc.contracts import FnContract, Raises
from pyvc.values import NONE, VBool, VExt, VStr, VTuple, VUnk, ext_sort, fresh_name
from pyvc.verify import p_str, p_opt

ROUTER = "sharepoint2text/parsing/router.py"
MIME = "sharepoint2text/parsing/mime_types.py"
S = z3.StringSort()

LOWER = z3.Function("str_lower", S, S)
E = z3.Function("splitext_ext", S, S)            # os.path.splitext(p)[1]
ROOT = z3.Function("splitext_root", S, S)
M = z3.Function("guess_type_mime", S, S)         # mimetypes.guess_type(p)[0] when not None
MNONE = z3.Function("guess_type_is_none", S, z3.BoolSort())
NOTSUP = "ExtractionFileFormatNotSupportedError"


class TableUnknown(ops.Unsupported):
    """a routing table whose module-level initialiser the engine cannot evaluate to a constant"""


_TABLES = {}


def const_table(rel, name, repo=None):
    """Python value of a module-level table: the literal when it is one, else the module-level initialiser is executed by the
    engine (computed tables: merged dicts, comprehensions, hoisted prefixes) and must evaluate to constants."""
    import ast as _ast
    m = loader.module(rel, repo)
    key = (m.repo, rel, name)
    if key in _TABLES:
        return _TABLES[key]
    if name not in m.assigns:
        raise TableUnknown(f"{rel}: no module-level binding of {name}")
    how = _mutated_dependency(m, name)
    if how:
        raise TableUnknown(f"{rel}: {how} at module level: the initialiser of {name} is not its value")
    try:
        val = _ast.literal_eval(m.assigns[name])
    except (ValueError, SyntaxError, TypeError):
        from pyvc.contracts import Registry
        from pyvc.exctypes import Universe
        from pyvc.symex import Executor as _Ex
        ex = _Ex(m, Registry(), Universe(m.repo))
        ex.sinks.append([])
        val = _unlift(ex.module_const(name), f"{rel}::{name}")
    _TABLES[key] = val
    return val


def _module_level_mutation(m, name):
    """the table is built up after its binding (loop / update / second binding at module level)"""
    import ast as _ast
    binds = 0

    def walk(stmts):
        nonlocal binds
        for st in stmts:
            if isinstance(st, (_ast.FunctionDef, _ast.AsyncFunctionDef, _ast.ClassDef)):
                continue
            for n in _ast.walk(st):
                if isinstance(n, (_ast.FunctionDef, _ast.AsyncFunctionDef, _ast.ClassDef, _ast.Lambda)):
                    continue
                if isinstance(n, _ast.Name) and n.id == name and isinstance(n.ctx, (_ast.Store, _ast.Del)):
                    binds += 1
                if isinstance(n, (_ast.Subscript, _ast.Attribute)) and isinstance(n.ctx, (_ast.Store, _ast.Del)) \
                        and isinstance(n.value, _ast.Name) and n.value.id == name:
                    return f"stored into (line {n.lineno})"
                if isinstance(n, _ast.Call) and isinstance(n.func, _ast.Attribute) and isinstance(n.func.value, _ast.Name) \
                        and n.func.value.id == name and n.func.attr in MUTATORS:
                    return f"changed by .{n.func.attr}() (line {n.lineno})"
                if isinstance(n, _ast.AugAssign) and isinstance(n.target, _ast.Name) and n.target.id == name:
                    return f"augmented (line {n.lineno})"
        return None
    r = walk(m.tree.body)
    if r:
        return r
    return f"bound {binds} times" if binds != 1 else None


def _mutated_dependency(m, name):
    """`name`, or a module-level name its initialiser is computed from (transitively), is built up by module-level statements
    after its binding (`acc = set(); for k in T: acc.add(...); X = frozenset(acc)`): the engine's `module_const` evaluates
    initialisers only, so what it returns for `name` is not the value of `name` -- the reader must answer `unknown`."""
    import ast as _ast
    seen, todo = set(), [name]
    while todo:
        nm = todo.pop()
        if nm in seen or nm not in m.assigns:
            continue
        seen.add(nm)
        how = _module_level_mutation(m, nm)
        if how:
            return f"{nm} is {how}"
        for n in _ast.walk(m.assigns[nm]):
            if isinstance(n, _ast.Name) and isinstance(n.ctx, _ast.Load):
                todo.append(n.id)
    return None


def _unlift(v, what):
    from pyvc.values import VDictC, VSetC, VInt, VBool
    if isinstance(v, VDictC):
        return {k: _unlift(x, what) for k, x in v.items.items()}
    if isinstance(v, VSetC):
        return set(v.items)
    if isinstance(v, VTuple):
        return tuple(_unlift(x, what) for x in v.items)
    if isinstance(v, (VStr, VInt, VBool)) and v.const() is not None:
        return v.const()
    if v is NONE:
        return None
    raise TableUnknown(f"{what} does not evaluate to a constant table")


def tables(repo=None):
    reg, ali, comp, mimes = (const_table(ROUTER, "_EXTRACTOR_REGISTRY", repo), const_table(ROUTER, "_EXTENSION_ALIASES", repo),
                             const_table(ROUTER, "_COMPOUND_EXTENSIONS", repo), const_table(MIME, "MIME_TYPE_MAPPING", repo))
    for nm, t in (("_EXTRACTOR_REGISTRY", reg), ("_EXTENSION_ALIASES", ali), ("_COMPOUND_EXTENSIONS", comp), ("MIME_TYPE_MAPPING", mimes)):
        if not isinstance(t, dict) or not all(isinstance(k, str) for k in t):
            raise TableUnknown(f"{nm} is not a dict with string keys")
    return reg, ali, comp, mimes


def splitext_axioms(p):
    """A1 empty or starts with '.', A2 no further '.', no '/', A3 suffix of p, root+ext == p."""
    e = E(p)
    return z3.And(
        z3.Or(e == z3.StringVal(""), z3.PrefixOf(z3.StringVal("."), e)),
        z3.Not(z3.Contains(z3.SubString(e, 1, z3.Length(e)), z3.StringVal("."))),
        z3.Not(z3.Contains(e, z3.StringVal("/"))),
        z3.Concat(ROOT(p), e) == p,
    )


def _s(c, name):
    """string term of a str parameter; a caller that passes something this pack has no string model for leaves the subset
    (undecided, replayed natively) instead of crashing a clause"""
    v = c.args[name]
    if not isinstance(v, VStr):
        raise ops.Unsupported(f"argument `{name}` is not a modelled str ({type(v).__name__})")
    return v.t


# ---- spec functions, written from the statement ------------------------------
def ite_chain(cases, default):
    acc = default
    for c, v in reversed(cases):
        acc = z3.If(c, v, acc)
    return acc


def ft_spec(p, repo=None):
    """(is_none, value): file type decided by the lower-cased trailing extension,
    compound archive extensions first, aliases resolved, registry membership."""
    REG, ALI, COMP, _ = tables(repo)
    comp_hit = z3.Or([z3.SuffixOf(z3.StringVal(k), p) for k in COMP])
    comp_val = ite_chain([(z3.SuffixOf(z3.StringVal(k), p), z3.StringVal(v)) for k, v in COMP.items()], z3.StringVal(""))
    e = E(p)
    x = z3.SubString(e, 1, z3.Length(e))          # extension without the dot
    xr = ite_chain([(x == z3.StringVal(a), z3.StringVal(b)) for a, b in ALI.items()], x)
    in_reg = z3.Or([xr == z3.StringVal(k) for k in REG])
    single_ok = z3.And(z3.Length(e) > 1, in_reg)
    is_none = z3.And(z3.Not(comp_hit), z3.Not(single_ok))
    val = z3.If(comp_hit, comp_val, xr)
    return is_none, val


def reg_lookup(ft, repo=None):
    REG = tables(repo)[0]
    mod = ite_chain([(ft == z3.StringVal(k), z3.StringVal(v[0])) for k, v in REG.items()], z3.StringVal(""))
    fn = ite_chain([(ft == z3.StringVal(k), z3.StringVal(v[1])) for k, v in REG.items()], z3.StringVal(""))
    return VTuple([VStr(mod), VStr(fn)])


def mime_ok(p, repo=None):
    MIMES = tables(repo)[3]
    return z3.And(z3.Not(MNONE(p)), z3.Or([M(p) == z3.StringVal(k) for k in MIMES]))


def mime_ft(p, repo=None):
    MIMES = tables(repo)[3]
    return ite_chain([(M(p) == z3.StringVal(k), z3.StringVal(v)) for k, v in MIMES.items()], z3.StringVal(""))


# ---- assumed library models -----------------------------------------------------
def m_lower(ex, st, args, kwargs, node):
    s = args[0]
    c = s.const()
    if c is not None:
        return [(st, VStr(c.lower()))]
    # idempotence (assumed model of str.lower, checked natively for every code point in six contexts: lower(lower(x)) == lower(x)):
    # a call site that lower-cases the name before it asks the router asks the same question
    st.assume(LOWER(LOWER(s.t)) == LOWER(s.t))
    return [(st, VStr(LOWER(s.t)))]


def m_splitext(ex, st, args, kwargs, node):
    p = args[0].t
    st.assume(splitext_axioms(p))
    return [(st, VTuple([VStr(ROOT(p)), VStr(E(p))]))]


def m_guess_type(ex, st, args, kwargs, node):
    p = args[0].t
    a = st.fork().assume(MNONE(p))
    b = st.assume(z3.Not(MNONE(p)))
    return [(a, VTuple([NONE, VUnk("encoding")])), (b, VTuple([VStr(M(p)), VUnk("encoding")]))]


GEXT = z3.Function("guess_extension_ext", S, S)            # mimetypes.guess_extension(t) when not None
GEXT_NONE = z3.Function("guess_extension_is_none", S, z3.BoolSort())


def m_guess_extension(ex, st, args, kwargs, node):
    """mimetypes.guess_extension(type): None or an extension with its leading dot -- uninterpreted in the type: ANY host MIME
    database (what a site derives from it is not a function of the name and of the library's own table)"""
    a = args[0] if args else None
    if not isinstance(a, VStr):
        return ex.havoc_call(st, "mimetypes.guess_extension", args, node)
    t = a.t
    n = st.fork().assume(GEXT_NONE(t))
    b = st.assume(z3.And(z3.Not(GEXT_NONE(t)), z3.PrefixOf(z3.StringVal("."), GEXT(t))))
    return [(n, NONE), (b, VStr(GEXT(t)))]


def m_import_module(ex, st, args, kwargs, node):
    """importlib.import_module: ASSUMED to succeed for registry modules (checked natively in replay)."""
    return [(st, VTuple([VStr("<module>"), args[0]]))]


def b_getattr_module(ex, st, args, kwargs, node):
    return None


def m_fspath(ex, st, args, kwargs, node):
    """os.fspath: the str itself; for a pathlib.Path the same string as str(path) (PurePath.__fspath__ returns str(self))"""
    a = args[0] if args else None
    if isinstance(a, VStr):
        return [(st, a)]
    if isinstance(a, VExt) and a.sort == "Path":
        return [(st, VStr(readfile.PSTR(a.t)))]
    return ex.havoc_call(st, "os.fspath", args, node)


def install(reg):
    readfile.install(reg)
    reg.ext_models["os.fspath"] = m_fspath
    reg.ext_models["str.lower"] = m_lower
    reg.ext_models["os.path.splitext"] = m_splitext
    reg.ext_models["mimetypes.guess_type"] = m_guess_type
    reg.ext_models["mimetypes.guess_extension"] = m_guess_extension
    reg.ext_models["importlib.import_module"] = m_import_module
    # module globals that functions assign (`global X`) are cells with an inferred value set (pyvc/exprs.py::read_global_cell):
    # a hand-written memo of the router functions is as transparent as `lru_cache(maxsize=1)`; what cannot be inferred is unknown
    reg.global_cells = True


from pyvc.symex import Executor  # noqa: E402


from contracts import readfile  # noqa: E402

OVER = z3.Bool("pyvc!overapprox")     # assumed on every over-approximated path (same marker as contracts/c04_exec.py)


def _untrusted(pc, goal):
    return any(z3.eq(x, OVER) for x in pc)


class C07Executor(readfile.ReadFileExecutor):
    """A `sat` answer on a path that went through an over-approximation -- a call or attribute without model (unknown value,
    EXC-ANY raise), a loop cut without invariant -- is not a counterexample of the real code: such VCs are marked (OVER) and
    `solve.SAT_UNTRUSTED` turns their models into `unknown`, so that only a natively replayed input is a VIOLATION.  Proofs
    are unaffected.  The extractor call itself (result deliberately unknown, recorded in the dispatch ghost) is not marked."""

    def exc_any(self, st, site, also=()):
        st.assume(OVER)
        return super().exc_any(st, site, also)

    def havoc_call(self, st, what, args, node):
        r = super().havoc_call(st, what, args, node)
        st.assume(OVER)
        return r

    def get_attr(self, st, base, attr, node):
        out = super().get_attr(st, base, attr, node)
        for (s, v) in out:
            if isinstance(v, VUnk):
                s.assume(OVER)
        return out

    def call(self, st, f, args, kwargs, node):
        dispatch = isinstance(f, VTuple) and len(f.items) == 2 and all(isinstance(x, VStr) for x in f.items)
        out = super().call(st, f, args, kwargs, node)
        if not dispatch:
            for (s, v) in out:
                if isinstance(v, VUnk):
                    s.assume(OVER)
        return out

    def module_const(self, name):
        # a module-level name built up after its binding is not its initialiser (the engine evaluates initialisers only): unknown
        if _mutated_dependency(self.module, name):
            return VUnk(f"module:{name}")
        return super().module_const(name)

    def symbolic_for(self, s, st, it):
        spec = self.loop_spec(s)
        if spec is None or spec.inv is None:
            st.assume(OVER)
        return super().symbolic_for(s, st, it)

    def s_While(self, s, st):
        spec = self.loop_spec(s)
        if spec is None or (spec.inv is None and spec.unroll is None):
            st.assume(OVER)
        return super().s_While(s, st)


EXECUTOR = C07Executor


def contracts(reg):
    install(reg)
    from pyvc import solve
    if _untrusted not in solve.SAT_UNTRUSTED:
        solve.SAT_UNTRUSTED.append(_untrusted)
    out = []

    def ft_returns(c):
        p = _s(c, "path_lower")
        is_none, val = ft_spec(p)
        return [(is_none, NONE), (z3.Not(is_none), VStr(val))]

    out.append(FnContract(
        target=f"{ROUTER}::_file_type_from_extension",
        params=[("path_lower", p_str())],
        returns=ft_returns,
        note="file type = compound suffix first, else alias-resolved splitext extension if registered, else None",
    ))

    def in_reg(t):
        return z3.Or([t == z3.StringVal(k) for k in tables()[0]])

    out.append(FnContract(
        target=f"{ROUTER}::_get_extractor",
        params=[("file_type", p_str())],
        returns=lambda c: reg_lookup(_s(c, "file_type")),
        ensures=[("only-for-registered-types", lambda c: in_reg(_s(c, "file_type")))],
        raises=[Raises(NOTSUP, when=lambda c: z3.Not(in_reg(_s(c, "file_type"))))],
    ))

    def sup_spec(c):
        p = LOWER(_s(c, "path"))
        is_none, _ = ft_spec(p)
        return VBool(z3.Or(z3.Not(is_none), mime_ok(p)))

    out.append(FnContract(
        target=f"{ROUTER}::is_supported_file",
        params=[("path", p_str())],
        returns=sup_spec,
    ))

    def ge_returns(c):
        p = LOWER(_s(c, "path"))
        is_none, val = ft_spec(p)
        return [(z3.Not(is_none), reg_lookup(val)),
                (z3.And(is_none, mime_ok(p)), reg_lookup(mime_ft(p)))]

    def ge_raises(c):
        p = LOWER(_s(c, "path"))
        is_none, _ = ft_spec(p)
        return z3.And(is_none, z3.Not(mime_ok(p)))

    out.append(FnContract(
        target=f"{ROUTER}::get_extractor",
        params=[("path", p_str())],
        returns=ge_returns,
        ensures=[("returns-only-when-supported", lambda c: z3.Not(ge_raises(c)))],
        raises=[Raises(NOTSUP, when=ge_raises)],
    ))

    # read_file dispatches through get_extractor(str(Path(path))) and calls exactly the returned extractor
    def rf_dispatch(c):
        d = c.st.ghost.get("dispatch", ())
        if len(d) != 1:
            return z3.BoolVal(False)
        ext, args = d[0]
        if len(args) != 2 or not isinstance(args[1], VStr):
            return z3.BoolVal(False)
        p = z3.Const("p!rf", readfile.PathS)
        # the second argument is str(P) for a Path P built directly from the caller's path string, and the
        # extractor is the one get_extractor's contract yields for that very string
        s_arg = args[1].t
        cands = []
        for (fexp, val) in ge_returns_for(s_arg):
            cands.append(z3.And(fexp, ops.eq_term(ext, val)))
        return z3.And(z3.Or(cands), is_pstr_of_param(c, s_arg))

    def is_pstr_of_param(c, s_arg):
        # s_arg must be syntactically PSTR(P) with PSRC(P) == path assumed on the path
        if not (z3.is_app(s_arg) and s_arg.decl().name() == "path_str"):
            return z3.BoolVal(False)
        P = s_arg.arg(0)
        return z3.And(z3.BoolVal(P.get_id() in c.st.ghost.get("paths_from_param", frozenset())), readfile.PSRC(P) == _s(c, "path"))

    def ge_returns_for(s_term):
        p = LOWER(s_term)
        is_none, val = ft_spec(p)
        return [(z3.Not(is_none), reg_lookup(val)), (z3.And(is_none, mime_ok(p)), reg_lookup(mime_ft(p)))]

    from pyvc.verify import p_int as _p_int
    out.append(FnContract(
        target=f"{readfile.INIT}::read_file",
        params=[("path", p_str()), ("max_file_size", _p_int())],
        generator=True,
        ensures=[("dispatches-to-get_extractor(str(Path(path)))-with-that-path", rf_dispatch)],
        raises=[Raises("Exception", sub=True, label="failure surface is C01's obligation")],
        note="read_file reaches exactly the extractor get_extractor selects for the caller's path",
    ))

    out.extend(archive_contracts(ge_returns_for))

    def mime_spec(c):
        MIMES = tables()[3]
        m = c.args["mime_type"]
        if m is NONE:
            return VBool(False)
        return VBool(z3.Or([m.t == z3.StringVal(k) for k in MIMES]))

    out.append(FnContract(
        target=f"{MIME}::is_supported_mime_type",
        params=[("mime_type", p_opt(p_str()))],
        returns=mime_spec,
    ))
    return out


# ---- archive members: selection and dispatch go through the router ----------------------------
ARCH = "sharepoint2text/parsing/extractors/archive_extractor.py"


def sup_term(s_term, repo=None):
    """is_supported_file(s) as specified: extension decision or MIME fallback on lower(s)."""
    p = LOWER(s_term)
    is_none, _ = ft_spec(p, repo)
    return z3.Or(z3.Not(is_none), mime_ok(p, repo))


def ge_raises_term(s_term, repo=None):
    p = LOWER(s_term)
    is_none, _ = ft_spec(p, repo)
    return z3.And(is_none, z3.Not(mime_ok(p, repo)))


def nested_exts(repo=None):
    return sorted(loader.module(ARCH, repo).literal("NESTED_ARCHIVE_EXTENSIONS"))


def skip_term(f, b, repo=None):
    """_should_skip_file(filename, basename): a member is selected exactly when the router supports its base name, apart from
    the three documented filters (hidden base name, macOS resource fork directory, nested archive)."""
    return z3.Or(z3.PrefixOf(z3.StringVal("."), b), z3.PrefixOf(z3.StringVal("__MACOSX/"), f), z3.Not(sup_term(b, repo)),
                 z3.Or([z3.SuffixOf(z3.StringVal(e), LOWER(b)) for e in nested_exts(repo)]))


def archive_contracts(ge_returns_for):
    """The lru_cache wrappers are the router's functions (PY-MEMO: a cache in front of a deterministic function is
    transparent; C15 owns cache soundness); member selection and member dispatch are stated against the router's specs."""
    out = []
    out.append(FnContract(
        target=f"{ARCH}::_is_supported_file_cached", params=[("filename", p_str())],
        returns=lambda c: VBool(sup_term(_s(c, "filename"))), raises=[],
        note="archive member support check == router.is_supported_file(name) (extension tables, then MIME fallback)"))
    out.append(FnContract(
        target=f"{ARCH}::_get_file_extractor_cached", params=[("filename", p_str())],
        returns=lambda c: ge_returns_for(_s(c, "filename")),
        ensures=[("returns-only-when-supported", lambda c: z3.Not(ge_raises_term(_s(c, "filename"))))],
        raises=[Raises(NOTSUP, when=lambda c: ge_raises_term(_s(c, "filename")))],
        note="archive member extractor == router.get_extractor(name)"))
    out.append(FnContract(
        target=f"{ARCH}::_should_skip_file", params=[("filename", p_str()), ("basename", p_str())],
        returns=lambda c: VBool(skip_term(_s(c, "filename"), _s(c, "basename"))), raises=[],
        note="member selected <=> is_supported_file(basename) and not hidden / __MACOSX / nested archive"))

    def pe_dispatch(c):
        d = c.st.ghost.get("dispatch", ())
        kws = c.st.ghost.get("dispatch_kw", ())
        if len(d) == 0:
            return z3.BoolVal(True)
        if len(d) != 1 or len(kws) != 1:
            return z3.BoolVal(False)
        ext, args = d[0]
        kw = kws[0]
        if len(args) != 1 or set(kw) != {"path"} or not isinstance(kw["path"], VStr):
            return z3.BoolVal(False)
        bn = _s(c, "basename")
        cands = [z3.And(cond, ops.eq_term(ext, val)) for (cond, val) in ge_returns_for(bn)]
        fn, ap = _s(c, "filename"), c.args["archive_path"]
        if ap is NONE:
            want = fn
        else:
            want = z3.If(z3.Length(ap.t) == 0, fn, z3.Concat(ap.t, z3.StringVal("!/"), fn))
        return z3.And(z3.Or(cands), kw["path"].t == want)

    from pyvc.verify import p_unk
    out.append(FnContract(
        target=f"{ARCH}::_process_archive_entry",
        params=[("filename", p_str()), ("file_data", p_unk()), ("archive_path", p_opt(p_str())), ("basename", p_str())],
        generator=True, raises=[],
        ensures=[("at-most-one-dispatch-to-get_extractor(basename)-with-path=archive!/member", pe_dispatch)],
        note="an archive member is handed to exactly the extractor the router gives for its base name"))
    # (round 7) the accessor behind the two wrappers under its own contract: it hands out exactly the router's two entry
    # points -- a pair made of router.is_supported_file and router.get_extractor; in a record (NamedTuple / dataclass / dict
    # holder) the component NAMED after an entry point IS that entry point (function identity = (module, qualified name) of a
    # module-level def) -- and raises nothing.  `inline=True`: the wrappers keep executing the real body in place (the wrappers' own functional contracts do
    # not rest on this one -- it is an additional, separately refutable obligation on the accessor).
    out.append(FnContract(
        target=f"{ARCH}::{ACCESSOR}", params=[], inline=True, raises=[], total=True,
        ensures=[("hands-out-exactly-the-router's-two-entry-points", accessor_post)],
        note="the archive extractor's cached router accessor hands out the router's two entry points (under their own names in a record)"))
    # The two cache wrappers are modular lemmas for their callers.  When a wrapper no longer exists under that name (renamed,
    # merged, inlined) there is nothing to prove about it: its callers (_should_skip_file, _process_archive_entry) are then
    # verified with the body of whatever they call instead (helpers without contract are executed in place).
    have = loader.module(ARCH).functions
    return [c for c in out if c.target.split("::")[1] not in OPTIONAL_WRAPPERS or c.target.split("::")[1] in have]


ACCESSOR = "_get_router_functions"
OPTIONAL_WRAPPERS = ("_is_supported_file_cached", "_get_file_extractor_cached", ACCESSOR)


def _is_router_fn(v, name):
    from pyvc.values import VFunc
    return isinstance(v, VFunc) and v.how == "repo" and v.a == ROUTER and v.b == name


def accessor_post(c):
    """result of the router accessor: by position (tuple / NamedTuple: the wrappers unpack it) and by name (NamedTuple /
    dataclass / dict holder: the wrappers read `.is_supported_file` / `.get_extractor`).  A shape that is none of these cannot
    be stated here (Unsupported -> UNKNOWN-SHAPE: undecided, never a violation by itself)."""
    from pyvc.values import VNamedTuple, VRef
    r = c.result
    want = list(ENTRY_POINTS)
    if isinstance(r, VTuple):
        # which position holds which entry point is the accessor's private convention with its callers (decided on the
        # wrappers' contracts, which execute this body in place): here, the two components are the router's two entry points
        ok = len(r.items) == 2 and any(all(_is_router_fn(v, n) for v, n in zip(r.items, order)) for order in (want, want[::-1]))
        if isinstance(r, VNamedTuple):
            named = dict(zip(r.names, r.items))
            ok = ok and all(_is_router_fn(named[n], n) for n in want if n in named)
        return z3.BoolVal(bool(ok))
    if isinstance(r, VRef):
        o = c.st.obj(r.ref)
        if o.kind in ("obj", "dict") and isinstance(o.data, dict):
            have = {k: v for k, v in o.data.items() if k in want}
            if not have:
                raise ops.Unsupported("holder object without a field named after a router entry point")
            return z3.BoolVal(len(have) == 2 and all(_is_router_fn(v, k) for k, v in have.items()))
    raise ops.Unsupported(f"result of the router accessor is not a tuple / record ({type(r).__name__})")


def absent_wrappers(repo, tier):
    """vacuity-guard bookkeeping for OPTIONAL_WRAPPERS: the locked obligations of a wrapper that no longer exists hold
    vacuously (no such function); listed so that they are visibly not 'missing'."""
    import json as _json
    import os as _os
    from pyvc.flow import ground_obligation
    have = loader.module(ARCH, repo).functions
    gone = [w for w in OPTIONAL_WRAPPERS if w not in have]
    out = []
    if gone:
        try:
            lock = _json.load(open(_os.path.join(_os.path.dirname(_os.path.dirname(_os.path.abspath(__file__))), "obligations.lock.json"))).get("C07", {})
        except (OSError, ValueError):
            lock = {}
        for w in gone:
            for oid in sorted(lock):
                if oid.startswith(f"C07/archive_extractor.py::{w}/"):
                    out.append(ground_obligation(oid, True, f"no function {w} in the tree: nothing to prove; its former callers are verified with "
                                                 "the bodies of the helpers they call", ARCH, kind="vacuous", backend="ground"))
    return {"obligations": out, "functions": []}


# inline_local: small private helpers of the same module are executed in place (survives "extract helper" refactorings)
EXECUTOR_KW = {f"{ARCH}::_process_archive_entry": {"abstract": True, "inline_calls": False, "inline_local": True}}


_LEMMAS = {}


def lemmas():
    """Spec-level lemmas over the verified contracts (built once per process and tree: every lemma job asks for the whole list)."""
    key = loader.REPO
    if key not in _LEMMAS:
        try:
            _LEMMAS[key] = _lemmas()
        except ops.Unsupported:
            _LEMMAS[key] = []        # tables not evaluable: reported as `unknown` by policy(); never a crash
    return _LEMMAS[key]


def _outcome_lemmas():
    """round-7 lemmas over the complete specified outcome (kept apart: a failure to BUILD them on a changed tree drops them --
    reported missing against the lock -- and never takes the other lemmas or the check down)"""
    out = []
    # (round 7) the same as a 2-safety statement the solver discharges: the complete specified outcome of both entry points
    # (supported?, raises?, extractor) under two ARBITRARY MIME databases (M, MNONE) / (M', MNONE') is the same whenever the
    # extension decides -- the database symbols are replaced in the specification terms, nothing is read off their syntax
    M2 = z3.Function("guess_type_mime!2", S, S)
    MNONE2 = z3.Function("guess_type_is_none!2", S, z3.BoolSort())
    q = z3.String("q!lem")
    lq = LOWER(q)
    nq, vq = ft_spec(lq)
    outcome = _outcome_terms(q)
    outcome2 = [z3.substitute_funs(t, (M, M2(z3.Var(0, S))), (MNONE, MNONE2(z3.Var(0, S)))) for t in outcome]
    out.append(("C07/router.py::spec/lemma#two-mime-databases-same-outcome-when-the-extension-decides", [splitext_axioms(lq), z3.Not(nq)],
                z3.And([a == b for a, b in zip(outcome, outcome2)])))
    # ... and the converse direction of what "MIME fallback" means: without an extension decision the outcome is the one the
    # database's answer has in the library's own table, whatever else the two databases say (same answer for this path => same outcome)
    out.append(("C07/router.py::spec/lemma#mime-fallback-depends-on-the-database-only-through-guess_type(lower(path))",
                [splitext_axioms(lq), MNONE(lq) == MNONE2(lq), z3.Implies(z3.Not(MNONE(lq)), M(lq) == M2(lq))],
                z3.And([a == b for a, b in zip(outcome, outcome2)])))
    # case-insensitivity: two spellings with the same lower-cased form have the same complete outcome at both entry points
    q2 = z3.String("q2!lem")
    out.append(("C07/router.py::spec/lemma#same-lowercased-path-same-outcome", [LOWER(q) == LOWER(q2)],
                z3.And([a == b for a, b in zip(outcome, _outcome_terms(q2))])))
    # call-site view used by other packs (contracts/C16.py::router_contracts: get_extractor as an ASSUMED "deterministic partial
    # function of the path" GE_RAISES / GE_MOD / GE_FN; `attachments_site` below: is_supported_file(p) == not GE_RAISES(p)): implied by
    # the contracts verified here -- the specified outcome is a function of the path alone (equal paths, equal outcome), exactly one
    # of "raises the not-supported error" / "returns" holds, the two return cases exclude each other, and is_supported_file is the
    # negation of the raise condition.  So GE_RAISES := raise condition, (GE_MOD, GE_FN) := specified result is a model of the view.
    cases_q = ge_returns_for_term(q)
    out.append(("C07/router.py::get_extractor/lemma#assumed-call-site-view-(deterministic-partial-function)-is-implied", [q == q2],
                z3.And(z3.And([a == b for a, b in zip(outcome, _outcome_terms(q2))]),
                       z3.Or([c for c, _ in cases_q]) == z3.Not(ge_raises_term(q)),
                       z3.Not(z3.And([c for c, _ in cases_q])),
                       sup_term(q) == z3.Not(ge_raises_term(q)))))
    return out


def _lemmas():
    REG, ALI, COMP, MIMES = tables()
    out = []
    p = z3.String("p!lem")
    is_none, val = ft_spec(p)
    sup = z3.Or(z3.Not(is_none), mime_ok(p))
    raises = z3.And(is_none, z3.Not(mime_ok(p)))
    out.append(("C07/router.py::spec/lemma#is_supported-iff-get_extractor-returns", [splitext_axioms(p)], sup == z3.Not(raises)))
    # whenever a file type is decided by extension it is a registry key (so _get_extractor cannot raise there)
    out.append(("C07/router.py::spec/lemma#extension-type-is-registered", [splitext_axioms(p), z3.Not(is_none)],
                z3.Or([val == z3.StringVal(k) for k in REG])))
    out.append(("C07/router.py::spec/lemma#mime-type-is-registered", [mime_ok(p)],
                z3.Or([mime_ft(p) == z3.StringVal(k) for k in REG])))
    # MIME independence: with an extension decision, two different MIME databases give the same extractor.
    # (ft_spec and reg_lookup(val) do not mention M/MNONE: checked syntactically here.)
    mentions = any(str(d) in ("guess_type_mime", "guess_type_is_none") for d in _decls(z3.And(is_none == is_none, val == val)))
    out.append(("C07/router.py::spec/lemma#extension-routing-independent-of-mime-database", [], z3.BoolVal(not mentions)))
    try:
        out.extend(_outcome_lemmas())
    except Exception:  # noqa
        pass
    # alias behaves exactly like its base, for every stem ending in a name character (A5 instances as hypotheses)
    s = z3.String("s!lem")
    last = z3.SubString(s, z3.Length(s) - 1, 1)
    stem_ok = z3.And(z3.Length(s) > 0, last != z3.StringVal("."), last != z3.StringVal("/"))
    for a, b in ALI.items():
        pa, pb = z3.Concat(s, z3.StringVal("." + a)), z3.Concat(s, z3.StringVal("." + b))
        hyp = [stem_ok, splitext_axioms(pa), splitext_axioms(pb), E(pa) == z3.StringVal("." + a), E(pb) == z3.StringVal("." + b)]
        na, va = ft_spec(pa)
        nb, vb = ft_spec(pb)
        goal = z3.And(z3.Not(na), z3.Not(nb), ops.eq_term(reg_lookup(va), reg_lookup(vb)))
        out.append((f"C07/router.py::spec/lemma#alias-equals-base.{a}", hyp, goal))
    # every registered extension / alias / compound routes to its registry entry (A5 instances)
    for ext in list(REG) + list(ALI):
        pe = z3.Concat(s, z3.StringVal("." + ext))
        hyp = [stem_ok, splitext_axioms(pe), E(pe) == z3.StringVal("." + ext),
               z3.Not(z3.Or([z3.SuffixOf(z3.StringVal(k), pe) for k in COMP]))]
        ne, ve = ft_spec(pe)
        target = ALI.get(ext, ext)
        out.append((f"C07/router.py::spec/lemma#extension-routes.{ext}", hyp, z3.And(z3.Not(ne), ve == z3.StringVal(target))))
    for k, v in COMP.items():
        pe = z3.Concat(s, z3.StringVal(k))
        ne, ve = ft_spec(pe)
        out.append((f"C07/router.py::spec/lemma#compound-routes{k}", [splitext_axioms(pe)], z3.And(z3.Not(ne), ve == z3.StringVal(v))))
    # archive members: a member the skip rule selects has an extractor (get_extractor(basename) cannot raise for it), and
    # selection differs from is_supported_file(basename) only by the three documented filters
    f, b = z3.String("f!lem"), z3.String("b!lem")
    out.append(("C07/archive_extractor.py::spec/lemma#selected-member-has-an-extractor", [splitext_axioms(LOWER(b))],
                z3.Implies(z3.Not(skip_term(f, b)), z3.Not(ge_raises_term(b)))))
    out.append(("C07/archive_extractor.py::spec/lemma#unsupported-member-is-never-selected", [splitext_axioms(LOWER(b))],
                z3.Implies(z3.Not(sup_term(b)), skip_term(f, b))))
    # attachments: get_extractor on the constant MIME-fallback paths "attachment.<type>" (hypothesis of the attachment site,
    # contracts/C16.py::fallback_facts), from this pack's contract with the real values of lower / splitext on the constants
    from contracts import C16
    for (oid, hyps, goal) in C16.lemmas():
        if "#mime-fallback-routes." in oid:
            out.append((oid.replace("C16/", "C07/", 1), hyps, goal))
    return out


def _outcome_terms(path, repo=None):
    """the complete specified outcome of the two entry points on `path`: [is_supported_file, get_extractor raises, module, function]"""
    (c1, v1), (c2, v2) = ge_returns_for_term(path, repo)
    rz = ge_raises_term(path, repo)
    empty = z3.StringVal("")
    mod = z3.If(rz, empty, z3.If(c1, v1.items[0].t, v2.items[0].t))
    fn = z3.If(rz, empty, z3.If(c1, v1.items[1].t, v2.items[1].t))
    return [sup_term(path, repo), rz, mod, fn]


def _decls(e):
    seen, stack, out = set(), [e], []
    while stack:
        x = stack.pop()
        if x.get_id() in seen:
            continue
        seen.add(x.get_id())
        if z3.is_app(x):
            out.append(x.decl().name())
            stack.extend(x.children())
    return out


TRUSTED = ["os.path.splitext: A5 instances (positive case: stem + '.' + ext => that extension) as hypotheses of the alias / extension-routes "
           "lemmas only; A1-A3 (+ root + ext == path) are no longer trusted: discharged on genericpath._splitext / posixpath.splitext of "
           "this host's interpreter(s) (POSIX flavour of os.path; ntpath is not verified)",
           "builtin str.rfind with a one-character needle, by its definition (s == a + c + b, c not in b, result len(a); -1 iff c not in s)",
           "mimetypes.guess_type total, deterministic",
           "importlib.import_module succeeds for registry modules"]
ASSUMED_MODELS = ["os.path.splitext (call-site view: uninterpreted with axioms A1-A3, which are DISCHARGED on the interpreter's own source: "
                  "C07/genericpath.py::_splitext/*, C07/posixpath.py::splitext/*; assumed: os.path is posixpath)",
                  "mimetypes.guess_type (uninterpreted: any MIME database)",
                  "str.lower (uninterpreted, idempotent)", "str.rfind (one-character needle, definitional)",
                  "importlib.import_module + getattr (function identity = (module, name))"]
ASSUMPTIONS = ["PY-STR: str as sequence of code points (z3 String)", "PY-EXC", "logger calls dropped (PY-LOG)",
               "PY-MEMO: functools.lru_cache in front of a deterministic function is transparent (decorators are not executed); "
               "the MIME database does not change between a member's selection and its dispatch (cache soundness: C15)",
               "extractor identity = (module, function name) resolved by importlib at call time"]


# ------------------------------------------------------------ policy / tables --
def policy(repo, tier):
    from pyvc.flow import ground_obligation
    try:
        return _policy(repo, tier)
    except (ops.Unsupported, KeyError, ValueError, TypeError, AttributeError, IndexError, SyntaxError) as e:
        # a shape of the (changed) tables / documentation this pack does not recognise: undecided, the native replayer decides.
        # Every lemma / table / site obligation depends on the tables: they are reported as one undecided group (so that the
        # vacuity guard of ./check does not call them "missing": they were not dropped, they could not be stated).
        import json as _json
        import os as _os
        groups = set()
        try:
            lock = _json.load(open(_os.path.join(_os.path.dirname(_os.path.dirname(_os.path.abspath(__file__))), "obligations.lock.json"))).get("C07", {})
            for oid in lock:
                if any(k in oid for k in ("/lemma#", "/module-invariant#", "/policy#", "/call-site#")):
                    groups.add(oid.split("/", 1)[1].rsplit("/", 1)[0])
        except (OSError, ValueError):
            pass
        why = f"routing tables not evaluable ({type(e).__name__}: {e})"[:300]
        return {"obligations": [ground_obligation("C07/router.py::tables/module-invariant#tables-evaluate-to-constants", False, why, "tables",
                                                  kind="module-invariant", backend="ground", definite=False)],
                "functions": [], "undecided": [{"obligation": "table-dependent obligations: " + " ".join(sorted(groups)), "why": why}]}


def _policy(repo, tier):
    import ast as _ast
    import re
    from pyvc.flow import ground_obligation, dotted
    from pyvc.contracts import Registry
    from pyvc.exctypes import Universe
    REG, ALI, COMP, MIMES = tables(repo)
    r = loader.module(ROUTER, repo)
    obls, fns = [], []
    G = lambda oid, ok, why="", definite=True: obls.append(ground_obligation(oid, ok, why, "tables", kind="module-invariant", backend="ground",
                                                                              definite=definite))
    bad = [f"{a}->{b}" for a, b in ALI.items() if b not in REG]
    G("C07/router.py::tables/module-invariant#alias-targets-registered", not bad and len(ALI) > 0, str(bad))
    bad = [f"{a}->{b}" for a, b in COMP.items() if b not in REG]
    G("C07/router.py::tables/module-invariant#compound-targets-registered", not bad and len(COMP) > 0, str(bad))
    bad = [f"{a}->{b}" for a, b in MIMES.items() if b not in REG]
    G("C07/mime_types.py::tables/module-invariant#mime-targets-registered", not bad and len(MIMES) > 0, str(bad))
    bad = [k for k in list(REG) + list(ALI) if not k or k != k.lower() or "." in k or "/" in k]
    G("C07/router.py::tables/module-invariant#keys-lowercase-nonempty-dotfree", not bad, str(bad))
    bad = [k for k in COMP if not k.startswith(".") or k != k.lower() or k.count(".") < 2]
    G("C07/router.py::tables/module-invariant#compound-keys-wellformed", not bad, str(bad))
    bad = [k for k in ALI if k in REG]
    G("C07/router.py::tables/module-invariant#alias-keys-disjoint-from-registry", not bad, str(bad))
    # what _get_extractor needs of a registry value: a (module path, function name) pair of strings (no naming convention)
    bad = [k for k, v in REG.items() if not (isinstance(v, tuple) and len(v) == 2 and all(isinstance(x, str) and x for x in v))]
    G("C07/router.py::tables/module-invariant#registry-values-are-(module,function)-pairs", not bad, str(bad))
    # registry targets exist with the named function (AST of the target module)
    bad = []
    rets = {}
    unsure = []
    for k, v in REG.items():
        if not (isinstance(v, tuple) and len(v) == 2 and all(isinstance(x, str) for x in v)):
            continue
        modpath, fn = v
        m = None
        for rel in (modpath.replace(".", "/") + ".py", modpath.replace(".", "/") + "/__init__.py"):
            try:
                m = loader.module(rel, repo)
                break
            except FileNotFoundError:
                continue
        if m is None:
            (bad if modpath.startswith("sharepoint2text.") else unsure).append(f"{k}: module {modpath} not in the tree")
            continue
        f = m.functions.get(fn)
        if f is not None:
            rets[k] = _ast.unparse(f.returns) if f.returns is not None else ""
        elif fn in m.imports or fn in m.assigns:
            rets[k] = ""                     # re-exported / bound by assignment: exists, return annotation not followed
        else:
            bad.append(f"{k}: {m.rel}::{fn} missing")
    G("C07/router.py::tables/module-invariant#registry-targets-exist", not bad and not unsure, str(bad + unsure), definite=bool(bad))
    # _SUPPORTED_EXTENSIONS == derived set (module-level initialiser symbolically executed by the engine)
    from pyvc.symex import Executor as _Ex
    ex = _Ex(r, Registry(), Universe(repo))
    ex.sinks.append([])
    want = {"." + k for k in REG} | {"." + k for k in ALI} | set(COMP)
    oid = "C07/router.py::tables/module-invariant#_SUPPORTED_EXTENSIONS-is-derived-set"
    if "_SUPPORTED_EXTENSIONS" not in r.assigns:
        # the derived set is an implementation detail: without it there is nothing to keep consistent (is_supported_file is
        # verified against the tables directly)
        G(oid, True, "no module-level _SUPPORTED_EXTENSIONS: nothing derived to keep consistent")
    elif _mutated_dependency(r, "_SUPPORTED_EXTENSIONS"):
        # built up by module-level statements (loop + .add instead of comprehensions): the initialiser alone is not the value
        G(oid, False, f"{_mutated_dependency(r, '_SUPPORTED_EXTENSIONS')} at module level: not evaluated (native replay decides)", definite=False)
    else:
        v = ex.module_const("_SUPPORTED_EXTENSIONS")
        from pyvc.values import VSetC
        if isinstance(v, VSetC):
            got = set(v.items)
        elif isinstance(v, VTuple) and all(isinstance(x, VStr) and x.const() is not None for x in v.items):
            got = {x.const() for x in v.items}
        else:
            got = None
        if got is None:
            G(oid, False, "initialiser not evaluated to a constant set by the engine", definite=False)
        else:
            G(oid, got == want, f"diff={sorted(got ^ want)}")
    # documentation tables
    def route(ext):   # ext without dot, lower
        for ck, cv in COMP.items():
            if ("x." + ext).endswith(ck):
                return cv
        e = ext.rsplit(".", 1)[-1]
        e = ALI.get(e, e)
        return e if e in REG else None
    doc_exts = []
    try:
        readme = open(repo + "/README.md", encoding="utf-8").read()
        m_sec = re.search(r"^#+\s*Supported (File )?Formats\s*$", readme, re.M | re.I)
        sec = readme[m_sec.start():] if m_sec else ""
        nxt = re.search(r"^#{1,%d} " % (len(m_sec.group(0)) - len(m_sec.group(0).lstrip("#"))), sec[5:], re.M) if m_sec else None
        sec = sec[:nxt.start() + 5] if nxt else sec
        for line in sec.splitlines():
            if line.lstrip().startswith("|"):
                # any cell of a table row: back-quoted dotted extensions
                doc_exts += re.findall(r"`\.([A-Za-z0-9.]+)`", line)
    except OSError:
        pass
    doc_exts = list(dict.fromkeys(doc_exts))
    bad = [e for e in doc_exts if route(e.lower()) is None]
    # an unrouted documented extension is a definite counterexample; too few recognised rows only means the layout of the
    # documentation changed (undecided, never a violation)
    G("C07/README.md::docs/module-invariant#every-documented-extension-is-routed", not bad and len(doc_exts) >= 50,
      f"{len(doc_exts)} documented; unrouted={bad}", definite=bool(bad))
    init = loader.module("sharepoint2text/__init__.py", repo)
    rf = init.functions.get("read_file")
    ds = _ast.get_docstring(rf) or ""
    rows = re.findall(r"[-*]\s+`?\.([A-Za-z0-9.]+)`?\s*(?:->|→|:)\s*`?(\w+)`?", ds)
    bad, unsure = [], []
    for ext, content in rows:
        ft = route(ext.lower())
        ann = rets.get(ft, "") if ft is not None else ""
        if ft is None:
            bad.append(f".{ext}->{content} (not routed)")
        elif content not in ann:
            others = [w for w in re.findall(r"\w+", ann) if w.endswith("Content") and w != content]
            # the extractor declares another content class: definite; no usable annotation: undecided
            (bad if others else unsure).append(f".{ext}->{content} (routes to {ft}: {ann or 'no return annotation'})")
    G("C07/__init__.py::read_file/module-invariant#docstring-extension-to-content-type", not bad and not unsure and len(rows) >= 15,
      f"{len(rows)} rows; bad={bad}; undecided={unsure}", definite=bool(bad))
    # dispatch sites reuse the router
    P = lambda oid, ok, why="": obls.append(ground_obligation(oid, ok, why or "call-site shape not recognised", "call-sites", definite=False))
    obls.extend(table_policies(repo))
    return {"obligations": obls, "functions": fns}


ROUTING_TABLES = ("_EXTRACTOR_REGISTRY", "_EXTENSION_ALIASES", "_COMPOUND_EXTENSIONS", "_SUPPORTED_EXTENSIONS")
MUTATORS = ("update", "pop", "popitem", "setdefault", "clear", "add", "discard", "remove", "__setitem__", "__delitem__", "__ior__")


def table_policies(repo):
    """Package-wide premises of the table-based proofs (the specs read the *literals* of the routing tables): each table is
    bound exactly once, at module level, and nothing in the package stores into it, deletes from it or calls a mutating method
    on it; and no module other than the router takes a routing decision from the tables (a second decision procedure next to
    is_supported_file / get_extractor is how dispatch sites drift away from the router).  The public MIME_TYPE_MAPPING may be
    read anywhere (attachment fallback; its readers are not allow-listed by name) but is never mutated either."""
    import ast as _ast
    from pyvc.flow import ground_obligation
    out = []
    bad_mut, bad_ref = [], []
    homes = {ROUTER: set(ROUTING_TABLES), MIME: {"MIME_TYPE_MAPPING"}}
    n_files = 0
    for rel in loader.all_package_files(repo):
        try:
            m = loader.module(rel, repo)
        except SyntaxError:
            continue
        n_files += 1
        tracked = set(homes.get(rel, ()))
        alias = {}                                        # local name -> table name
        for local, origin in m.imports.items():
            for home, tabs in homes.items():
                modname = home[:-3].replace("/", ".")
                for t in tabs:
                    if origin == f"{modname}.{t}":
                        alias[local] = t
        for t in tracked:
            alias.setdefault(t, t)
        mod_aliases = {local for local, origin in m.imports.items()
                       if origin in ("sharepoint2text.parsing.router", "sharepoint2text.parsing.mime_types",
                                     "sharepoint2text.parsing.router.router", "sharepoint2text.parsing")}

        def table_of(e):
            if isinstance(e, _ast.Name) and e.id in alias:
                return alias[e.id]
            if isinstance(e, _ast.Attribute) and e.attr in ROUTING_TABLES + ("MIME_TYPE_MAPPING",):
                return e.attr
            return None

        for n in _ast.walk(m.tree):
            # bindings
            if isinstance(n, (_ast.Assign, _ast.AnnAssign, _ast.AugAssign, _ast.Delete, _ast.For, _ast.With, _ast.NamedExpr)):
                tgts = n.targets if isinstance(n, (_ast.Assign, _ast.Delete)) else [getattr(n, "target", None)] if not isinstance(n, _ast.With) else \
                    [i.optional_vars for i in n.items]
                for tg in tgts:
                    for x in _ast.walk(tg) if tg is not None else ():
                        if isinstance(x, (_ast.Subscript, _ast.Attribute)) and isinstance(x.ctx, (_ast.Store, _ast.Del)) and table_of(x.value):
                            bad_mut.append(f"{rel}:{n.lineno} store into {table_of(x.value)}")
                        if isinstance(x, _ast.Name) and isinstance(x.ctx, (_ast.Store, _ast.Del)) and x.id in alias and x.id in tracked:
                            top = n in m.tree.body and isinstance(n, (_ast.Assign, _ast.AnnAssign))
                            if not top:
                                bad_mut.append(f"{rel}:{n.lineno} rebinds {x.id}")
            if isinstance(n, _ast.Global) and any(g in tracked for g in n.names):
                bad_mut.append(f"{rel}:{n.lineno} global {n.names}")
            if isinstance(n, _ast.Call) and isinstance(n.func, _ast.Attribute) and n.func.attr in MUTATORS and table_of(n.func.value):
                bad_mut.append(f"{rel}:{n.lineno} {table_of(n.func.value)}.{n.func.attr}()")
            # references outside the home module
            t = table_of(n) if isinstance(n, (_ast.Name, _ast.Attribute)) else None
            if t and isinstance(getattr(n, "ctx", None), _ast.Load):
                if t in ROUTING_TABLES and rel != ROUTER:
                    bad_ref.append(f"{rel}:{n.lineno} reads {t}")
            if isinstance(n, _ast.ImportFrom) and n.module and rel != ROUTER:
                for a in n.names:
                    if a.name in ROUTING_TABLES:
                        bad_ref.append(f"{rel}:{n.lineno} imports {a.name}")
        for t in tracked:
            tops = [x for x in m.tree.body if isinstance(x, (_ast.Assign, _ast.AnnAssign))
                    and any(isinstance(y, _ast.Name) and y.id == t for tg in (x.targets if isinstance(x, _ast.Assign) else [x.target]) for y in _ast.walk(tg))]
            if len(tops) != 1:
                bad_mut.append(f"{rel}: {t} bound {len(tops)} times at module level")
    out.append(ground_obligation("C07/package::tables/policy#routing-tables-bound-once-and-never-mutated", not bad_mut and n_files > 20,
                                 "; ".join(bad_mut) or f"{n_files} package files scanned", "package", definite=False))
    out.append(ground_obligation("C07/package::tables/policy#no-routing-decision-from-the-tables-outside-the-router", not bad_ref and n_files > 20,
                                 "; ".join(sorted(set(bad_ref))) or f"{n_files} package files scanned", "package", definite=False))
    return out


MEMBER_LOOPS = {"_extract_from_zip_optimized": ("_extract_from_zip_optimized",),
                "_extract_from_tar_optimized": ("_extract_from_tar_optimized",),
                "_extract_from_7z_optimized": ("_extract_from_7z_optimized", "_process_7z_files_sequential")}
MEMBER_CLAUSES = ("#selects-the-", "#each-", "#selected-members-")     # the selection / dispatch clauses of the member loops


def member_loops(repo, tier):
    """Callers of the member contracts, one obligation per archive format: the (name, base name) pair the skip rule tests is
    the pair the member is dispatched under, base name = os.path.basename(name), dispatch only after a False skip rule.
    Two independent, sound ways to establish it -- either suffices:
      (a) dataflow on the real AST (contracts/C07_sites.py: copy propagation, guard polarity, work-list positions);
      (b) the member loop symbolically executed by the engine under the archive pack's loop invariants
          (contracts/C10.py::member_contracts: kept <=> not SKIP(name, BASENAME(name)), each kept member dispatched with
          (name, bytes, archive path, BASENAME(name)); helpers without contract are executed in place), of which C07 takes the
          selection / dispatch clauses.  This one does not care how the loop body is factored (extracted helpers, Optional
          results instead of `continue`, ...).
    Neither established: `unknown` (a counter-model of (b) starts from a havocked loop state and is not a definite
    counterexample): the native archive replay decides."""
    from pyvc import verify
    from pyvc.contracts import Registry
    from pyvc.exctypes import Universe
    from pyvc.flow import ground_obligation
    from contracts import C07_sites
    fns = []
    syn = {o["id"]: o for o in C07_sites.member_sites(repo, fns)}
    out = []
    sem_cache = {}

    def semantic(q):
        from contracts import C10
        if "reg" not in sem_cache:
            reg = Registry()
            cs = C10.contracts(reg)
            for c in cs:
                reg.add(c)
            sem_cache["reg"], sem_cache["cs"] = reg, {c.target: c for c in cs}
        notes, ok = [], True
        for g in MEMBER_LOOPS[q]:
            target = f"{ARCH}::{g}"
            c = sem_cache["cs"].get(target)
            if c is None:
                return False, [f"{g}: no loop contract"]
            rep = verify.run_contract("C07", c, sem_cache["reg"], Universe(repo), repo=repo, timeout_ms=60000 if tier == "thorough" else None,
                                      executor_cls=C10.EXECUTOR, executor_kw=C10.EXECUTOR_KW.get(target))
            if rep.error or rep.out_of_subset:
                return False, [f"{g}: {(rep.error or rep.out_of_subset)[:160]}"]
            mine = [o for o in rep.obligations if any(k in o["id"] for k in MEMBER_CLAUSES)]
            if not mine:
                return False, [f"{g}: selection / dispatch clauses not generated (loop role not recognised)"]
            for o in mine:
                if o["status"] != "proved":
                    ok = False
                    notes.append(f"{o['id'].split('::')[1]}: {o['status']}")
        return ok, notes

    for q in MEMBER_LOOPS:
        oid = f"C07/archive_extractor.py::{q}/call-site#skip-rule-and-dispatch-see-the-same-member-name"
        a = syn.get(oid)
        a_ok = a is not None and a["status"] == "proved"
        try:
            b_ok, b_notes = semantic(q)
        except Exception as e:  # noqa  (pack code of another pack on a changed tree: not recognised, never a crash)
            b_ok, b_notes = False, [f"{type(e).__name__}: {e}"[:160]]
        how = ("dataflow" if a_ok else "") + ("+" if a_ok and b_ok else "") + ("loop invariants (symbolic execution)" if b_ok else "")
        why = how if (a_ok or b_ok) else f"dataflow: {(a or {}).get('reason', 'n/a')}; symbolic: {'; '.join(b_notes)}"
        o = ground_obligation(oid, a_ok or b_ok, why[:500], ARCH, definite=False)
        o["backends"] = {"dataflow": int(a_ok), "z3": int(b_ok)} if (a_ok or b_ok) else {"dataflow": 1}
        out.append(o)
    return {"obligations": out, "functions": fns}


def attachments_site(repo, tier):
    """EmailContent.iterate_supported_attachments under a real contract: the function is symbolically executed by the engine
    with the loop invariant written for the e-mail pack (contracts/C16.py::isa_contract -- per attachment the extractor is
    the one get_extractor gives for the attachment's *file name*; only when the router has none for the name, the registry
    entry of the declared MIME type; a per-call cache may only hold the router's own answers).  C07 owns the two conjuncts
    about extractor identity (`dispatch`, `cache`); stream handling stays C16's.  The facts about get_extractor on the
    constant fallback paths "attachment.<type>" are the lemmas `mime-fallback-routes.*` below (proved from C07's contract)."""
    from pyvc import verify
    from pyvc.contracts import Registry
    from pyvc.exctypes import Universe
    from contracts import C16
    target = f"{C16.DT}::EmailContent.iterate_supported_attachments"
    short = "C07/data_types.py::EmailContent.iterate_supported_attachments"
    reg = Registry()
    cs = C16.contracts(reg)
    for c in cs:
        reg.add(c)
    isa = [c for c in cs if c.target == target]
    # the other entry point in the same shape (C16 sees the router as a deterministic partial function of the path: GE_RAISES /
    # GE_MOD / GE_FN): is_supported_file(p) == not GE_RAISES(p), which is this pack's contract of is_supported_file together with
    # the lemma `is_supported-iff-get_extractor-returns` -- a site may ask first instead of catching the error
    reg.ext_models.setdefault("mimetypes.guess_extension", m_guess_extension)
    sup_target = f"{ROUTER}::is_supported_file"
    if not any(c.target == sup_target for c in cs):
        reg.add(FnContract(target=sup_target, params=[("path", p_str())], assumed=True,
                           returns=lambda c: VBool(z3.Not(C16.GE_RAISES(c.args["path"].t))),
                           note="call-site VIEW of a contract verified by this pack, not an assumption of it: implied by the contract of "
                                "is_supported_file + lemma get_extractor/lemma#assumed-call-site-view-(deterministic-partial-function)-is-implied "
                                "(discharged: GE_RAISES := the verified raise condition is a model of the view C16 assumes of get_extractor)"))
    unknown = lambda why: {"id": f"{short}/out-of-subset", "kind": "out-of-subset", "status": "unknown", "vcs": 0, "seconds": 0.0,
                           "backends": {}, "witness": None, "reason": why[:300], "function": target, "loc": ""}
    if not isa:
        return {"obligations": [unknown("contract missing")], "functions": []}
    rep = verify.run_contract("C07", isa[0], reg, Universe(repo), repo=repo, timeout_ms=60000 if tier == "thorough" else None,
                              executor_cls=C16.EXECUTOR, executor_kw=C16.EXECUTOR_KW.get(target))
    if rep.error == "contract-target-missing":
        return {"obligations": [], "functions": [], "undecided": [{"obligation": target, "why": "contract-target-missing"}]}
    if rep.error or rep.out_of_subset:
        return {"obligations": [unknown(("ENGINE-ERROR " + rep.error) if rep.error else ("OUT-OF-SUBSET " + rep.out_of_subset))], "functions": []}
    keep = [o for o in rep.obligations if o["id"].endswith((".dispatch", ".cache"))]
    for o in keep:
        o["function"] = target
    if not keep:
        keep = [unknown("no dispatch obligation generated")]
    return {"obligations": keep, "functions": [dict(rep.info, paths=rep.paths, obligations=len(keep))]}


def _guarded(fn, oid, function=None):
    """an EXTRA never crashes the check: an exception inside pack code on a changed tree is an unrecognised shape -> `unknown`
    (undecided; the native replayer decides)"""
    def run(repo, tier):
        from pyvc.flow import ground_obligation
        try:
            return fn(repo, tier)
        except Exception as e:  # noqa
            o = ground_obligation(oid, False, f"{type(e).__name__}: {e}"[:300], "pack", definite=False)
            if function:
                o.update(kind="out-of-subset", function=function, vcs=0)
            return {"obligations": [o], "functions": []}
    run.__name__ = fn.__name__
    return run


ENTRY_POINTS = ("is_supported_file", "get_extractor")


def _module_level_bindings(tree, name):
    """statements that bind `name` at module level (also inside top-level if / try / with blocks), not inside functions/classes"""
    import ast as _ast
    out = []

    def walk(stmts):
        for st in stmts:
            if isinstance(st, (_ast.FunctionDef, _ast.AsyncFunctionDef)):
                if st.name == name:
                    out.append(("def", st))
                continue
            if isinstance(st, _ast.ClassDef):
                if st.name == name:
                    out.append(("other", st))
                continue
            if isinstance(st, _ast.ImportFrom):
                for a in st.names:
                    if (a.asname or a.name) == name:
                        out.append(("import", (st, a)))
                    if a.name == "*":
                        out.append(("star", (st, a)))
                continue
            if isinstance(st, _ast.Import):
                for a in st.names:
                    if (a.asname or a.name.split(".")[0]) == name:
                        out.append(("other", st))
                continue
            if isinstance(st, (_ast.Assign, _ast.AnnAssign, _ast.AugAssign)):
                tg = st.targets if isinstance(st, _ast.Assign) else [st.target]
                if any(isinstance(x, _ast.Name) and x.id == name for t in tg for x in _ast.walk(t)):
                    out.append(("other", st))
                continue
            for fld in ("body", "orelse", "finalbody"):
                walk(getattr(st, fld, []) or [])
            for h in getattr(st, "handlers", []) or []:
                walk(h.body)
    walk(tree.body)
    return out


def _resolves_to_router(rel, name, repo, depth=0):
    """does the module-level name `name` of module `rel` denote router.<entry point> through a chain of plain imports?
    -> (True, entry) | (False, why) | (None, why = not decidable here)"""
    import os as _os
    if depth > 6:
        return None, "import chain too long"
    m = loader.module(rel, repo)
    b = _module_level_bindings(m.tree, name)
    stars = [x for x in b if x[0] == "star"]
    b = [x for x in b if x[0] != "star"]
    if rel == ROUTER:
        if len(b) == 1 and b[0][0] == "def" and name in ENTRY_POINTS:
            return True, name
        return None, f"router.{name} is not a single module-level function"
    if len(b) != 1 or b[0][0] != "import":
        return None, f"{rel}: `{name}` is bound {len(b)} times / not by a plain import"
    st, a = b[0][1]
    if st.level:
        base = rel.split("/")[:-1]
        base = base[:len(base) - (st.level - 1)] if st.level > 1 else base
        modparts = base + (st.module.split(".") if st.module else [])
    else:
        modparts = st.module.split(".")
    for cand in ("/".join(modparts) + ".py", "/".join(modparts) + "/__init__.py"):
        if _os.path.exists(_os.path.join(m.repo, cand)):
            return _resolves_to_router(cand, a.name, repo, depth + 1)
    return False, f"{rel}: `{name}` is imported from {'.'.join(modparts)}, which is not the router"


def public_surface(repo, tier):
    """The property speaks about the library's entry points, not only about two functions of router.py: every module-level
    name `is_supported_file` / `get_extractor` that a module of the package offers (re-export, wrapper, alias) must BE the
    router's function or behave exactly like it on every path string.  A plain import chain ending at router.<name> is decided
    on the AST; a function of that name defined elsewhere (a wrapper) is verified against the router function's own
    specification by the engine; anything else is undecided.  The native replayer compares every such surface with the
    router on its path grammar (incl. forms that pathlib would rewrite: trailing separators, '/.', data: URLs)."""
    from pyvc import verify
    from pyvc.contracts import Registry
    from pyvc.exctypes import Universe
    from pyvc.flow import ground_obligation
    obls, fns = [], []
    reg = None
    for rel in loader.all_package_files(repo):
        if rel == ROUTER:
            continue
        try:
            m = loader.module(rel, repo)
        except SyntaxError:
            continue
        for name in ENTRY_POINTS:
            b = [x for x in _module_level_bindings(m.tree, name) if x[0] != "star"]
            listed = name in _all_list(m)
            if not b:
                if listed:
                    obls.append(ground_obligation(f"C07/{rel.split('/', 1)[1]}::{name}/public-surface#is-the-router-function", False,
                                                  "listed in __all__ but not bound by a recognised statement", rel, definite=False))
                continue
            oid = f"C07/{rel.split('/', 1)[1]}::{name}/public-surface#is-the-router-function"
            if len(b) == 1 and b[0][0] == "def":
                # a wrapper: same contract as the router's function, verified on the real body
                try:
                    if reg is None:
                        reg = Registry()
                        for c in contracts(reg):
                            reg.add(c)
                    fnode = b[0][1]
                    a = fnode.args
                    required = [x.arg for x in a.posonlyargs + a.args][:len(a.posonlyargs + a.args) - len(a.defaults)]
                    if len(required) != 1 or a.vararg or a.kwarg or any(d is None for d in a.kw_defaults):
                        raise ops.Unsupported(f"signature of {name} is not (path, <defaulted>...)")
                    par = required[0]
                    if name == "is_supported_file":
                        fc = FnContract(target=f"{rel}::{name}", params=[(par, p_str())], raises=[],
                                        returns=lambda c, par=par: VBool(sup_term(_s(c, par))))
                    else:
                        fc = FnContract(target=f"{rel}::{name}", params=[(par, p_str())],
                                        returns=lambda c, par=par: ge_returns_for_term(_s(c, par)),
                                        raises=[Raises(NOTSUP, when=lambda c, par=par: ge_raises_term(_s(c, par)))])
                    rep = verify.run_contract("C07", fc, reg, Universe(repo), repo=repo, timeout_ms=60000 if tier == "thorough" else None,
                                              executor_cls=EXECUTOR)
                    if rep.error or rep.out_of_subset:
                        raise ops.Unsupported((rep.error or rep.out_of_subset)[:200])
                    bad = [o for o in rep.obligations if o["status"] != "proved"]
                    status_ok = not bad
                    definite = any(o["status"] == "refuted" for o in bad)
                    why = "wrapper verified against the router function's specification" if status_ok else \
                        "; ".join(f"{o['id'].rsplit('/', 1)[1]}: {o['status']} {o.get('witness') or ''}" for o in bad)[:300]
                    o = ground_obligation(oid, status_ok, why, rel, definite=definite)
                    o["backends"] = {"z3": 1}
                    if bad and bad[0].get("witness"):
                        o["witness"] = bad[0]["witness"]
                    obls.append(o)
                    fns.append(dict(m.fn_info(name), obligations=1))
                except ops.Unsupported as e:
                    obls.append(ground_obligation(oid, False, f"wrapper outside the verifiable subset: {e}"[:300], rel, definite=False))
                continue
            ok, why = _resolves_to_router(rel, name, repo)
            if ok is None and len(b) == 1 and b[0][0] == "other" and name in m.assigns:
                # `name = <expr>` (e.g. an attribute of the imported router module): the engine evaluates the initialiser
                try:
                    from pyvc.symex import Executor as _Ex
                    from pyvc.values import VFunc
                    ex = _Ex(m, Registry(), Universe(repo))
                    ex.sinks.append([])
                    v = ex.module_const(name)
                    if isinstance(v, VFunc) and v.how == "repo" and v.a == ROUTER and v.b in ENTRY_POINTS:
                        ok, why = True, v.b
                except ops.Unsupported:
                    pass
            if ok is True and why == name:
                obls.append(ground_obligation(oid, True, "plain import chain ending at the router function", rel))
            elif ok is True:
                obls.append(ground_obligation(oid, False, f"`{name}` is bound to router.{why}", rel, definite=True))
            else:
                obls.append(ground_obligation(oid, False, why, rel, definite=False))
    if not obls:
        obls.append(ground_obligation("C07/package::public-surface/policy#entry-points-are-exported", False,
                                      "no module of the package offers is_supported_file / get_extractor", "package", definite=False))
    return {"obligations": obls, "functions": fns}


def _all_list(m):
    import ast as _ast
    v = m.assigns.get("__all__")
    try:
        return list(_ast.literal_eval(v)) if v is not None else []
    except (ValueError, SyntaxError, TypeError):
        return [e.value for e in _ast.walk(v) if isinstance(e, _ast.Constant) and isinstance(e.value, str)]


def ge_returns_for_term(s_term, repo=None):
    p = LOWER(s_term)
    is_none, val = ft_spec(p, repo)
    return [(z3.Not(is_none), reg_lookup(val, repo)), (z3.And(is_none, mime_ok(p, repo)), reg_lookup(mime_ft(p, repo), repo))]


# ---- (round 7) os.path.splitext: axioms A1-A3 discharged on the interpreter's own source --------------------------------
SPLITEXT = "genericpath.py::_splitext"
SPLITEXT_POSIX = "posixpath.py::splitext"


def stdlib_dirs():
    """directories holding the genericpath.py of (a) the interpreter the library's suite / the native replayer runs with and
    (b) the interpreter of this checker; (a) first"""
    import os as _os
    import subprocess as _sp
    import genericpath as _gp
    out = []
    if _os.environ.get("VERIF_STDLIB"):       # another interpreter's Lib directory (colon-separated list)
        return [d for d in _os.environ["VERIF_STDLIB"].split(":") if d]
    try:
        r = _sp.run(["/venv/bin/python", "-c", "import genericpath;print(genericpath.__file__)"], capture_output=True, text=True, timeout=20)
        if r.returncode == 0 and r.stdout.strip().endswith("genericpath.py"):
            out.append(_os.path.dirname(r.stdout.strip()))
    except (OSError, _sp.SubprocessError):
        pass
    d = _os.path.dirname(_gp.__file__)
    if d not in out:
        out.append(d)
    return out


def m_rfind(ex, st, args, kwargs, node):
    """builtin str.rfind for a ONE-character constant needle c, by its definition: -1 iff c does not occur; else the k with
    s == a + c + b, k == len(a), c not in b (sound and complete for one character; anything else: no model).
    A second search in a string this path has already split as s == x + c0 + y (c0 != c, c0 not in y) is answered inside that
    split -- c occurs last in y, else last in x, else nowhere: the same definition, case by case -- so that a path never holds
    two unrelated decompositions of one string (z3's sequence solver answers `unknown` on those)."""
    from pyvc.values import VInt
    s = args[0]
    c = args[1].const() if len(args) == 2 and isinstance(args[1], VStr) else None
    if not isinstance(s, VStr) or c is None or len(c) != 1 or kwargs:
        return ex.havoc_call(st, "str.rfind", args, node)
    ct = z3.StringVal(c)

    def split(state, t, base):
        """outcomes of the search for the last c in term t (positions counted from `base`): [(state, index term, parts | None)]"""
        a, b = z3.String(fresh_name("rfind!a")), z3.String(fresh_name("rfind!b"))
        nf = state.fork().assume(z3.Not(z3.Contains(t, ct)))
        fd = state.assume(z3.And(t == z3.Concat(a, ct, b), z3.Not(z3.Contains(b, ct))))
        return [(nf, None, None), (fd, base + z3.Length(a), (a, b))]

    known = dict(st.ghost.get("rfind_parts", {}))
    prev = known.get(s.t.get_id())
    out = []
    if prev is not None and prev[1] != c:
        (_keep, c0, x, y) = prev
        for (s1, idx, _p) in split(st, y, z3.Length(x) + 1):
            if idx is not None:
                out.append((s1, VInt(z3.simplify(idx))))
                continue
            for (s2, idx2, _q) in split(s1, x, z3.IntVal(0)):
                out.append((s2, VInt(z3.IntVal(-1) if idx2 is None else z3.simplify(idx2))))
        return out
    for (s1, idx, parts) in split(st, s.t, z3.IntVal(0)):
        if parts is not None:
            g = dict(s1.ghost.get("rfind_parts", {}))
            g[s.t.get_id()] = (s.t, c, parts[0], parts[1])      # (the term is kept alive with its id)
            s1.ghost["rfind_parts"] = g
        out.append((s1, VInt(z3.IntVal(-1) if idx is None else z3.simplify(idx))))
    return out


class SliceExecutor(Executor):
    """string slices whose bounds the path condition places inside the string are emitted as the plain `substr` (each bound
    justified by a small solver query on the current path; not entailed / no answer: the engine's clamped form, which is always
    right and only slower for the solvers)"""

    def _entails(self, st, f):
        so = z3.Solver()
        so.set("timeout", 1500)
        so.add(*st.pc)
        so.add(z3.Not(f))
        return so.check() == z3.unsat

    def str_slice(self, st, base, sl, node):
        if sl.step is not None:
            return super().str_slice(st, base, sl, node)
        ln = z3.Length(base.t)

        def norm(e, dflt):
            if e is None:
                return dflt
            t = self._ev_int1(e, st, node)
            if self._entails(st, z3.And(t >= 0, t <= ln)):
                return z3.simplify(t)
            return z3.simplify(z3.If(t < 0, z3.If(t + ln < 0, z3.IntVal(0), t + ln), z3.If(t > ln, ln, t)))
        lo, hi = norm(sl.lower, z3.IntVal(0)), norm(sl.upper, ln)
        n = z3.simplify(hi - lo) if self._entails(st, hi >= lo) else z3.If(hi - lo < 0, z3.IntVal(0), hi - lo)
        return [(st, VStr(z3.SubString(base.t, lo, n)))]


def splitext_contract(wrapper=False):
    """`genericpath._splitext(p, '/', None, '.')` -- what posixpath.splitext(str) calls -- satisfies exactly the axioms the
    router proofs assume of the uninterpreted E / ROOT (`splitext_axioms`), and raises nothing, for EVERY string p."""
    from pyvc.contracts import LoopSpec
    from pyvc.verify import p_const

    def parts(c):
        r = c.result
        if not (isinstance(r, VTuple) and len(r.items) == 2 and all(isinstance(x, VStr) for x in r.items)):
            raise ops.Unsupported("result of _splitext is not a pair of strings")
        return r.items[0].t, r.items[1].t

    dot, sl = z3.StringVal("."), z3.StringVal("/")
    A1 = lambda c: (lambda root, e: z3.Or(e == z3.StringVal(""), z3.PrefixOf(dot, e)))(*parts(c))
    A2 = lambda c: (lambda root, e: z3.Not(z3.Contains(z3.SubString(e, 1, z3.Length(e)), dot)))(*parts(c))
    A3 = lambda c: (lambda root, e: z3.Not(z3.Contains(e, sl)))(*parts(c))
    A4 = lambda c: (lambda root, e: z3.Concat(root, e) == _s(c, "p"))(*parts(c))

    def inv(lc):
        from pyvc.ops import int_term
        fi, d, sp = int_term(lc["filenameIndex"]), int_term(lc["dotIndex"]), int_term(lc["sepIndex"])
        return z3.And(fi >= sp + 1, fi <= d, sp >= -1)

    def dec(lc):
        from pyvc.ops import int_term
        return int_term(lc["dotIndex"]) - int_term(lc["filenameIndex"])

    clauses = [("A1-extension-empty-or-starts-with-dot", A1), ("A2-no-further-dot-in-extension", A2),
               ("A3-no-separator-in-extension", A3), ("A4-root+extension-is-the-path", A4)]
    if wrapper:
        # posixpath.splitext(p) for a str p: the same four clauses, proved from the contract of genericpath._splitext at its call
        return FnContract(target=SPLITEXT_POSIX, params=[("p", p_str())], ensures=clauses, raises=[], total=True,
                          note="posixpath.splitext(str) = genericpath._splitext(p, '/', None, '.') (os.fspath of a str is the str)")
    return FnContract(
        target=SPLITEXT,
        result_maker=lambda ex, st, cx: VTuple([VStr(z3.String(fresh_name("splitext!root"))), VStr(z3.String(fresh_name("splitext!ext")))]),
        params=[("p", p_str()), ("sep", p_const("/")), ("altsep", p_const(None)), ("extsep", p_const("."))],
        ensures=clauses,
        requires=lambda c: z3.And(ops.eq_term(c.args["sep"], VStr("/")), ops.eq_term(c.args["altsep"], NONE), ops.eq_term(c.args["extsep"], VStr("."))),
        raises=[], total=True,
        loops={0: LoopSpec(inv=inv, decreases=dec, label="leading-dots")},
        note="os.path.splitext on POSIX = genericpath._splitext(p, '/', None, '.'): the axioms A1-A3 (+ root + ext == p) that every "
             "router proof assumes of the uninterpreted splitext are proved on the interpreter's own source")


def splitext_stdlib(repo, tier):
    """The assumed model `m_splitext` (uninterpreted E / ROOT + `splitext_axioms`) stays the call-site view of os.path.splitext;
    this EXTRA discharges those axioms on the real body of `genericpath._splitext` of the interpreter(s) on this host (the source
    is re-read on every run; `str.rfind` with a one-character needle by definition, slices / comparisons by the engine)."""
    from pyvc import verify
    from pyvc.contracts import Registry
    from pyvc.exctypes import Universe
    obls, fns = [], []
    seen = set()
    for d in stdlib_dirs():
        try:
            sha = tuple(loader.module(t.split("::")[0], d).fn_info(t.split("::")[1])["segment_sha256"] for t in (SPLITEXT, SPLITEXT_POSIX))
        except (OSError, KeyError, SyntaxError) as e:
            raise ops.Unsupported(f"{d}: no readable genericpath._splitext / posixpath.splitext ({type(e).__name__})")
        if sha in seen:
            continue                       # the same source text in both interpreters: proved once
        reg = Registry()
        reg.ext_models["str.rfind"] = m_rfind
        reg.ext_models["os.fspath"] = m_fspath
        inner = splitext_contract()
        reg.add(inner)
        reg.ext_models["genericpath._splitext"] = inner      # what posixpath.splitext calls: the contract verified just below
        for c in (inner, splitext_contract(wrapper=True)):
            # (every VC is closed by z3 in < 0.1 s: `m_rfind` never leaves two unrelated decompositions of the path on one path)
            rep = verify.run_contract("C07", c, reg, Universe(repo), repo=d, timeout_ms=60000 if tier == "thorough" else None,
                                      executor_cls=SliceExecutor)
            if rep.error or rep.out_of_subset:
                raise ops.Unsupported(f"{d}/{c.target}: {(rep.error or rep.out_of_subset)[:200]}")
            for o in rep.obligations:
                o["function"] = f"{d}/{c.target}"
                if seen:
                    o["id"] += f"@{d.rsplit('/', 1)[-1]}"
                obls.append(o)
            fns.append(dict(rep.info, function=f"{d}/{c.target}", paths=rep.paths, obligations=len(rep.obligations), stdlib=True))
        seen.add(sha)
    return {"obligations": obls, "functions": fns}


EXTRA = [_guarded(public_surface, "C07/__init__.py::public-surface/policy#entry-points-are-the-router-functions"),
         _guarded(absent_wrappers, "C07/archive_extractor.py::cached-router-wrappers/vacuous#absent"),
         _guarded(policy, "C07/router.py::tables/module-invariant#tables-evaluate-to-constants"),
         _guarded(member_loops, "C07/archive_extractor.py::member-loops/call-site#skip-rule-and-dispatch-see-the-same-member-name"),
         _guarded(splitext_stdlib, "C07/genericpath.py::_splitext/out-of-subset", "genericpath.py::_splitext"),
         _guarded(attachments_site, "C07/data_types.py::EmailContent.iterate_supported_attachments/out-of-subset",
                  "sharepoint2text/parsing/extractors/data_types.py::EmailContent.iterate_supported_attachments")]

REPLAY_UNKNOWN = True    # undecided / out-of-subset items are searched natively (replay) before being reported UNDECIDED
