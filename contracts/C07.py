"""C07 -- routing: is_supported_file == get_extractor succeeds; extension decides.

Functions under contract: router._file_type_from_extension, _get_extractor,
is_supported_file, get_extractor; mime_types.is_supported_mime_type.
`os.path.splitext` and `mimetypes.guess_type` are uninterpreted (E, M): the
proofs hold for *every* MIME database and every splitext satisfying axioms
A1-A3 (A5 is used only by the alias lemma).  `str.lower` is uninterpreted: both
entry points are shown to depend on the path only through lower(path).
"""
import z3

from pyvc import loader, ops
from pyvc.contracts import FnContract, Raises
from pyvc.values import NONE, VBool, VExt, VStr, VTuple, VUnk, ext_sort, fresh_name
from pyvc.verify import p_str, p_opt

ROUTER = "sharepoint2text/parsing/router.py"
MIME = "sharepoint2text/parsing/mime_types.py"
S = z3.StringSort()

LOWER = z3.Function("str_lower", S, S)
E = z3.Function("splitext_ext", S, S)            # os.path.splitext(p)[1]
ROOT = z3.Function("splitext_root", S, S)
M = z3.Function("guess_type_mime", S, S)         # mimetypes.guess_type(p)[0] when not None
MNONE = z3.Function("guess_type_is_none", S, z3.BoolSort())
NOTSUP = "ExtractionFileFormatNotSupportedError"


def tables(repo=None):
    r = loader.module(ROUTER, repo)
    m = loader.module(MIME, repo)
    return (r.literal("_EXTRACTOR_REGISTRY"), r.literal("_EXTENSION_ALIASES"), r.literal("_COMPOUND_EXTENSIONS"),
            m.literal("MIME_TYPE_MAPPING"))


def splitext_axioms(p):
    """A1 empty or starts with '.', A2 no further '.', no '/', A3 suffix of p, root+ext == p."""
    e = E(p)
    return z3.And(
        z3.Or(e == z3.StringVal(""), z3.PrefixOf(z3.StringVal("."), e)),
        z3.Not(z3.Contains(z3.SubString(e, 1, z3.Length(e)), z3.StringVal("."))),
        z3.Not(z3.Contains(e, z3.StringVal("/"))),
        z3.Concat(ROOT(p), e) == p,
    )


# ---- spec functions, written from the statement ------------------------------
def ite_chain(cases, default):
    acc = default
    for c, v in reversed(cases):
        acc = z3.If(c, v, acc)
    return acc


def ft_spec(p, repo=None):
    """(is_none, value): file type decided by the lower-cased trailing extension,
    compound archive extensions first, aliases resolved, registry membership."""
    REG, ALI, COMP, _ = tables(repo)
    comp_hit = z3.Or([z3.SuffixOf(z3.StringVal(k), p) for k in COMP])
    comp_val = ite_chain([(z3.SuffixOf(z3.StringVal(k), p), z3.StringVal(v)) for k, v in COMP.items()], z3.StringVal(""))
    e = E(p)
    x = z3.SubString(e, 1, z3.Length(e))          # extension without the dot
    xr = ite_chain([(x == z3.StringVal(a), z3.StringVal(b)) for a, b in ALI.items()], x)
    in_reg = z3.Or([xr == z3.StringVal(k) for k in REG])
    single_ok = z3.And(z3.Length(e) > 1, in_reg)
    is_none = z3.And(z3.Not(comp_hit), z3.Not(single_ok))
    val = z3.If(comp_hit, comp_val, xr)
    return is_none, val


def reg_lookup(ft, repo=None):
    REG = tables(repo)[0]
    mod = ite_chain([(ft == z3.StringVal(k), z3.StringVal(v[0])) for k, v in REG.items()], z3.StringVal(""))
    fn = ite_chain([(ft == z3.StringVal(k), z3.StringVal(v[1])) for k, v in REG.items()], z3.StringVal(""))
    return VTuple([VStr(mod), VStr(fn)])


def mime_ok(p, repo=None):
    MIMES = tables(repo)[3]
    return z3.And(z3.Not(MNONE(p)), z3.Or([M(p) == z3.StringVal(k) for k in MIMES]))


def mime_ft(p, repo=None):
    MIMES = tables(repo)[3]
    return ite_chain([(M(p) == z3.StringVal(k), z3.StringVal(v)) for k, v in MIMES.items()], z3.StringVal(""))


# ---- assumed library models -----------------------------------------------------
def m_lower(ex, st, args, kwargs, node):
    s = args[0]
    c = s.const()
    if c is not None:
        return [(st, VStr(c.lower()))]
    return [(st, VStr(LOWER(s.t)))]


def m_splitext(ex, st, args, kwargs, node):
    p = args[0].t
    st.assume(splitext_axioms(p))
    return [(st, VTuple([VStr(ROOT(p)), VStr(E(p))]))]


def m_guess_type(ex, st, args, kwargs, node):
    p = args[0].t
    a = st.fork().assume(MNONE(p))
    b = st.assume(z3.Not(MNONE(p)))
    return [(a, VTuple([NONE, VUnk("encoding")])), (b, VTuple([VStr(M(p)), VUnk("encoding")]))]


def m_import_module(ex, st, args, kwargs, node):
    """importlib.import_module: ASSUMED to succeed for registry modules (checked natively in replay)."""
    return [(st, VTuple([VStr("<module>"), args[0]]))]


def b_getattr_module(ex, st, args, kwargs, node):
    return None


def install(reg):
    readfile.install(reg)
    reg.ext_models["str.lower"] = m_lower
    reg.ext_models["os.path.splitext"] = m_splitext
    reg.ext_models["mimetypes.guess_type"] = m_guess_type
    reg.ext_models["importlib.import_module"] = m_import_module


from pyvc.symex import Executor  # noqa: E402


from contracts import readfile  # noqa: E402

EXECUTOR = readfile.ReadFileExecutor


def contracts(reg):
    install(reg)
    out = []
    REG = tables()[0]

    def ft_returns(c):
        p = c.args["path_lower"].t
        is_none, val = ft_spec(p)
        return [(is_none, NONE), (z3.Not(is_none), VStr(val))]

    out.append(FnContract(
        target=f"{ROUTER}::_file_type_from_extension",
        params=[("path_lower", p_str())],
        returns=ft_returns,
        note="file type = compound suffix first, else alias-resolved splitext extension if registered, else None",
    ))

    def in_reg(t):
        return z3.Or([t == z3.StringVal(k) for k in REG])

    out.append(FnContract(
        target=f"{ROUTER}::_get_extractor",
        params=[("file_type", p_str())],
        returns=lambda c: reg_lookup(c.args["file_type"].t),
        ensures=[("only-for-registered-types", lambda c: in_reg(c.args["file_type"].t))],
        raises=[Raises(NOTSUP, when=lambda c: z3.Not(in_reg(c.args["file_type"].t)))],
    ))

    def sup_spec(c):
        p = LOWER(c.args["path"].t)
        is_none, _ = ft_spec(p)
        return VBool(z3.Or(z3.Not(is_none), mime_ok(p)))

    out.append(FnContract(
        target=f"{ROUTER}::is_supported_file",
        params=[("path", p_str())],
        returns=sup_spec,
    ))

    def ge_returns(c):
        p = LOWER(c.args["path"].t)
        is_none, val = ft_spec(p)
        return [(z3.Not(is_none), reg_lookup(val)),
                (z3.And(is_none, mime_ok(p)), reg_lookup(mime_ft(p)))]

    def ge_raises(c):
        p = LOWER(c.args["path"].t)
        is_none, _ = ft_spec(p)
        return z3.And(is_none, z3.Not(mime_ok(p)))

    out.append(FnContract(
        target=f"{ROUTER}::get_extractor",
        params=[("path", p_str())],
        returns=ge_returns,
        ensures=[("returns-only-when-supported", lambda c: z3.Not(ge_raises(c)))],
        raises=[Raises(NOTSUP, when=ge_raises)],
    ))

    # read_file dispatches through get_extractor(str(Path(path))) and calls exactly the returned extractor
    def rf_dispatch(c):
        d = c.st.ghost.get("dispatch", ())
        if len(d) != 1:
            return z3.BoolVal(False)
        ext, args = d[0]
        if len(args) != 2 or not isinstance(args[1], VStr):
            return z3.BoolVal(False)
        p = z3.Const("p!rf", readfile.PathS)
        # the second argument is str(P) for a Path P built directly from the caller's path string, and the
        # extractor is the one get_extractor's contract yields for that very string
        s_arg = args[1].t
        cands = []
        for (fexp, val) in ge_returns_for(s_arg):
            cands.append(z3.And(fexp, ops.eq_term(ext, val)))
        return z3.And(z3.Or(cands), is_pstr_of_param(c, s_arg))

    def is_pstr_of_param(c, s_arg):
        # s_arg must be syntactically PSTR(P) with PSRC(P) == path assumed on the path
        if not (z3.is_app(s_arg) and s_arg.decl().name() == "path_str"):
            return z3.BoolVal(False)
        P = s_arg.arg(0)
        return z3.And(z3.BoolVal(P.get_id() in c.st.ghost.get("paths_from_param", frozenset())), readfile.PSRC(P) == c.args["path"].t)

    def ge_returns_for(s_term):
        p = LOWER(s_term)
        is_none, val = ft_spec(p)
        return [(z3.Not(is_none), reg_lookup(val)), (z3.And(is_none, mime_ok(p)), reg_lookup(mime_ft(p)))]

    from pyvc.verify import p_int as _p_int
    out.append(FnContract(
        target=f"{readfile.INIT}::read_file",
        params=[("path", p_str()), ("max_file_size", _p_int())],
        generator=True,
        ensures=[("dispatches-to-get_extractor(str(Path(path)))-with-that-path", rf_dispatch)],
        raises=[Raises("Exception", sub=True, label="failure surface is C01's obligation")],
        note="read_file reaches exactly the extractor get_extractor selects for the caller's path",
    ))

    def mime_spec(c):
        MIMES = tables()[3]
        m = c.args["mime_type"]
        if m is NONE:
            return VBool(False)
        return VBool(z3.Or([m.t == z3.StringVal(k) for k in MIMES]))

    out.append(FnContract(
        target=f"{MIME}::is_supported_mime_type",
        params=[("mime_type", p_opt(p_str()))],
        returns=mime_spec,
    ))
    return out


def lemmas():
    """Spec-level lemmas over the verified contracts."""
    REG, ALI, COMP, MIMES = tables()
    out = []
    p = z3.String("p!lem")
    is_none, val = ft_spec(p)
    sup = z3.Or(z3.Not(is_none), mime_ok(p))
    raises = z3.And(is_none, z3.Not(mime_ok(p)))
    out.append(("C07/router.py::spec/lemma#is_supported-iff-get_extractor-returns", [splitext_axioms(p)], sup == z3.Not(raises)))
    # whenever a file type is decided by extension it is a registry key (so _get_extractor cannot raise there)
    out.append(("C07/router.py::spec/lemma#extension-type-is-registered", [splitext_axioms(p), z3.Not(is_none)],
                z3.Or([val == z3.StringVal(k) for k in REG])))
    out.append(("C07/router.py::spec/lemma#mime-type-is-registered", [mime_ok(p)],
                z3.Or([mime_ft(p) == z3.StringVal(k) for k in REG])))
    # MIME independence: with an extension decision, two different MIME databases give the same extractor.
    # (ft_spec and reg_lookup(val) do not mention M/MNONE: checked syntactically here.)
    mentions = any(str(d) in ("guess_type_mime", "guess_type_is_none") for d in _decls(z3.And(is_none == is_none, val == val)))
    out.append(("C07/router.py::spec/lemma#extension-routing-independent-of-mime-database", [], z3.BoolVal(not mentions)))
    # alias behaves exactly like its base, for every stem ending in a name character (A5 instances as hypotheses)
    s = z3.String("s!lem")
    last = z3.SubString(s, z3.Length(s) - 1, 1)
    stem_ok = z3.And(z3.Length(s) > 0, last != z3.StringVal("."), last != z3.StringVal("/"))
    for a, b in ALI.items():
        pa, pb = z3.Concat(s, z3.StringVal("." + a)), z3.Concat(s, z3.StringVal("." + b))
        hyp = [stem_ok, splitext_axioms(pa), splitext_axioms(pb), E(pa) == z3.StringVal("." + a), E(pb) == z3.StringVal("." + b)]
        na, va = ft_spec(pa)
        nb, vb = ft_spec(pb)
        goal = z3.And(z3.Not(na), z3.Not(nb), ops.eq_term(reg_lookup(va), reg_lookup(vb)))
        out.append((f"C07/router.py::spec/lemma#alias-equals-base.{a}", hyp, goal))
    # every registered extension / alias / compound routes to its registry entry (A5 instances)
    for ext in list(REG) + list(ALI):
        pe = z3.Concat(s, z3.StringVal("." + ext))
        hyp = [stem_ok, splitext_axioms(pe), E(pe) == z3.StringVal("." + ext),
               z3.Not(z3.Or([z3.SuffixOf(z3.StringVal(k), pe) for k in COMP]))]
        ne, ve = ft_spec(pe)
        target = ALI.get(ext, ext)
        out.append((f"C07/router.py::spec/lemma#extension-routes.{ext}", hyp, z3.And(z3.Not(ne), ve == z3.StringVal(target))))
    for k, v in COMP.items():
        pe = z3.Concat(s, z3.StringVal(k))
        ne, ve = ft_spec(pe)
        out.append((f"C07/router.py::spec/lemma#compound-routes{k}", [splitext_axioms(pe)], z3.And(z3.Not(ne), ve == z3.StringVal(v))))
    return out


def _decls(e):
    seen, stack, out = set(), [e], []
    while stack:
        x = stack.pop()
        if x.get_id() in seen:
            continue
        seen.add(x.get_id())
        if z3.is_app(x):
            out.append(x.decl().name())
            stack.extend(x.children())
    return out


TRUSTED = ["os.path.splitext axioms A1-A3 (+A5 instances in alias/extension lemmas)", "mimetypes.guess_type total, deterministic",
           "importlib.import_module succeeds for registry modules"]
ASSUMED_MODELS = ["os.path.splitext (uninterpreted, axioms A1-A3)", "mimetypes.guess_type (uninterpreted: any MIME database)",
                  "str.lower (uninterpreted)", "importlib.import_module + getattr (function identity = (module, name))"]
ASSUMPTIONS = ["PY-STR: str as sequence of code points (z3 String)", "PY-EXC", "logger calls dropped (PY-LOG)"]


# ------------------------------------------------------------ policy / tables --
def policy(repo, tier):
    import ast as _ast
    import re
    from pyvc.flow import ground_obligation, dotted
    from pyvc.contracts import Registry
    from pyvc.exctypes import Universe
    REG, ALI, COMP, MIMES = tables(repo)
    r = loader.module(ROUTER, repo)
    obls, fns = [], []
    G = lambda oid, ok, why="": obls.append(ground_obligation(oid, ok, why, "tables", kind="module-invariant", backend="ground"))
    bad = [f"{a}->{b}" for a, b in ALI.items() if b not in REG]
    G("C07/router.py::tables/module-invariant#alias-targets-registered", not bad and len(ALI) > 0, str(bad))
    bad = [f"{a}->{b}" for a, b in COMP.items() if b not in REG]
    G("C07/router.py::tables/module-invariant#compound-targets-registered", not bad and len(COMP) > 0, str(bad))
    bad = [f"{a}->{b}" for a, b in MIMES.items() if b not in REG]
    G("C07/mime_types.py::tables/module-invariant#mime-targets-registered", not bad and len(MIMES) > 0, str(bad))
    bad = [k for k in list(REG) + list(ALI) if not k or k != k.lower() or "." in k or "/" in k]
    G("C07/router.py::tables/module-invariant#keys-lowercase-nonempty-dotfree", not bad, str(bad))
    bad = [k for k in COMP if not k.startswith(".") or k != k.lower() or k.count(".") < 2]
    G("C07/router.py::tables/module-invariant#compound-keys-wellformed", not bad, str(bad))
    bad = [k for k in ALI if k in REG]
    G("C07/router.py::tables/module-invariant#alias-keys-disjoint-from-registry", not bad, str(bad))
    bad = [k for k, v in REG.items() if not (isinstance(v, tuple) and len(v) == 2 and v[0].startswith("sharepoint2text.") and v[1].startswith("read_"))]
    G("C07/router.py::tables/module-invariant#registry-values-are-(module,read_function)", not bad, str(bad))
    # registry targets exist with the named function (AST of the target module)
    bad = []
    rets = {}
    for k, (modpath, fn) in REG.items():
        rel = modpath.replace(".", "/") + ".py"
        try:
            m = loader.module(rel, repo)
        except FileNotFoundError:
            bad.append(f"{k}: {rel} missing")
            continue
        f = m.functions.get(fn)
        if f is None:
            bad.append(f"{k}: {rel}::{fn} missing")
        else:
            rets[k] = _ast.unparse(f.returns) if f.returns is not None else ""
    G("C07/router.py::tables/module-invariant#registry-targets-exist", not bad, str(bad))
    # _SUPPORTED_EXTENSIONS == derived set (module-level initialiser symbolically executed by the engine)
    from pyvc.symex import Executor as _Ex
    ex = _Ex(r, Registry(), Universe(repo))
    ex.sinks.append([])
    v = ex.module_const("_SUPPORTED_EXTENSIONS")
    want = {"." + k for k in REG} | {"." + k for k in ALI} | set(COMP)
    got = set(getattr(v, "items", ()))
    G("C07/router.py::tables/module-invariant#_SUPPORTED_EXTENSIONS-is-derived-set", got == want, f"diff={sorted(got ^ want)}")
    # documentation tables
    def route(ext):   # ext without dot, lower
        for ck, cv in COMP.items():
            if ("x." + ext).endswith(ck):
                return cv
        e = ext.rsplit(".", 1)[-1]
        e = ALI.get(e, e)
        return e if e in REG else None
    readme = open(repo + "/README.md", encoding="utf-8").read()
    sec = readme[readme.index("## Supported Formats"):]
    sec = sec[:sec.index("\n## ", 5)] if "\n## " in sec[5:] else sec
    doc_exts = []
    for line in sec.splitlines():
        if line.startswith("|"):
            cells = line.split("|")
            if len(cells) > 2:
                doc_exts += re.findall(r"`\.([A-Za-z0-9.]+)`", cells[2])
    bad = [e for e in doc_exts if route(e.lower()) is None]
    G("C07/README.md::docs/module-invariant#every-documented-extension-is-routed", not bad and len(doc_exts) >= 50, f"{len(doc_exts)} documented; unrouted={bad}")
    init = loader.module("sharepoint2text/__init__.py", repo)
    rf = init.functions.get("read_file")
    ds = _ast.get_docstring(rf) or ""
    rows = re.findall(r"-\s+\.([a-z0-9]+)\s+->\s+(\w+)", ds)
    bad = []
    for ext, content in rows:
        ft = route(ext)
        if ft is None or content not in rets.get(ft, ""):
            bad.append(f".{ext}->{content} (routes to {ft}: {rets.get(ft)})")
    G("C07/__init__.py::read_file/module-invariant#docstring-extension-to-content-type", not bad and len(rows) >= 15, f"{len(rows)} rows; bad={bad}")
    # dispatch sites reuse the router
    P = lambda oid, ok, why="": obls.append(ground_obligation(oid, ok, why or "call-site shape not recognised", "call-sites", definite=False))
    calls = [n for n in _ast.walk(rf) if isinstance(n, _ast.Call)]
    ge = [n for n in calls if dotted(n.func) == "get_extractor"]
    assigned = [n for n in _ast.walk(rf) if isinstance(n, _ast.Assign) and isinstance(n.value, _ast.Call) and dotted(n.value.func) == "get_extractor"]
    ok = len(ge) == 1 and len(assigned) == 1 and _ast.unparse(ge[0].args[0]) == "str(path)" and init.imports.get("get_extractor", "").endswith("router.get_extractor")
    if ok:
        var = assigned[0].targets[0].id
        uses = [n for n in calls if dotted(n.func) == var]
        stores = [n for n in _ast.walk(rf) if isinstance(n, _ast.Name) and n.id == var and isinstance(n.ctx, _ast.Store)]
        ok = len(uses) == 1 and len(stores) == 1 and len(uses[0].args) == 2 and _ast.unparse(uses[0].args[1]) == "str(path)"
    P("C07/__init__.py::read_file/call-site#dispatches-through-get_extractor(str(path))", ok)
    fns.append(dict(init.fn_info("read_file"), obligations=1))
    arch = loader.module("sharepoint2text/parsing/extractors/archive_extractor.py", repo)
    ok = True
    why = []
    f1, f2, f0 = arch.functions.get("_is_supported_file_cached"), arch.functions.get("_get_file_extractor_cached"), arch.functions.get("_get_router_functions")
    if not (f1 and f2 and f0):
        ok = False
    else:
        imp = [n for n in _ast.walk(f0) if isinstance(n, _ast.ImportFrom)]
        ok = ok and len(imp) == 1 and imp[0].module == "sharepoint2text.parsing.router" and [a.name for a in imp[0].names] == ["get_extractor", "is_supported_file"]
        ret = [n for n in _ast.walk(f0) if isinstance(n, _ast.Return)]
        ok = ok and len(ret) == 1 and _ast.unparse(ret[0].value) in ("(is_supported_file, get_extractor)", "is_supported_file, get_extractor")
        r1 = [n for n in _ast.walk(f1) if isinstance(n, _ast.Return)]
        ok = ok and len(r1) == 1 and _ast.unparse(r1[0].value) == "is_supported_file(filename)" and "is_supported_file, _ = _get_router_functions()" in arch.segment(f1)
        r2 = [n for n in _ast.walk(f2) if isinstance(n, _ast.Return)]
        ok = ok and len(r2) == 1 and _ast.unparse(r2[0].value) == "get_extractor(filename)" and "_, get_extractor = _get_router_functions()" in arch.segment(f2)
        fns.append(dict(arch.fn_info("_get_file_extractor_cached"), obligations=1))
    P("C07/archive_extractor.py::cached-router-wrappers/call-site#members-dispatch-through-router", ok)
    dt = loader.module("sharepoint2text/parsing/extractors/data_types.py", repo)
    att = dt.functions.get("EmailContent.iterate_supported_attachments")
    ok = att is not None
    if ok:
        ges = [n for n in _ast.walk(att) if isinstance(n, _ast.Call) and dotted(n.func) == "get_extractor"]
        imps = [n for n in _ast.walk(att) if isinstance(n, _ast.ImportFrom) and n.module == "sharepoint2text.parsing.router"]
        args = sorted(_ast.unparse(g.args[0]) for g in ges)
        ok = len(imps) == 1 and args == ["attachment.filename", "f'attachment.{file_type}'"]
        fns.append(dict(dt.fn_info("EmailContent.iterate_supported_attachments"), obligations=1))
    P("C07/data_types.py::EmailContent.iterate_supported_attachments/call-site#attachments-dispatch-through-router", ok)
    return {"obligations": obls, "functions": fns}


EXTRA = [policy]

REPLAY_UNKNOWN = True    # undecided / out-of-subset items are searched natively (replay) before being reported UNDECIDED
