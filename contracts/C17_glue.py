"""C17 round 3 -- the glue between container and parser under REAL contracts (symbolic execution of the real AST).

Round 2 decided these facts by matching the shape of the code (one construction of the builder in this very function,
`from .. import X` style, a loop `for r in read_html(..): yield r`, ...), which broke on behaviour-preserving refactorings
(helper extraction, module imports, if/else inversion, `yield from`).  Here the functions are executed symbolically, with
small private helpers of the same module executed in place (`inline_local`), against an ASSUMED abstract model of the
parser / walker objects:

    P = Builder()            ghost event  new(P, class)
    P.feed(x)                ghost event  feed(P, x)        (may raise)
    P.get_tree()             TREE(P)        P.get_text() = GETTEXT(P)
    W = Walker(t); W.extract()   EXTRACT(t)                 (may raise)
    any other use of P (close(), attribute store, passing it on)   ghost event  other(P, what)

and *source texts* (what the container hands over: file_like.read(), ctx.read_text(href), the HTML part found by
_extract_from_mhtml, a decoded / BOM-stripped form of those).  The obligations: the parser is fed exactly one source text,
unmodified, and is never closed; the text that leaves the function is built from EXTRACT(TREE(P)) / GETTEXT(P) and string
constants only (strip / replace are allowed post-processing) -- in particular never from the markup itself.

A refutation here rests on abstract models (uninterpreted functions, havoc of unmodelled calls), so it is never definite:
`post_report` (contracts/C17.py) turns it into `unknown` and the native replayer decides VIOLATION vs UNDECIDED.
"""
import ast

import z3

from pyvc.contracts import FnContract, LoopSpec, Raises
from pyvc.ops import Unsupported
from pyvc.values import NONE, VBool, VExt, VInt, VNoneT, VRef, VSeq, VStr, VTuple, VUnk, ext_sort, fresh_name
from pyvc.verify import Maker

HTML = "sharepoint2text/parsing/extractors/html_extractor.py"
EPUB = "sharepoint2text/parsing/extractors/epub_extractor.py"
MHTML = "sharepoint2text/parsing/extractors/mhtml_extractor.py"
MSG = "sharepoint2text/parsing/extractors/mail/msg_email_extractor.py"
PARSER_CLASSES = ("_HtmlTreeBuilder", "_XhtmlTextExtractor")
GLUE_KW = {"abstract": True, "inline_calls": False, "inline_local": True}

S = z3.StringSort()
ParserS, TreeS, BytesS, BioS, HcS = (ext_sort(n) for n in ("Parser", "Tree", "Bytes", "BytesIO", "HtmlContent"))
TREE = z3.Function("tree_of", ParserS, TreeS)
GETTEXT = z3.Function("get_text_of", ParserS, S)
GETTITLE = z3.Function("get_title_of", ParserS, S)
EXTRACT = z3.Function("walker_extract", TreeS, S)
STRIP = z3.Function("str_strip", S, S)
REPLACE = z3.Function("str_replace", S, S, S, S)
READALL = z3.Function("stream_read_all", BioS, BytesS)
BCUT = z3.Function("bytes_cut_prefix", BytesS, z3.IntSort(), BytesS)
DECODED = z3.Function("bytes_decoded", BytesS, z3.IntSort(), S)
HTMLPART = z3.Function("mhtml_html_part", BytesS, BytesS)
BIO_OF = z3.Function("bytesio_of", BytesS, BioS)
RH_AT = z3.Function("read_html_result", BioS, z3.IntSort(), HcS)
RH_N = z3.Function("read_html_count", BioS, z3.IntSort())
H2T = z3.Function("html_to_text", S, S)                 # msg._html_to_text at its call sites (deterministic: C16 assumes the same)
LLH = z3.Function("looks_like_html", S, z3.BoolSort())  # msg._looks_like_html at its call sites
MsgS = ext_sort("MsgObj")
# round 6: the MIME view of an archive (email.message_from_bytes + _find_html_part), ASSUMED as uninterpreted functions
MimeS = ext_sort("MimeMsg")
MIMEMSG = z3.Function("mime_message_of", BytesS, MimeS)               # email.message_from_bytes(content)
MIME_PARSES = z3.Function("mime_parser_accepts", BytesS, z3.BoolSort())  # ... returns normally
MIME_HAS = z3.Function("mime_has_html_part", MimeS, z3.BoolSort())       # _find_html_part(msg) returns a part (not None, no exception)
MIMEPART = z3.Function("mime_html_part", MimeS, BytesS)                  # that part, decoded
NONEMPTY = z3.Function("bytes_nonempty", BytesS, z3.BoolSort())          # truth value of a byte string
# round 7: the MIME view below `_find_html_part` / `_decode_content` (email.message.Message, ASSUMED: functions of the message object)
CT = z3.Function("mime_content_type", MimeS, S)                          # msg.get_content_type()
MULTI = z3.Function("mime_is_multipart", MimeS, z3.BoolSort())           # msg.is_multipart()
NPARTS = z3.Function("mime_walk_len", MimeS, z3.IntSort())               # len(list(msg.walk()))
PART = z3.Function("mime_walk_at", MimeS, z3.IntSort(), MimeS)           # list(msg.walk())[i]
DEC = z3.Function("mime_decoded_content", MimeS, BytesS)                 # _decode_content(part) at its call sites (verified below)
PKIND = z3.Function("mime_payload_kind", MimeS, z3.IntSort())            # get_payload(decode=False): 0 bytes, 1 str, else neither
PBYTES = z3.Function("mime_payload_bytes", MimeS, BytesS)
PSTR = z3.Function("mime_payload_str", MimeS, S)
HDR = z3.Function("mime_header_or_empty", MimeS, S, S)                   # part.get(name, "")
HeaderS = ext_sort("HeaderObj")
HOBJ = z3.Function("mime_header_object", MimeS, S, HeaderS)               # the Header object `get` returns instead
HTEXT = z3.Function("header_object_as_str", HeaderS, S)                   # str(<Header object>)
DEC_RAISES = z3.Function("mime_decode_content_raises", MimeS, z3.BoolSort())   # _decode_content(part) raises (its own `raises` obligation says: never)
HDR_IS_STR = z3.Function("mime_header_is_str", MimeS, S, z3.BoolSort())  # ... is a str (ASCII-only value or absent), not a Header object
ENC = z3.Function("str_encode_utf8_replace", S, BytesS)
QP = z3.Function("quopri_decodestring", BytesS, BytesS)
QP_OK = z3.Function("quopri_decodestring_returns", BytesS, z3.BoolSort())
B64 = z3.Function("base64_b64decode", BytesS, BytesS)
B64_OK = z3.Function("base64_b64decode_returns", BytesS, z3.BoolSort())
B64WS = z3.Function("bytes_without_whitespace", BytesS, BytesS)          # <whitespace regex>.sub(b"", x)
BLOWER = z3.Function("bytes_lower", BytesS, BytesS)
BHEAD = z3.Function("bytes_head", BytesS, z3.IntSort(), BytesS)          # x[:k]
BODY = z3.Function("msg_body", MsgS, S)
BODY_NONE = z3.Function("msg_body_is_none", MsgS, z3.BoolSort())


# ------------------------------------------------------------------- ghost log --
def log(st, *ev):
    st.ghost["glue"] = st.ghost.get("glue", ()) + (ev,)


def events(st, kind):
    return [e for e in st.ghost.get("glue", ()) if e[0] == kind]


def add_source(st, term):
    st.ghost["sources"] = st.ghost.get("sources", frozenset()) | {term.get_id()}
    st.ghost.setdefault("source_terms", ())
    st.ghost["source_terms"] = st.ghost["source_terms"] + (term,)


def is_source_bytes(st, t):
    """t is a container-provided byte string, possibly with a byte-order mark (<= 4 bytes) cut off."""
    if t.get_id() in st.ghost.get("sources", ()):
        return True
    if z3.is_app(t) and t.decl().name() == "bytes_cut_prefix" and z3.is_int_value(t.arg(1)) and 0 <= t.arg(1).as_long() <= 4:
        return is_source_bytes(st, t.arg(0))
    return False


def is_source_text(st, v):
    """v is a container-provided text, or the decoding of container-provided bytes."""
    if not isinstance(v, VStr):
        return False
    t = v.t
    if t.get_id() in st.ghost.get("sources", ()):
        return True
    return z3.is_app(t) and t.decl().name() == "bytes_decoded" and is_source_bytes(st, t.arg(0))


def text_atoms(t):
    """Leaves of a text term below the allowed post-processing (strip / replace / lstrip / concatenation / if-then-else):
    -> (set of application terms that are not post-processing, bool: only string constants besides them)."""
    atoms, stack = [], [t]
    while stack:
        x = stack.pop()
        if z3.is_string_value(x):
            continue
        if z3.is_app(x):
            name, k = x.decl().name(), x.decl().kind()
            if name in ("str_strip", "str_lstrip"):
                stack.append(x.arg(0))
                continue
            if name == "str_replace":
                stack.extend([x.arg(0), x.arg(1), x.arg(2)])
                continue
            if k == z3.Z3_OP_SEQ_CONCAT:
                stack.extend(x.children())
                continue
            if k == z3.Z3_OP_ITE:
                stack.extend([x.arg(1), x.arg(2)])
                continue
        atoms.append(x)
    return atoms


# ---------------------------------------------------------------------- models --
def new_parser(cls):
    def mk(ex, st, args, kwargs, node):
        p = VExt("Parser")
        log(st, "new", p, cls)
        return [(st, p)]
    return mk


def m_feed(ex, st, obj, args, kwargs, node):
    log(st, "feed", obj, args[0] if len(args) == 1 and not kwargs else VUnk("feed-args"))
    ex.exc_any(st.fork(), f"{ex.loc(node)} parser.feed")      # html.parser may raise: ASSUMED arbitrary
    return [(st, NONE)]


def m_other(name):
    def f(ex, st, obj, args, kwargs, node):
        log(st, "other", obj, f"{name}() at {ex.loc(node)}")
        ex.exc_any(st.fork(), f"{ex.loc(node)} parser.{name}")
        return [(st, VUnk(name))]
    return f


def parser_setattr(ex, st, base, attr, v, node):
    log(st, "other", base, f"attribute {attr} assigned at {ex.loc(node)}")
    return [st]


def new_walker(ex, st, args, kwargs, node):
    w = VExt("Walker")
    tree = args[0] if len(args) == 1 and not kwargs else VUnk("walker-args")
    st.ghost[("walker", w.t.get_id())] = tree
    return [(st, w)]


def m_extract(ex, st, obj, args, kwargs, node):
    ex.exc_any(st.fork(), f"{ex.loc(node)} walker.extract")   # recursive tree walker: may raise (RecursionError, ...)
    tree = st.ghost.get(("walker", obj.t.get_id()))
    if isinstance(tree, VExt) and tree.sort == "Tree":
        return [(st, VStr(EXTRACT(tree.t)))]
    return [(st, VUnk("extract-of-unknown-tree"))]


def m_read(ex, st, obj, args, kwargs, node):
    """io.BytesIO.read(): read() returns the whole stream (ASSUMED: callers seek(0) first / C01), read(n) a part."""
    if args or kwargs:
        return [(st, VUnk("partial-read"))]
    b = VExt("Bytes", READALL(obj.t))
    add_source(st, b.t)
    return [(st, b)]


def m_bytes_decode(ex, st, obj, args, kwargs, node):
    ex.exc_any(st.fork(), f"{ex.loc(node)} bytes.decode")     # LookupError / UnicodeDecodeError
    k = z3.Int(fresh_name("codec"))
    return [(st, VStr(DECODED(obj.t, k)))]


def m_bytes_startswith(ex, st, obj, args, kwargs, node):
    return [(st, VBool(z3.Bool(fresh_name("startswith"))))]


def new_bytesio(ex, st, args, kwargs, node):
    if len(args) == 1 and isinstance(args[0], VExt) and args[0].sort == "Bytes":
        return [(st, VExt("BytesIO", BIO_OF(args[0].t)))]
    b = VExt("BytesIO")
    if not args and not kwargs:
        st.ghost[("bio", b.t.get_id())] = ()        # empty stream: what is written to it, in order
    return [(st, b)]


def m_bio_write(ex, st, obj, args, kwargs, node):
    k = ("bio", obj.t.get_id())
    if k in st.ghost and len(args) == 1:
        st.ghost[k] = st.ghost[k] + (args[0],)
    else:
        st.ghost[("bio-unknown", obj.t.get_id())] = True
    return [(st, VUnk("written"))]


def bio_content(st, a):
    """The bytes term a BytesIO value holds: BytesIO(x) -> x; BytesIO() followed by exactly one write(x) -> x; else None."""
    if not (isinstance(a, VExt) and a.sort == "BytesIO"):
        return None
    if z3.is_app(a.t) and a.t.decl().name() == "bytesio_of":
        return a.t.arg(0)
    w = st.ghost.get(("bio", a.t.get_id()))
    if w is not None and len(w) == 1 and isinstance(w[0], VExt) and w[0].sort == "Bytes" and not st.ghost.get(("bio-unknown", a.t.get_id())):
        return w[0].t
    return None


def new_record(cls):
    """HtmlContent(...) / EpubChapter(...): an abstract record remembering its keyword arguments."""
    def mk(ex, st, args, kwargs, node):
        r = VExt("Record")
        st.ghost[("record", r.t.get_id())] = (cls, dict(kwargs), tuple(args))
        return [(st, r)]
    return mk


def record_of(st, v):
    if isinstance(v, VExt) and v.sort == "Record":
        return st.ghost.get(("record", v.t.get_id()))
    return None


def install(reg):
    for cls in PARSER_CLASSES:
        reg.ext_models[("new", cls)] = new_parser(cls)
    reg.method_models[("Parser", "feed")] = m_feed
    reg.method_models[("Parser", "get_tree")] = lambda ex, st, o, a, k, n: [(st, VExt("Tree", TREE(o.t)))]
    reg.method_models[("Parser", "get_text")] = lambda ex, st, o, a, k, n: [(st, VStr(GETTEXT(o.t)))]
    reg.method_models[("Parser", "get_title")] = lambda ex, st, o, a, k, n: [(st, VStr(GETTITLE(o.t)))]
    reg.method_models[("Parser", "get_tables")] = lambda ex, st, o, a, k, n: [(st, VUnk("tables"))]
    for name in ("close", "reset", "goahead", "set_cdata_mode", "clear_cdata_mode", "handle_starttag", "handle_endtag", "handle_data",
                 "handle_comment", "handle_startendtag", "unknown_decl", "handle_decl", "handle_pi"):
        reg.method_models[("Parser", name)] = m_other(name)
    reg.ext_models[("setattr", "Parser")] = parser_setattr
    reg.ext_models[("new", "_HtmlTextExtractor")] = new_walker
    reg.method_models[("Walker", "extract")] = m_extract
    for a in ("tables", "headings", "links", "metadata"):
        reg.attr_models[("Walker", a)] = (lambda a: lambda ex, st, o: VUnk(f"walker.{a}"))(a)
    reg.method_models[("BytesIO", "read")] = m_read
    reg.method_models[("BytesIO", "seek")] = lambda ex, st, o, a, k, n: [(st, VInt(0))]
    reg.method_models[("BytesIO", "write")] = m_bio_write
    reg.method_models[("Bytes", "decode")] = m_bytes_decode
    reg.method_models[("Bytes", "startswith")] = m_bytes_startswith
    reg.ext_models["io.BytesIO"] = new_bytesio
    reg.ext_models[("new", "io.BytesIO")] = new_bytesio
    reg.ext_models[("new", "BytesIO")] = new_bytesio
    reg.ext_models[("new", "HtmlContent")] = new_record("HtmlContent")
    reg.ext_models[("new", "EpubChapter")] = new_record("EpubChapter")
    reg.ext_models["str.strip"] = lambda ex, st, args, kwargs, node: [(st, VStr(STRIP(args[0].t)))] if len(args) == 1 else \
        [(st, VStr(z3.String(fresh_name("strip"))))]
    reg.ext_models["str.replace"] = lambda ex, st, args, kwargs, node: [(st, VStr(REPLACE(args[0].t, args[1].t, args[2].t)))]
    for nm in ("email.message_from_bytes", "message_from_bytes"):
        reg.ext_models[nm] = m_message_from_bytes
    reg.ext_models[("new", "msg_parser.MsOxMessage")] = new_msg
    reg.ext_models[("new", "MsOxMessage")] = new_msg
    reg.attr_models[("MsgObj", "body")] = None       # placeholder: forking attribute, see C17Executor.get_attr
    del reg.attr_models[("MsgObj", "body")]
    reg.ext_models[("new", "EmailContent")] = new_record("EmailContent")
    reg.method_models[("EpubCtx", "read_text")] = m_read_text
    reg.method_models[("EpubCtx", "exists")] = lambda ex, st, o, a, k, n: [(st, VBool(z3.Bool(fresh_name("exists"))))]
    try:
        install_mime(reg)
    except Exception:  # noqa
        pass


# ---- round 7: email.message.Message as an abstract MIME view (ASSUMED: every method is a total function of the message) ----
def _is_mime(v):
    return isinstance(v, VExt) and v.sort == "MimeMsg"


def m_mime_walk(ex, st, o, a, k, n):
    st.assume(NPARTS(o.t) >= 0)
    return [(st, VSeq(NPARTS(o.t), lambda i, m=o.t: VExt("MimeMsg", PART(m, i)), ("ext", "MimeMsg"), tag=("mime_walk", o.t)))]


def m_mime_get_payload(ex, st, o, a, k, n):
    d = k.get("decode", a[1] if len(a) > 1 else None)
    if (a and not isinstance(a[0], VNoneT)) or (d is not None and not (isinstance(d, VBool) and z3.is_false(z3.simplify(d.t)))):
        ex.exc_any(st.fork(), f"{ex.loc(n)} get_payload with an index / decode=True")
        return [(st, VUnk("payload"))]
    kd = PKIND(o.t)
    out = []
    for cond, v in ((kd == 0, VExt("Bytes", PBYTES(o.t))), (kd == 1, VStr(PSTR(o.t))), (z3.And(kd != 0, kd != 1), NONE)):
        s2 = st.fork().assume(cond)
        if ex.feasible(s2.pc):
            out.append((s2, v))
    return out


def m_mime_get(ex, st, o, a, k, n):
    """part.get(name, ""): the header value as a str -- or, for a value with non-ASCII bytes, an `email.header.Header` OBJECT
    (compat32 policy; validated natively: `message_from_bytes(b"X: 8bit\\xe9\\n\\n").get("X")`), which is not a str."""
    if len(a) == 2 and isinstance(a[0], VStr) and isinstance(a[1], VStr) and a[1].const() == "" and not k:
        out = []
        for cond, v in ((HDR_IS_STR(o.t, a[0].t), VStr(HDR(o.t, a[0].t))), (z3.Not(HDR_IS_STR(o.t, a[0].t)), VExt("HeaderObj", HOBJ(o.t, a[0].t)))):
            s2 = st.fork().assume(cond)
            if ex.feasible(s2.pc):
                out.append((s2, v))
        return out
    return [(st, VUnk("header"))]


def m_header_obj_str_method(ex, st, o, a, k, n):
    ex.raise_in(st, ex.mk_exc("AttributeError"))          # a Header object has none of the str methods
    return []


def m_str_encode(ex, st, args, kwargs, node):
    s, rest = args[0], args[1:]
    enc = rest[0] if rest else kwargs.get("encoding")
    err = rest[1] if len(rest) > 1 else kwargs.get("errors")
    if isinstance(s, VStr) and isinstance(enc, VStr) and enc.const() in ("utf-8", "utf8", "UTF-8") and isinstance(err, VStr) and err.const() == "replace":
        return [(st, VExt("Bytes", ENC(s.t)))]             # total: errors="replace" never raises
    ex.exc_any(st.fork(), f"{ex.loc(node)} str.encode")
    return [(st, VExt("Bytes"))]


def m_partial_decoder(fn, ok, what):
    """quopri.decodestring / base64.b64decode: a partial function of the bytes -- returns fn(b) when ok(b), raises otherwise."""
    def f(ex, st, args, kwargs, node):
        if len(args) == 1 and not kwargs and isinstance(args[0], VExt) and args[0].sort == "Bytes":
            b = args[0].t
            bad = st.fork().assume(z3.Not(ok(b)))
            if ex.feasible(bad.pc):
                ex.raise_in(bad, ex.mk_exc("ValueError"))       # binascii.Error is a ValueError; a modelled outcome, not an unknown call
            st.assume(ok(b))
            return [(st, VExt("Bytes", fn(b)))] if ex.feasible(st.pc) else []
        ex.exc_any(st.fork(), f"{ex.loc(node)} {what}")
        return [(st, VExt("Bytes"))]
    return f


def m_ws_sub(ex, st, o, a, k, n):
    from pyvc.values import VBytes
    if len(a) == 2 and not k and isinstance(a[0], VBytes) and not a[0].items and isinstance(a[1], VExt) and a[1].sort == "Bytes":
        return [(st, VExt("Bytes", B64WS(a[1].t)))]
    ex.exc_any(st.fork(), f"{ex.loc(n)} regex sub")
    return [(st, VExt("Bytes"))]


def base64_ws_regex_name(repo=None):
    """The module-level regex `_decode_content` uses as `<name>.sub(b"", x)` (found by role: a rename re-verifies)."""
    try:
        from pyvc import loader
        mod = loader.module(MHTML, repo)
        fn = mod.functions.get("_decode_content")
        names = set()
        for x in ast.walk(fn) if fn is not None else ():
            if isinstance(x, ast.Call) and isinstance(x.func, ast.Attribute) and x.func.attr == "sub" and isinstance(x.func.value, ast.Name) \
                    and len(x.args) == 2 and isinstance(x.args[0], ast.Constant) and x.args[0].value == b"":
                names.add(x.func.value.id)
        if len(names) != 1:
            return None
        name = names.pop()
        for x in mod.tree.body:
            if isinstance(x, ast.Assign) and len(x.targets) == 1 and isinstance(x.targets[0], ast.Name) and x.targets[0].id == name \
                    and isinstance(x.value, ast.Call) and ast.unparse(x.value.func) in ("re.compile", "compile") and x.value.args \
                    and isinstance(x.value.args[0], ast.Constant) and isinstance(x.value.args[0].value, bytes):
                import re as _re
                pat = _re.compile(x.value.args[0].value)
                # it must remove whitespace only: every run of whitespace matches completely, nothing else does
                if pat.sub(b"", b" a\r\n\tb \n") == b"ab" and pat.sub(b"", b"QUJD+/=09") == b"QUJD+/=09":
                    return name
    except Exception:  # noqa
        pass
    return None


def install_mime(reg):
    reg.method_models[("MimeMsg", "get_content_type")] = lambda ex, st, o, a, k, n: [(st, VStr(CT(o.t)))]
    reg.method_models[("MimeMsg", "is_multipart")] = lambda ex, st, o, a, k, n: [(st, VBool(MULTI(o.t)))]
    reg.method_models[("MimeMsg", "walk")] = m_mime_walk
    reg.method_models[("MimeMsg", "get_payload")] = m_mime_get_payload
    reg.method_models[("MimeMsg", "get")] = m_mime_get
    for nm in ("lower", "upper", "strip", "casefold", "startswith", "endswith", "split"):
        reg.method_models[("HeaderObj", nm)] = m_header_obj_str_method
    reg.method_models[("Bytes", "lower")] = lambda ex, st, o, a, k, n: [(st, VExt("Bytes", BLOWER(o.t)))]
    reg.ext_models["str.encode"] = m_str_encode
    reg.ext_models["quopri.decodestring"] = m_partial_decoder(QP, QP_OK, "quopri.decodestring")
    reg.ext_models["base64.b64decode"] = m_partial_decoder(B64, B64_OK, "base64.b64decode")
    nm = base64_ws_regex_name()
    if nm is not None:
        reg.module_consts[(MHTML, nm)] = VExt("WsRe")
        reg.method_models[("WsRe", "sub")] = m_ws_sub


def m_message_from_bytes(ex, st, args, kwargs, node):
    """email.message_from_bytes(b): the MIME tree of b (ASSUMED: a function of the bytes); raises exactly when not MIME_PARSES(b)."""
    if len(args) == 1 and not kwargs and isinstance(args[0], VExt) and args[0].sort == "Bytes":
        b = args[0].t
        bad = st.fork().assume(z3.Not(MIME_PARSES(b)))
        if ex.feasible(bad.pc):
            ex.exc_any(bad, f"{ex.loc(node)} message_from_bytes")
        st.assume(MIME_PARSES(b))
        return [(st, VExt("MimeMsg", MIMEMSG(b)))]
    ex.exc_any(st.fork(), f"{ex.loc(node)} message_from_bytes")
    return [(st, VExt("MimeMsg"))]


def new_msg(ex, st, args, kwargs, node):
    ex.exc_any(st.fork(), f"{ex.loc(node)} MsOxMessage()")      # OLE parsing may fail
    m = VExt("MsgObj")
    st.ghost["msgs"] = st.ghost.get("msgs", ()) + (m,)
    return [(st, m)]


def msg_body(ex, st, obj):
    """msg.body: None or the body string (ASSUMED view of msg_parser) -> [(state, V)]."""
    a = st.fork().assume(BODY_NONE(obj.t))
    b = st.assume(z3.Not(BODY_NONE(obj.t)))
    return [(a, NONE), (b, VStr(BODY(obj.t)))]


def m_read_text(ex, st, obj, args, kwargs, node):
    ex.exc_any(st.fork(), f"{ex.loc(node)} ctx.read_text")
    t = VStr(z3.String(fresh_name("content_document")))
    add_source(st, t.t)
    return [(st, t)]


# ------------------------------------------------------------------ obligations --
def verifying(c):
    return getattr(c.ex, "entry_ctx", None) is not None and c.args is c.ex.entry_ctx.args


def the_parser(st, cls=None):
    """The one parser object this execution constructed (None if not exactly one / wrong class)."""
    news = events(st, "new")
    if len(news) != 1 or (cls is not None and news[0][2] != cls):
        return None
    return news[0][1]


def fed_once_with_source(c, cls, only_param=None):
    return fed_ok(c.st, cls, only_param)


def fed_ok(st, cls, only_param=None):
    """One parser of class `cls`, fed exactly once, with a source text (or exactly `only_param`), nothing else done to it."""
    p = the_parser(st, cls)
    if p is None:
        return z3.BoolVal(False)
    feeds = [e for e in events(st, "feed") if isinstance(e[1], VExt) and e[1].t.eq(p.t)]
    others = [e for e in events(st, "other")]
    if len(feeds) != 1 or len(events(st, "feed")) != 1 or others:
        return z3.BoolVal(False)
    v = feeds[0][2]
    if only_param is not None:
        return z3.BoolVal(isinstance(v, VStr) and v.t.eq(only_param.t))
    return z3.BoolVal(is_source_text(st, v))


def text_from_parser(st, v, p, allow):
    """v is a text built only from the parser's output terms in `allow` (names of functions applied to p / TREE(p)) and constants."""
    if not isinstance(v, VStr) or p is None:
        return False
    atoms = text_atoms(v.t)
    good = False
    for a in atoms:
        if not z3.is_app(a):
            return False
        n = a.decl().name()
        if n == "walker_extract" and "extract" in allow and a.arg(0).eq(TREE(p.t)):
            good = True
        elif n.startswith("fn_of_tree:") and "extract" in allow and all(x.eq(TREE(p.t)) for x in a.children()):
            good = True          # some other rendering of the same tree (module-level helper applied to the tree only)
        elif n == "get_text_of" and "get_text" in allow and a.arg(0).eq(p.t):
            good = True
        else:
            return False
    return good


def contracts():
    P_STR = Maker(lambda ex, st, name: VStr(z3.String(name)), desc="str")
    P_BIO = Maker(lambda ex, st, name: VExt("BytesIO", z3.Const(name, BioS)), desc="io.BytesIO")
    P_UNK = Maker(lambda ex, st, name: VUnk(name), desc="any", default=lambda ex, st: VUnk("default"))
    out = []

    # -- msg._html_to_text -------------------------------------------------------------------------------------------
    def h2t_fed(c):
        if not verifying(c):
            return z3.BoolVal(True)
        return fed_once_with_source(c, "_HtmlTreeBuilder", only_param=c.args["html_text"])

    def h2t_text(c):
        if not verifying(c):
            return z3.BoolVal(True)
        r = c.result
        if isinstance(r, VStr) and not any(a.eq(c.args["html_text"].t) for a in text_atoms(r.t)) \
                and text_from_parser(c.st, r, the_parser(c.st, "_HtmlTreeBuilder"), ("extract",)):
            return z3.BoolVal(True)
        return z3.BoolVal(False)

    def h2t_no_markup(c):
        if not verifying(c):
            return z3.BoolVal(True)
        r = c.result
        return z3.BoolVal(isinstance(r, VStr) and not any(a.eq(c.args["html_text"].t) for a in text_atoms(r.t)))
    out.append(FnContract(
        target=f"{MSG}::_html_to_text", params=[("html_text", P_STR)],
        ensures=[("the-shared-builder-is-fed-the-body-unmodified-and-never-closed", h2t_fed),
                 ("the-markup-itself-is-never-returned-as-text", h2t_no_markup),
                 ("text-is-the-rendering-by-the-walker-of-the-tree-the-builder-filled", lambda c: z3.Or(z3.Not(h2t_no_markup(c)), h2t_text(c)))],
        raises=[Raises("Exception", sub=True, label="totality is C16's assumption, not C17's subject")],
        result_maker=lambda ex, st, ctx: VStr(H2T(ctx.args["html_text"].t)) if isinstance(ctx.args.get("html_text"), VStr) else VStr(z3.String(fresh_name("html_to_text"))),
        note="one _HtmlTreeBuilder, fed the parameter, never closed; result = strip/replace of a rendering of the tree",
    ))

    # -- html.read_html (generator) --------------------------------------------------------------------------------------
    def rh_result(ex, st, ctx):
        a = ctx.args.get("file_like")
        bio = a.t if isinstance(a, VExt) and a.sort == "BytesIO" else z3.Const(fresh_name("stream"), BioS)
        log(st, "read_html", a)
        st.assume(RH_N(bio) >= 0)
        return VSeq(RH_N(bio), lambda i: VExt("HtmlContent", RH_AT(bio, i)), ("ext", "HtmlContent"), tag=("read_html", bio))

    def empty_result(st, y):
        rec = record_of(st, y)
        return rec is not None and rec[0] == "HtmlContent" and isinstance(rec[1].get("content"), VStr) and rec[1]["content"].const() == ""

    def rh_yield(ex, st, y):
        """At every yield: HtmlContent(content=<text from the one parser, fed the source>) or HtmlContent(content="")."""
        if empty_result(st, y):
            return z3.BoolVal(True)
        rec = record_of(st, y)
        if rec is None or rec[0] != "HtmlContent":
            return z3.BoolVal(False)
        return z3.And(fed_ok(st, "_HtmlTreeBuilder"),
                      z3.BoolVal(text_from_parser(st, rec[1].get("content"), the_parser(st, "_HtmlTreeBuilder"), ("extract",))))

    def rh_fed(c):
        if not verifying(c):
            return z3.BoolVal(True)
        st = c.st
        ys = st.ghost.get("yields", ())
        if all(empty_result(st, y) for y in ys) and not events(st, "other") and not st.ghost.get("yield_count_unknown"):
            return z3.BoolVal(True)          # nothing but an empty result leaves: how far parsing got does not matter
        return fed_once_with_source(c, "_HtmlTreeBuilder")
    rh = FnContract(
        target=f"{HTML}::read_html", params=[("file_like", P_BIO), ("path", P_UNK)], generator=True,
        ensures=[("the-builder-is-fed-the-decoded-document-unmodified-and-never-closed", rh_fed)],
        raises=[Raises("Exception", sub=True, label="failure surface is C01's obligation")],
        result_maker=rh_result,
    )
    rh.yield_check = ("content-is-the-rendering-by-the-walker-of-the-tree-the-builder-filled-(or-empty)", rh_yield)
    out.append(rh)

    # -- mhtml.read_mhtml (generator) --------------------------------------------------------------------------------------
    def mh_part(ex, st, ctx):
        a = ctx.args.get("content")
        if isinstance(a, VExt) and a.sort == "Bytes":
            t = HTMLPART(a.t)
        else:
            t = z3.Const(fresh_name("html_part"), BytesS)
        st.ghost["mhtml_part_arg"] = st.ghost.get("mhtml_part_arg", ()) + (a,)
        add_source(st, t)
        return VExt("Bytes", t)
    # round 6: _extract_from_mhtml itself under contract -- WHICH of its strategies decides.  The MIME parser knows the archive's
    # real boundary; the header scan / raw-HTML search only guess where the part ends (any line of boundary characters after
    # `--` ends it: a ruler of dashes in a comment, `--x:` in a style sheet).  So whenever the MIME parser finds a non-empty
    # HTML part in the whole archive, that part is the result -- whatever the size of the archive, whatever else is tried.
    def mime_find(c):
        m = c.args.get("msg")
        if isinstance(m, VExt) and m.sort == "MimeMsg":
            return [(z3.Not(MIME_HAS(m.t)), NONE), (MIME_HAS(m.t), VExt("Bytes", MIMEPART(m.t)))]
        return [(z3.Bool(fresh_name("no_part")), NONE), (z3.BoolVal(True), VExt("Bytes"))]

    def mime_find_raises(c):
        m = c.args.get("msg")
        return z3.Not(MIME_HAS(m.t)) if isinstance(m, VExt) and m.sort == "MimeMsg" else z3.BoolVal(True)
    out.append(FnContract(
        target=f"{MHTML}::_find_html_part", params=[("msg", P_UNK)], assumed=True, returns=mime_find,
        raises=[Raises("Exception", sub=True, when=mime_find_raises, label="no part found that way")],
        note="ASSUMED (MIME decoding is not C17's subject): the decoded text/html part of the MIME tree, or None",
    ))

    def xm_mime_first(c):
        a = c.args["content"]
        m = MIMEMSG(a.t)
        found = z3.And(MIME_PARSES(a.t), MIME_HAS(m), NONEMPTY(MIMEPART(m)))
        r = c.result
        if isinstance(r, VExt) and r.sort == "Bytes":
            return z3.Implies(found, r.t == MIMEPART(m))
        return z3.Not(found)
    out.append(FnContract(
        target=f"{MHTML}::_extract_from_mhtml", params=[("content", Maker(lambda ex, st, name: VExt("Bytes", z3.Const(name, BytesS)), desc="bytes"))],
        ensures=[("the-html-part-the-MIME-parser-finds-in-the-whole-archive-is-the-result-(guessing-scans-only-when-it-finds-none)", xm_mime_first)],
        raises=[Raises("Exception", sub=True, label="failure surface is C01's obligation")],
    ))
    out.append(FnContract(
        target=f"{MHTML}::_extract_from_mhtml", params=[("content", P_UNK)], assumed=True,
        returns=lambda c: [(z3.Bool(fresh_name("no_html_part")), NONE), (z3.BoolVal(True), mh_part(c.ex, c.st, c))],
        note="ASSUMED (MIME decoding is not C17's subject): the HTML part of the archive, or None",
    ))

    # -- round 7: mhtml._find_html_part and mhtml._decode_content VERIFIED over the abstract MIME view ------------------------
    # What C17 needs from them ("takes nothing else with it"): the document handed to the parser is the COMPLETE decoded html
    # part -- the first text/html part in walk order, never a slice / lower-cased probe of it, never missed when there is one.
    HTML_CT = z3.StringVal("text/html")
    P_MIME = Maker(lambda ex, st, name: VExt("MimeMsg", z3.Const(name, MimeS)), desc="email.message.Message (abstract MIME view)")

    def fhp_result(c):
        if not verifying(c):
            return z3.BoolVal(True)
        m, r = c.args["msg"].t, c.result
        n = NPARTS(m)
        j = z3.Int(fresh_name("jpart"))
        none_before = lambda k: z3.Implies(z3.And(j >= 0, j < k), CT(PART(m, j)) != HTML_CT)      # j fresh: for all j
        if isinstance(r, VNoneT):
            return z3.And(CT(m) != HTML_CT, z3.Implies(MULTI(m), none_before(n)))
        if isinstance(r, VExt) and r.sort == "Bytes" and z3.is_app(r.t) and r.t.decl().eq(DEC):
            x = r.t.arg(0)
            if x.eq(m):
                return z3.Or(CT(m) == HTML_CT, z3.And(z3.Not(MULTI(m)), z3.Implies(MULTI(m), none_before(n))))
            if z3.is_app(x) and x.decl().eq(PART) and x.arg(0).eq(m):
                k = x.arg(1)
                return z3.And(CT(m) != HTML_CT, MULTI(m), k >= 0, k < n, CT(PART(m, k)) == HTML_CT, none_before(k))
        if isinstance(r, VUnk) and str(r.tag).startswith("havoc:"):
            # round 8: a loop variable the executor HAVOCKED at a loop cut is a value it lost, not a value known to be wrong:
            # answering False here turned the single-exit rewrite (`found = ..; break`, `return found`) into a definite refutation
            raise Unsupported(f"result of _find_html_part is a loop variable cut by the loop rule ({r.tag})")
        return z3.BoolVal(False)          # anything else (a slice, a lower-cased copy, another value) is not the part

    def fhp_inv(lc, jq):
        m = lc.entry.lookup("msg")
        if not _is_mime(m):
            raise Unsupported("loop over something else than the parts of `msg`")
        tg = getattr(lc.seq, "tag", None)
        if not (isinstance(tg, tuple) and tg and tg[0] == "mime_walk" and tg[1].eq(m.t)):
            raise Unsupported("loop over something else than msg.walk()")
        return z3.Implies(z3.And(jq >= 0, jq < lc.i), CT(PART(m.t, jq)) != HTML_CT)
    fhp = FnContract(
        target=f"{MHTML}::_find_html_part", params=[("msg", P_MIME)],
        ensures=[("result-is-the-complete-decoded-first-text/html-part-(None-only-when-there-is-none)", fhp_result)],
        raises=[Raises("Exception", sub=True, label="only what _decode_content raises on the part it is given (that callee's own obligation)",
                       when=lambda c: z3.Or([p_ for p_ in c.st.pc if z3.is_app(p_) and p_.decl().eq(DEC_RAISES)] + [z3.BoolVal(False)]))],
        total=True,
        note="VERIFIED (round 7) over the abstract MIME view; the ASSUMED registration below is the call-site view of _extract_from_mhtml: "
             "the verified clause makes the result a function of the message (MIME_HAS / MIMEPART are definable from it), which is all it states",
    )
    try:
        from pyvc import loader as _loader
        fn = _loader.module(MHTML).functions.get("_find_html_part")
        fors = [x for x in ast.walk(fn) if isinstance(x, ast.For)] if fn is not None else []
        for k in range(len(fors)):
            fhp.loops[k] = LoopSpec(inv_point=fhp_inv, label=f"no-html-part-before-index-i#{k}")
    except Exception:  # noqa
        pass
    out.append(fhp)
    # the ASSUMED call-site view registered above must stay the LAST registration of the target (call sites use the last one)
    for old in [x for x in out if x.target == fhp.target and x.assumed]:
        out.remove(old)
        out.append(old)

    def dc_result(c):
        if not verifying(c):
            return z3.BoolVal(True)
        from contracts.C17 import LOWER
        from pyvc.values import VBytes
        m, r = c.args["part"].t, c.result
        pb = ENC(PSTR(m))
        cte = z3.StringVal("Content-Transfer-Encoding")
        enc = LOWER(z3.If(HDR_IS_STR(m, cte), HDR(m, cte), HTEXT(HOBJ(m, cte))))
        qp, b64 = enc == z3.StringVal("quoted-printable"), enc == z3.StringVal("base64")
        kd = PKIND(m)
        if isinstance(r, VBytes) and not r.items:
            return z3.And(kd != 0, kd != 1)
        if isinstance(r, VExt) and r.sort == "Bytes":
            t = r.t
            ws = B64WS(pb)
            return z3.Or(z3.And(kd == 0, t == PBYTES(m)),
                         z3.And(kd == 1, qp, z3.If(QP_OK(pb), t == QP(pb), t == pb)),
                         z3.And(kd == 1, z3.Not(qp), b64, z3.If(B64_OK(ws), t == B64(ws), t == pb)),
                         z3.And(kd == 1, z3.Not(qp), z3.Not(b64), t == pb))
        return z3.BoolVal(False)
    out.append(FnContract(
        target=f"{MHTML}::_decode_content", params=[("part", P_MIME)],
        ensures=[("the-complete-payload-decoded-by-its-transfer-encoding-(undecodable:-the-payload-itself,-never-a-part-of-it)", dc_result)],
        total=True,
        note="VERIFIED (round 7): bytes payload unchanged; str payload utf-8 encoded then quoted-printable / base64 decoded as the header says",
    ))
    out.append(FnContract(
        target=f"{MHTML}::_decode_content", params=[("part", P_UNK)], assumed=True,
        returns=lambda c: VExt("Bytes", DEC(c.args["part"].t)) if _is_mime(c.args.get("part")) else VExt("Bytes"),
        raises=[Raises("Exception", sub=True, when=lambda c: DEC_RAISES(c.args["part"].t) if _is_mime(c.args.get("part")) else z3.BoolVal(True),
                       label="whatever the real body raises: its own `raises` obligation (verified registration) says never")],
        note="call-site view of the verified contract above: a function of the part (DEC abbreviates the verified case analysis; DEC_RAISES is "
             "uninterpreted: that it is false is the verified registration's `raises` obligation, refuted on the library HEAD -- recorded finding)",
    ))

    def mh_calls(c):
        if not verifying(c):
            return z3.BoolVal(True)
        st = c.st
        calls = events(st, "read_html")
        src = c.args["file_like"]
        whole = READALL(src.t)
        for a in st.ghost.get("mhtml_part_arg", ()):
            if not (isinstance(a, VExt) and a.sort == "Bytes" and a.t.eq(whole)):
                return z3.BoolVal(False)          # the part is searched in something else than the whole file
        for e in calls:
            a = e[1]
            held = bio_content(st, a)
            ok = held is not None and held.eq(HTMLPART(whole))
            if not ok:
                return z3.BoolVal(False)
        return z3.BoolVal(len(calls) <= 1)

    def mh_yield(ex, st, y):
        calls = events(st, "read_html")
        if empty_result(st, y):
            return z3.BoolVal(True)
        return z3.BoolVal(isinstance(y, VExt) and y.sort == "HtmlContent" and z3.is_app(y.t) and y.t.decl().name() == "read_html_result"
                          and len(calls) == 1 and isinstance(calls[0][1], VExt) and y.t.arg(0).eq(calls[0][1].t))
    mh = FnContract(
        target=f"{MHTML}::read_mhtml", params=[("file_like", P_BIO), ("path", P_UNK)], generator=True,
        ensures=[("read_html-gets-the-html-part-of-the-whole-file-unmodified", mh_calls)],
        raises=[Raises("Exception", sub=True, label="failure surface is C01's obligation")],
    )
    mh.yield_check = ("only-what-read_html-yields-(or-an-empty-result)", mh_yield)
    out.append(mh)

    # -- epub._extract_chapter -----------------------------------------------------------------------------------------------
    def ch_fed(c):
        if not verifying(c):
            return z3.BoolVal(True)
        ch = chapter_of(c)
        if ch is None:
            return z3.BoolVal(not events(c.st, "other"))       # no chapter leaves
        return fed_once_with_source(c, "_XhtmlTextExtractor")

    def chapter_of(c):
        r = c.result
        first = r.items[0] if isinstance(r, VTuple) and r.items else r
        if isinstance(first, VNoneT):
            return None
        return record_of(c.st, first) or ("?", {}, ())

    def ch_text(c):
        if not verifying(c):
            return z3.BoolVal(True)
        ch = chapter_of(c)
        if ch is None:
            return z3.BoolVal(True)
        if ch[0] != "EpubChapter":
            return z3.BoolVal(False)
        return z3.BoolVal(text_from_parser(c.st, ch[1].get("text"), the_parser(c.st, "_XhtmlTextExtractor"), ("get_text",)))
    out.append(FnContract(
        target=f"{EPUB}::_extract_chapter",
        params=[("ctx", Maker(lambda ex, st, name: VExt("EpubCtx"), desc="_EpubContext")), ("item_id", P_STR),
                ("chapter_number", Maker(lambda ex, st, name: VInt(z3.Int(name)), desc="int")),
                ("image_counter", Maker(lambda ex, st, name: VInt(z3.Int(name)), desc="int"))],
        ensures=[("the-extractor-is-fed-the-content-document-unmodified-and-never-closed", ch_fed),
                 ("chapter-text-is-get_text()-of-the-fresh-extractor", ch_text)],
        raises=[Raises("Exception", sub=True, label="failure surface is C01's obligation")],
    ))
    # -- msg.read_msg_format_mail: an HTML body reaches the result only through _html_to_text ------------------------------
    def route_yield(ex, st, y):
        rec = record_of(st, y)
        msgs = st.ghost.get("msgs", ())
        if rec is None or rec[0] != "EmailContent" or len(msgs) != 1:
            return z3.BoolVal(False)
        bp = rec[1].get("body_plain")
        if not isinstance(bp, VStr):
            return z3.BoolVal(False)
        m = msgs[0].t
        raw = z3.If(BODY_NONE(m), z3.StringVal(""), BODY(m))
        return z3.Implies(LLH(raw), bp.t == H2T(raw))
    unk = Maker(lambda ex, st, n: VUnk(n), desc="any")
    for helper, prm in (("_parse_multi_recipients", "raw"), ("_extract_msg_attachments", "file_bytes")):
        out.append(FnContract(target=f"{MSG}::{helper}", params=[(prm, unk)], assumed=True, may_raise_any=True,
                              result_maker=lambda ex, st, ctx: VUnk("helper-result"), note="not C17's subject: any value, may raise"))
    rm = FnContract(
        target=f"{MSG}::read_msg_format_mail", params=[("file_like", P_BIO), ("path", P_UNK)], generator=True,
        raises=[Raises("Exception", sub=True, label="failure surface is C01's obligation")],
    )
    rm.yield_check = ("a-body-recognised-as-HTML-reaches-body_plain-only-through-_html_to_text", route_yield)
    out.append(rm)
    return out


TARGETS = (f"{MSG}::read_msg_format_mail", f"{MSG}::_html_to_text", f"{HTML}::read_html", f"{MHTML}::read_mhtml", f"{EPUB}::_extract_chapter",
           f"{MHTML}::_extract_from_mhtml")
