"""C14: program slices and AST dataflow over the real extractor functions.

`slice_to(fn, sink_arg, ...)` computes the backward slice of an expression inside a real function:
the real assignment statements (copied, in source order) that define the names the expression uses,
stopping at *sources* (function parameters, loop targets, values read from relationship / XML
attribute lookups).  The slice is turned into a function definition whose parameters are the
sources, and is then symbolically executed by the engine like any other function under contract
(calls of repo functions use their contracts or are inlined).  A shape the slicer does not
understand gives `None` (the obligation is then UNDECIDED, never a violation).
"""
from __future__ import annotations

import ast
import copy

from pyvc.flow import dotted
from contracts.c14_inline import line_of as LN


def pos(n):
    return (n.lineno, n.col_offset)


def parent_map(fn):
    pm = {}
    for n in ast.walk(fn):
        for ch in ast.iter_child_nodes(n):
            pm[ch] = n
    return pm


def enclosing_stmt(pm, n):
    while n is not None and not isinstance(n, ast.stmt):
        n = pm.get(n)
    return n


def ancestors(pm, n):
    out = []
    n = pm.get(n)
    while n is not None:
        out.append(n)
        n = pm.get(n)
    return out


class Binding:
    def __init__(self, kind, node, value=None):
        self.kind, self.node, self.value = kind, node, value    # kind: param | for | assign | walrus | with | other


def bindings_of(fn, name):
    out = []
    for a in fn.args.args + fn.args.kwonlyargs + fn.args.posonlyargs:
        if a.arg == name:
            out.append(Binding("param", fn))
    for n in ast.walk(fn):
        if isinstance(n, ast.Assign):
            for t in n.targets:
                if isinstance(t, ast.Name) and t.id == name:
                    out.append(Binding("assign", n, n.value))
                elif isinstance(t, (ast.Tuple, ast.List)) and any(isinstance(e, ast.Name) and e.id == name for e in ast.walk(t)):
                    plain = len(n.targets) == 1 and all(isinstance(e, ast.Name) for e in t.elts)
                    out.append(Binding("unpack" if plain else "other", n, n.value))
        elif isinstance(n, ast.AnnAssign) and isinstance(n.target, ast.Name) and n.target.id == name and n.value is not None:
            out.append(Binding("assign", n, n.value))
        elif isinstance(n, ast.AugAssign) and isinstance(n.target, ast.Name) and n.target.id == name:
            out.append(Binding("other", n))
        elif isinstance(n, ast.NamedExpr) and n.target.id == name:
            out.append(Binding("walrus", n, n.value))
        elif isinstance(n, (ast.For, ast.comprehension)):
            if any(isinstance(e, ast.Name) and e.id == name for e in ast.walk(n.target)):
                out.append(Binding("for", n, n.iter))
        elif isinstance(n, ast.With):
            for it in n.items:
                if it.optional_vars is not None and any(isinstance(e, ast.Name) and e.id == name for e in ast.walk(it.optional_vars)):
                    out.append(Binding("with", n))
        elif isinstance(n, ast.ExceptHandler) and n.name == name:
            out.append(Binding("other", n))
    return out


def reaching(fn, pm, name, at, _depth=0):
    """The binding of `name` that reaches node `at`: the nearest preceding binding, provided it sits in a block that
    encloses `at` (so that it dominates `at` unless re-bound in between, which `nearest` rules out) and no other binding
    of the name lies between it and `at` in a non-enclosing branch.  None: not decidable by this rule."""
    bs = bindings_of(fn, name)
    if not bs:
        return None
    at_pos = pos(at)
    anc = set(id(a) for a in ancestors(pm, at))
    prior = [b for b in bs if b.kind == "param" or pos(b.node) < at_pos]
    if not prior:
        return None

    def key(b):
        return (-1, -1) if b.kind == "param" else pos(b.node)
    prior.sort(key=key)
    best = prior[-1]
    if best.kind == "param":
        return best if len(prior) == 1 else None
    st = best.node if isinstance(best.node, ast.stmt) else enclosing_stmt(pm, best.node)
    if best.kind == "for":
        # loop target: reaches `at` only inside the loop body
        if id(best.node) in anc or isinstance(best.node, ast.comprehension):
            return best
        return None
    # the statement must be in a block that is an ancestor block of `at`
    par = pm.get(st)
    if par is not None and (id(par) in anc or par is fn):
        # a later binding inside the loop that encloses both would also reach `at` on the next iteration: require none
        later = [b for b in bs if b.kind != "param" and pos(b.node) > at_pos]
        for b in later:
            loops_b = [a for a in ancestors(pm, b.node) if isinstance(a, (ast.For, ast.While))]
            if any(id(l) in anc for l in loops_b) and not any(id(l) in set(id(a) for a in ancestors(pm, st)) for l in loops_b if id(l) in anc):
                return None
        return best
    return _reaching_through_guard(fn, pm, name, at, best, _depth)


def _says_not_none(test, x, positive=True):
    t = ast.unparse(test).replace("(", "").replace(")", "")
    pos_forms = (f"{x} is not None", f"{x}", f"not {x} is None", f"{x} != None")
    neg_forms = (f"{x} is None", f"not {x}", f"not {x} is not None", f"{x} == None")
    return t in (pos_forms if positive else neg_forms)


def _reaching_through_guard(fn, pm, name, at, best, depth=0):
    """The nearest binding `best` of `name` sits in a branch that does not enclose `at`.  It still is THE definition seen at `at` when
    `at` only runs under a guard `X is not None`, X is assigned on every branch of one conditional that precedes `at` in an enclosing
    block (so X is fresh in every iteration), and `best` reaches every place where X gets a value other than None."""
    if depth > 2 or len([b for b in bindings_of(fn, name) if b.kind != "param"]) != 1:
        return None
    chain = [at] + ancestors(pm, at)
    guards = []
    for child, a in zip(chain, chain[1:]):
        if isinstance(a, ast.If):
            in_body = any(child is x for x in a.body)
            for x in {n.id for n in ast.walk(a.test) if isinstance(n, ast.Name)}:
                if (in_body and _says_not_none(a.test, x, True)) or (not in_body and _says_not_none(a.test, x, False)):
                    guards.append(x)
        for fld in ("body", "orelse"):
            lst = getattr(a, fld, None)
            if isinstance(lst, list) and any(child is x for x in lst):
                k = [i for i, x in enumerate(lst) if child is x][0]
                for prev in lst[:k]:
                    if isinstance(prev, ast.If) and not prev.orelse and prev.body and isinstance(prev.body[-1], (ast.Continue, ast.Return, ast.Break, ast.Raise)):
                        for x in {n.id for n in ast.walk(prev.test) if isinstance(n, ast.Name)}:
                            if _says_not_none(prev.test, x, False):
                                guards.append(x)
    anc = set(id(a) for a in chain[1:]) | {id(fn)}
    for x in guards:
        xb = [b for b in bindings_of(fn, x) if b.kind != "param" and pos(b.node) < pos(at)]
        if not xb or any(b.kind != "assign" for b in xb):
            continue
        # the conditional that assigns X on all its branches, as a statement of a block enclosing `at`
        skel = None
        for cand in ancestors(pm, xb[0].node):
            if isinstance(cand, ast.If) and id(pm.get(cand)) in anc and pos(cand) < pos(at) and all(any(c is cand for c in ancestors(pm, b.node)) for b in xb) \
                    and not any(x is cand for x in chain):
                skel = cand
                break

        def assigns_all(stmts):
            for st in stmts:
                if isinstance(st, ast.Assign) and any(isinstance(t, ast.Name) and t.id == x for t in st.targets):
                    return True
                if isinstance(st, ast.If) and st.orelse and assigns_all(st.body) and assigns_all(st.orelse):
                    return True
            return False
        if skel is None or not (skel.orelse and assigns_all(skel.body) and assigns_all(skel.orelse)):
            continue
        vals = [b for b in xb if not (isinstance(b.value, ast.Constant) and b.value.value is None)]
        if vals and all((lambda r: r is not None and r.node is best.node)(reaching(fn, pm, name, b.node, depth + 1)) for b in vals):
            return best
    return None


def local_names(fn):
    names = set(a.arg for a in fn.args.args + fn.args.kwonlyargs + fn.args.posonlyargs)
    for n in ast.walk(fn):
        if isinstance(n, ast.Name) and isinstance(n.ctx, ast.Store):
            names.add(n.id)
        elif isinstance(n, ast.ExceptHandler) and n.name:
            names.add(n.name)
    return names


def table_read(value):
    """`T[k]`, `T.get(k[, d])`, and either of them as the non-None arm of `x if c else None`: -> (table Name node, key) or None."""
    if isinstance(value, ast.IfExp):
        if isinstance(value.orelse, ast.Constant) and value.orelse.value is None:
            value = value.body
        elif isinstance(value.body, ast.Constant) and value.body.value is None:
            value = value.orelse
    if isinstance(value, ast.Subscript) and isinstance(value.value, ast.Name) and not isinstance(value.slice, ast.Slice):
        return value.value, value.slice
    if isinstance(value, ast.Call) and isinstance(value.func, ast.Attribute) and value.func.attr == "get" and isinstance(value.func.value, ast.Name) and value.args:
        return value.func.value, value.args[0]
    return None


def resolve_alias(fn, pm, name, at, depth=0):
    """Follow `name = other` chains: when every binding of `name` before `at` assigns the same local name, that name."""
    if depth > 6:
        return name
    bs = [b for b in bindings_of(fn, name) if b.kind != "param" and pos(b.node) < pos(at)]
    if not bs or any(b.kind not in ("assign",) for b in bs):
        return name
    targets = {b.value.id for b in bs if isinstance(b.value, ast.Name)}
    if len(targets) == 1 and all(isinstance(b.value, ast.Name) for b in bs):
        t = next(iter(targets))
        if t != name:
            return resolve_alias(fn, pm, t, bs[0].node, depth + 1)
    return name


def map_stores(fn, mname):
    out = []
    for n in ast.walk(fn):
        if isinstance(n, ast.Assign) and len(n.targets) == 1 and isinstance(n.targets[0], ast.Subscript) \
                and isinstance(n.targets[0].value, ast.Name) and n.targets[0].value.id == mname:
            out.append(n)
    return out


class Slice:
    def __init__(self):
        self.stmts = []       # [(order key, ast.stmt)]
        self.sources = {}     # param name -> role ("target" | "source")
        self.notes = []
        self.map_flows = []   # [(map name, read binding node, store statement)]: values that reach the sink through a local lookup table
        self.ok = True
        self.why = ""


class Slicer:
    def __init__(self, fn, is_target_expr, extra_sources=()):
        self.fn = fn
        self.pm = parent_map(fn)
        self.locals = local_names(fn)
        self.is_target_expr = is_target_expr
        self.extra_sources = set(extra_sources)
        self.sl = Slice()
        self.done = {}

    def fail(self, why):
        self.sl.ok = False
        self.sl.why = self.sl.why or why

    def subst_targets(self, expr):
        """Copy of expr with every sub-expression recognised as the relationship target replaced by the parameter `__target`."""
        me = self

        class T(ast.NodeTransformer):
            def generic_visit(self, node):
                if isinstance(node, ast.expr) and me.is_target_expr(node):
                    me.sl.sources["__target"] = "target"
                    return ast.copy_location(ast.Name(id="__target", ctx=ast.Load()), node)
                return super().generic_visit(node)
        e2 = copy.deepcopy(expr)
        if self.is_target_expr(e2):
            self.sl.sources["__target"] = "target"
            return ast.copy_location(ast.Name(id="__target", ctx=ast.Load()), expr)
        return T().visit(e2)

    def need_expr(self, expr, at):
        """Make every local name used by expr (evaluated at node `at`) available; returns the rewritten expression."""
        e2 = self.subst_targets(expr)
        for n in ast.walk(e2):
            if isinstance(n, ast.Name) and isinstance(n.ctx, ast.Load) and n.id in self.locals and n.id != "__target":
                self.need_name(n.id, at)
        return e2

    def need_name(self, name, at):
        b = reaching(self.fn, self.pm, name, at)
        key = (name, id(b.node) if b is not None else None)
        if key in self.done:
            return
        self.done[key] = True
        if b is None:
            if name in self.extra_sources:
                self.sl.sources[name] = "source"
                return
            if self.whole_if(name, at):
                return
            return self.fail(f"no unique reaching definition of `{name}`")
        if b.kind in ("param", "for", "with"):
            self.sl.sources[name] = "source"
            return
        if b.kind == "other":
            return self.fail(f"`{name}` is bound by a statement the slicer does not follow")
        if b.kind == "unpack":
            # `a, b, c = <expr>`: the whole (copied) statement joins the slice
            if self.opaque_source(b.value) or self.is_target_expr(b.value):
                return self.fail(f"`{name}` is unpacked from a lookup")
            v2 = self.need_expr(b.value, b.node)
            import copy as _copy
            self.emit(b.node, ast.Assign(targets=[_copy.deepcopy(b.node.targets[0])], value=v2))
            for e in b.node.targets[0].elts:
                self.done[(e.id, id(b.node))] = True
            return
        value = b.value
        if self.is_target_expr(value):
            # `name = <relationship target lookup>`: the name itself is the target parameter
            self.emit(b.node, ast.Assign(targets=[ast.Name(id=name, ctx=ast.Store())], value=ast.Name(id="__target", ctx=ast.Load())))
            self.sl.sources["__target"] = "target"
            return
        tr = table_read(value)
        if tr is not None and not isinstance(value, ast.Subscript) and tr[0].id in self.locals \
                and map_stores(self.fn, resolve_alias(self.fn, self.pm, tr[0].id, b.node)):
            # `table.get(key[, default])` / `table[key] if c else None` on a local lookup table: like `table[key]` (the other arm is
            # the absent case, which never reaches a read of the container)
            value = ast.copy_location(ast.Subscript(value=tr[0], slice=tr[1], ctx=ast.Load()), value)
        if isinstance(value, ast.Subscript) and isinstance(value.value, ast.Name) and value.value.id in self.locals \
                and not isinstance(value.slice, ast.Slice):
            mname = resolve_alias(self.fn, self.pm, value.value.id, b.node)
            stores = map_stores(self.fn, mname)
            if len(stores) == 1:
                # value read back from a local map with a single store site: it is the stored expression
                st = stores[0]
                v2 = self.need_expr(st.value, st)
                self.emit(b.node, ast.Assign(targets=[ast.Name(id=name, ctx=ast.Store())], value=v2))
                self.sl.notes.append(f"{name} flows through map {mname}")
                self.sl.map_flows.append((mname, b.node, st))
                return
            if not stores:
                self.sl.sources[name] = "source"
                return
            return self.fail(f"map {mname} has {len(stores)} store sites")
        if isinstance(value, (ast.Call, ast.Attribute, ast.Subscript)) and self.opaque_source(value):
            self.sl.sources[name] = "source"
            return
        v2 = self.need_expr(value, b.node)
        self.emit(b.node, ast.Assign(targets=[ast.Name(id=name, ctx=ast.Store())], value=v2))

    def whole_if(self, name, at):
        """`name` is assigned on every branch of one if / elif / else statement that precedes `at` in an enclosing block (and nowhere
        else in between): the whole conditional (a copy of the real statement, branches of plain assignments only) joins the slice."""
        anc_ids = set(id(a) for a in ancestors(self.pm, at)) | {id(self.fn)}
        cands = []
        for n in ast.walk(self.fn):
            if isinstance(n, ast.If) and pos(n) < pos(at) and id(self.pm.get(n)) in anc_ids:
                cands.append(n)
        cands.sort(key=pos)
        binds = [b for b in bindings_of(self.fn, name) if b.kind != "param" and pos(b.node) < pos(at)]

        def assigns_all(stmts):
            for st in stmts:
                if isinstance(st, ast.Assign) and any(isinstance(t, ast.Name) and t.id == name for t in st.targets):
                    return True
                if isinstance(st, ast.If) and st.orelse and assigns_all(st.body) and assigns_all(st.orelse):
                    return True
            return False

        def plain(stmts):
            for st in stmts:
                if isinstance(st, ast.If):
                    if not (plain(st.body) and plain(st.orelse)):
                        return False
                elif not (isinstance(st, (ast.Assign, ast.Pass)) and all(isinstance(t, ast.Name) for t in getattr(st, "targets", []))):
                    return False
            return True
        for S in reversed(cands):
            inside = set(id(x) for x in ast.walk(S))
            later = [b for b in binds if pos(b.node) > pos(S)]
            if not later or not all(id(b.node) in inside for b in later):
                continue
            if not (S.orelse and assigns_all(S.body) and assigns_all(S.orelse) and plain(S.body) and plain(S.orelse)):
                return False
            import copy as _copy
            S2 = _copy.deepcopy(S)
            assigned = {t.id for x in ast.walk(S) if isinstance(x, ast.Assign) for t in x.targets if isinstance(t, ast.Name)}
            me = self

            class T(ast.NodeTransformer):
                def generic_visit(self, node):
                    if isinstance(node, ast.expr) and me.is_target_expr(node):
                        me.sl.sources["__target"] = "target"
                        return ast.copy_location(ast.Name(id="__target", ctx=ast.Load()), node)
                    return super().generic_visit(node)
            S2 = T().visit(S2)
            for x in ast.walk(S2):
                if isinstance(x, ast.Name) and isinstance(x.ctx, ast.Load) and x.id in self.locals and x.id not in assigned and x.id != "__target":
                    self.need_name(x.id, S)
            ast.fix_missing_locations(S2)
            self.sl.stmts.append((pos(S), len(self.sl.stmts), S2))
            self.sl.notes.append(f"{name} is defined by the conditional at line {LN(S)}")
            return self.sl.ok
        return False

    def opaque_source(self, value):
        """Lookups in XML elements / relationship dictionaries other than the target: inputs of the slice."""
        if isinstance(value, ast.Call) and isinstance(value.func, ast.Attribute) and value.func.attr in ("get", "find", "findall", "iter"):
            return True
        return False

    def emit(self, at_node, stmt):
        ast.copy_location(stmt, at_node)
        ast.fix_missing_locations(stmt)
        self.sl.stmts.append((pos(at_node), len(self.sl.stmts), stmt))


def build_slice_function(fn, sink_expr, at, is_target_expr, name="__site", extra_params=(), extra_sources=()):
    """-> (ast.FunctionDef | None, Slice)."""
    s = Slicer(fn, is_target_expr, extra_sources)
    ret = s.need_expr(sink_expr, at)
    sl = s.sl
    if not sl.ok:
        return None, sl
    body = [st for (_p, _k, st) in sorted(sl.stmts, key=lambda x: (x[0], x[1]))]
    # dependency order: a statement emitted for a map-flow may sit textually after its use; emit order by recursion index
    # (need_name emits dependencies first), falling back to textual order for straight-line code
    body = [st for (_p, _k, st) in sorted(sl.stmts, key=lambda x: x[1])]
    params = sorted(set(sl.sources) | set(extra_params))
    rnode = ast.Return(value=ret)
    ast.copy_location(rnode, at)
    f = ast.FunctionDef(name=name, args=ast.arguments(posonlyargs=[], args=[ast.arg(arg=p) for p in params], kwonlyargs=[],
                                                       kw_defaults=[], defaults=[]),
                        body=body + [rnode], decorator_list=[], returns=None, type_comment=None)
    f.lineno, f.col_offset = fn.lineno, fn.col_offset
    f.end_lineno, f.end_col_offset = fn.end_lineno, fn.end_col_offset
    ast.fix_missing_locations(f)
    return f, sl


# ------------------------------------------------------------------------ sink finders --
def method_calls(fn, names):
    out = [n for n in ast.walk(fn) if isinstance(n, ast.Call) and isinstance(n.func, ast.Attribute) and n.func.attr in names and n.args]
    out.sort(key=pos)
    return out


def const_str_in(expr, value):
    return any(isinstance(n, ast.Constant) and n.value == value for n in ast.walk(expr))


def is_lookup_of(expr, keys):
    """`X.get("<key>", ...)`, `X["<key>"]` for a key in `keys` (string constants or names of attribute constants)."""
    def key_ok(k):
        if isinstance(k, ast.Constant):
            return k.value in keys
        if isinstance(k, (ast.Name, ast.Attribute)):
            return dotted(k).split(".")[-1] in keys
        return False
    if isinstance(expr, ast.Call) and isinstance(expr.func, ast.Attribute) and expr.func.attr == "get" and expr.args:
        return key_ok(expr.args[0])
    if isinstance(expr, ast.Subscript) and not isinstance(expr.slice, ast.Slice):
        return key_ok(expr.slice)
    return False


def table_scope(fn, pm, mname, read_node, store_stmt):
    """A value read from the local lookup table `mname` at `read_node` is the value stored by `store_stmt` *for the current source
    part* only if the table is re-initialised inside every loop that encloses both the store and the read: otherwise entries
    written in earlier iterations of that loop (for other source parts) are still visible to the read.
    -> (ok, detail) ; ok None: shape not recognised."""
    inits = [x for x in bindings_of(fn, mname) if x.kind == "assign" and pos(x.node) < pos(read_node)]
    b = reaching(fn, pm, mname, read_node)
    if (b is None or b.kind != "assign") and len(inits) == 1:
        b = inits[0]
    if b is None or b.kind != "assign":
        return None, f"no unique initialisation of {mname} reaches its use"
    v = b.value
    empty = (isinstance(v, ast.Dict) and not v.keys) or (isinstance(v, ast.Call) and dotted(v.func) == "dict" and not v.args and not v.keywords)
    if not empty:
        return None, f"{mname} is initialised by {ast.unparse(v)[:60]}"
    init_anc = set(id(a) for a in ancestors(pm, b.node))
    common = [a for a in ancestors(pm, read_node) if isinstance(a, (ast.For, ast.While)) and id(a) in set(id(x) for x in ancestors(pm, store_stmt))]
    outside = [l for l in common if id(l) not in init_anc]
    if outside:
        return False, (f"{mname} is created at line {LN(b.node)}, outside the loop at line {LN(outside[-1])} that both fills and reads it: entries of earlier "
                       f"iterations (other source parts) stay visible, so a key that the current part does not define resolves to another part's value")
    return True, ""


def relationships_read_feeding(fn, pm, store_stmt):
    """The relationship part that feeds a table: `store_stmt` sits in `for rel in parse_relationships(X)`; X is (a name bound to)
    `<ctx>.read_xml_root(P)`.  -> (P expression, node at which it is evaluated) or None."""
    for a in ancestors(pm, store_stmt):
        if isinstance(a, ast.For) and isinstance(a.iter, ast.Call) and dotted(a.iter.func).split(".")[-1] == "parse_relationships" and a.iter.args:
            x = a.iter.args[0]
            at = a
            for _ in range(4):
                if isinstance(x, ast.Call) and isinstance(x.func, ast.Attribute) and x.func.attr == "read_xml_root" and x.args:
                    return x.args[0], at
                if isinstance(x, ast.Name):
                    b = reaching(fn, pm, x.id, at)
                    if b is None or b.kind != "assign":
                        return None
                    x, at = b.value, b.node
                    continue
                return None
    return None
