"""C15 round 6 -- H15: scratch files live in a location that was allocated FOR THE CALL.

The property counts temporary files among the process-global state: a directory or file that extraction code creates, fills or
removes must not be shared with another extraction that is alive at the same time (another thread, or a lazily consumed generator of
the same thread).  The sufficient condition decided here, on the AST of the whole package (own small anchor flow on top of
`c15_own.Analysis` for name / call resolution):

    every path handed to a file-system MUTATOR (os.mkdir / makedirs / remove / rename ..., shutil.rmtree / copy / move ...,
    open(.., mode with w / a / x / +), pathlib writers, `.extractall(path)`) is ANCHORED in a location returned by a
    per-call allocator of `tempfile` (mkdtemp, TemporaryDirectory, mkstemp, NamedTemporaryFile ...).

`anchor(e)` follows the directory part of a path expression: `os.path.join(a, ..)` -> a, `a / x` -> a, `a + s` -> a, f-strings -> their
first piece, `os.path.dirname / abspath / normpath / str / Path / fspath (a)` -> a, a local -> all its definitions, a package helper ->
the anchors of its return values with its parameters replaced by the arguments, a `with ALLOC() as d` -> fresh.  A path anchored in a
PARAMETER makes the function a *path writer* in that parameter: the obligation moves to every call site (fixpoint; methods that
cannot be resolved by receiver are resolved by name over the package).  An anchor that is neither fresh nor a parameter (a constant,
`tempfile.gettempdir()`, the process / thread id, an attribute, a call of another library) is reported -- decided by code shape,
therefore never more than `unknown`: the native replayer (interleaved generators, histories, temp-dir residue) decides.
"""
import ast

from pyvc.flow import dotted

ALLOCATORS = {"tempfile.mkdtemp", "tempfile.TemporaryDirectory", "tempfile.mkstemp", "tempfile.NamedTemporaryFile", "tempfile.TemporaryFile",
              "tempfile.SpooledTemporaryFile"}
# dotted origin -> index of the path arguments that are created / removed / overwritten
MUTATORS = {
    "os.mkdir": (0,), "os.makedirs": (0,), "os.remove": (0,), "os.unlink": (0,), "os.rmdir": (0,), "os.removedirs": (0,), "os.rename": (0, 1),
    "os.renames": (0, 1), "os.replace": (0, 1), "os.symlink": (1,), "os.link": (1,), "os.truncate": (0,), "os.mkfifo": (0,), "os.chmod": (0,),
    "os.utime": (0,), "shutil.rmtree": (0,), "shutil.copy": (1,), "shutil.copy2": (1,), "shutil.copyfile": (1,), "shutil.copytree": (1,),
    "shutil.move": (0, 1), "shutil.unpack_archive": (1,), "shutil.make_archive": (0,),
}
MUTATOR_KW = {"os.mkdir": ("path",), "os.makedirs": ("name",), "os.remove": ("path",), "os.unlink": ("path",), "os.rmdir": ("path",),
              "shutil.rmtree": ("path",), "shutil.copy": ("dst",), "shutil.copy2": ("dst",), "shutil.copyfile": ("dst",), "shutil.copytree": ("dst",),
              "shutil.move": ("src", "dst"), "os.rename": ("src", "dst"), "os.replace": ("src", "dst"), "shutil.unpack_archive": ("extract_dir",)}
PATH_METHOD_WRITERS = {"mkdir", "write_bytes", "write_text", "unlink", "touch", "rmdir", "rename", "replace", "symlink_to", "hardlink_to"}
BY_NAME_WRITERS = {"extractall": (0, "path")}          # zipfile / tarfile / 7z readers: .extractall(path)
PASS_THROUGH = {"os.path.dirname", "os.path.abspath", "os.path.realpath", "os.path.normpath", "os.path.normcase", "os.path.expanduser", "os.fspath",
                "os.fsdecode", "os.fsencode", "str", "pathlib.Path", "Path", "pathlib.PurePath", "os.path.join", "os.path.relpath", "os.path.splitext",
                "os.path.split"}
FRESH = "fresh"


def _origin(an, fn, e):
    d = dotted(e)
    if not d:
        return ""
    root, _, rest = d.partition(".")
    if root in fn.locals:
        return ""
    imp = an.imports.get(fn.rel, {})
    if root in imp:
        return imp[root] + ("." + rest if rest else "")
    return d if root in ("open", "str") and not rest else ""


def _write_mode(call):
    """True / False / None (not a constant) for open(path, mode)."""
    mode = None
    if len(call.args) >= 2:
        mode = call.args[1]
    for kw in call.keywords:
        if kw.arg == "mode":
            mode = kw.value
    if mode is None:
        return False
    if isinstance(mode, ast.Constant) and isinstance(mode.value, str):
        return any(c in mode.value for c in "wax+")
    return None


class Scratch:
    def __init__(self, an, skip=()):
        self.an = an
        self.skip = set(skip)
        self.ret_memo = {}
        self.defs = {}
        self.writer = {}           # fn key -> set of parameter names in which the function is a path writer
        self.sites = []            # (fn, call node, path expr, text) of every mutator / writer call
        self.bad = []              # texts
        self._collect()
        self._fixpoint()

    # ---------------------------------------------------------------- local definitions
    def _defs(self, fn):
        k = fn.key()
        if k in self.defs:
            return self.defs[k]
        d = {}

        def bind(t, v, how="="):
            elts = t.elts if isinstance(t, (ast.Tuple, ast.List)) else [t]
            for i, e in enumerate(elts):
                if isinstance(e, ast.Starred):
                    e = e.value
                if isinstance(e, ast.Name):
                    d.setdefault(e.id, []).append((v, how if len(elts) == 1 else "elt"))
        for n in fn.own:
            if isinstance(n, ast.Assign):
                for t in n.targets:
                    bind(t, n.value)
            elif isinstance(n, (ast.AnnAssign, ast.NamedExpr)) and getattr(n, "value", None) is not None:
                bind(n.target, n.value)
            elif isinstance(n, ast.AugAssign):
                bind(n.target, n.value, "aug")
            elif isinstance(n, (ast.For, ast.AsyncFor, ast.comprehension)):
                bind(n.target, n.iter, "iter")
            elif isinstance(n, (ast.With, ast.AsyncWith)):
                for it in n.items:
                    if it.optional_vars is not None:
                        bind(it.optional_vars, it.context_expr, "with")
        self.defs[k] = d
        return d

    # ---------------------------------------------------------------- anchors
    def anchor(self, fn, e, depth=0, seen=()):
        """set of anchors of path expression e inside fn: FRESH, 'param:<p>', or 'fixed:<text>' / 'opaque:<text>'"""
        an = self.an
        if depth > 12:
            return {"opaque:" + ast.unparse(e)[:40]}
        if isinstance(e, ast.Constant):
            return {"fixed:" + repr(e.value)[:40]}
        if isinstance(e, ast.Name):
            if e.id in fn.locals:
                defs = self._defs(fn).get(e.id, [])
                out = set()
                if e.id in fn.all_params:
                    out.add("param:" + e.id)
                if e.id in seen:
                    return out
                for (v, how) in defs:
                    if how == "aug":
                        continue                                   # p += "/x": the anchor stays
                    a = self.anchor(fn, v, depth + 1, seen + (e.id,))
                    if how in ("iter", "elt") and not (a == {FRESH}):
                        # an element of something: anchored where the collection is anchored only when that is a parameter / fresh
                        a = {x if x == FRESH or x.startswith("param:") else "opaque:" + ast.unparse(v)[:40] for x in a}
                    out |= a
                if not out:
                    out.add("opaque:" + e.id)
                return out
            # enclosing function's local (closure) or module-level constant
            g = an.fns.get(fn.parent) if fn.parent else None
            while g is not None:
                if e.id in g.locals:
                    a = self.anchor(g, e, depth + 1, seen)
                    return {x if x == FRESH else ("opaque:" + e.id if x.startswith("param:") else x) for x in a}
                g = an.fns.get(g.parent) if g.parent else None
            return {"fixed:" + e.id}
        if isinstance(e, ast.JoinedStr):
            if e.values and isinstance(e.values[0], ast.FormattedValue):
                return self.anchor(fn, e.values[0].value, depth + 1, seen)
            return {"fixed:" + ast.unparse(e)[:40]}
        if isinstance(e, ast.BinOp) and isinstance(e.op, (ast.Div, ast.Add, ast.Mod)):
            if isinstance(e.op, ast.Mod):
                return {"fixed:" + ast.unparse(e)[:40]} if isinstance(e.left, ast.Constant) else self.anchor(fn, e.left, depth + 1, seen)
            return self.anchor(fn, e.left, depth + 1, seen)
        if isinstance(e, ast.IfExp):
            return self.anchor(fn, e.body, depth + 1, seen) | self.anchor(fn, e.orelse, depth + 1, seen)
        if isinstance(e, ast.BoolOp):
            out = set()
            for v in e.values:
                out |= self.anchor(fn, v, depth + 1, seen)
            return out
        if isinstance(e, ast.Subscript):
            a = self.anchor(fn, e.value, depth + 1, seen)
            return a if a == {FRESH} else {x if x == FRESH or x.startswith("param:") else "opaque:" + ast.unparse(e)[:40] for x in a}
        if isinstance(e, ast.Attribute):
            a = self.anchor(fn, e.value, depth + 1, seen)
            if a == {FRESH}:
                return a                                            # TemporaryDirectory().name, NamedTemporaryFile().name
            if e.attr in ("parent", "name") and all(x == FRESH or x.startswith("param:") for x in a):
                return a
            return {"opaque:" + ast.unparse(e)[:40]}
        if isinstance(e, ast.Call):
            o = _origin(an, fn, e.func)
            if o in ALLOCATORS:
                return {FRESH}
            if o in PASS_THROUGH or (isinstance(e.func, ast.Name) and e.func.id in ("str", "Path") and e.func.id not in fn.locals):
                return self.anchor(fn, e.args[0], depth + 1, seen) if e.args and not isinstance(e.args[0], ast.Starred) else {"opaque:" + ast.unparse(e)[:40]}
            if isinstance(e.func, ast.Attribute) and e.func.attr in ("joinpath", "with_suffix", "with_name", "resolve", "absolute", "rstrip", "strip",
                                                                      "format", "__enter__", "expanduser"):
                if e.func.attr == "format" and isinstance(e.func.value, ast.Constant):
                    return {"fixed:" + ast.unparse(e)[:40]}
                return self.anchor(fn, e.func.value, depth + 1, seen)
            try:
                callee, bound = an.call_binding(fn, e)
            except Exception:  # noqa
                callee, bound = None, []
            if callee is not None and callee.key() not in self.skip:
                ret = self.ret_anchor(callee, depth + 1)
                out = set()
                bmap = {}
                for (p, a) in bound:
                    bmap.setdefault(p, []).append(a)
                for x in ret:
                    if x.startswith("param:"):
                        args = bmap.get(x[6:])
                        if not args:
                            out.add("opaque:default of " + x[6:])
                        for a in args or []:
                            out |= self.anchor(fn, a, depth + 1, seen)
                    else:
                        out.add(x)
                return out or {"opaque:" + ast.unparse(e)[:40]}
            return {("fixed:" if o else "opaque:") + ast.unparse(e)[:50]}
        return {"opaque:" + ast.unparse(e)[:40]}

    def ret_anchor(self, callee, depth=0):
        k = callee.key()
        if k in self.ret_memo:
            return self.ret_memo[k]
        self.ret_memo[k] = {"opaque:recursive " + callee.q}
        out = set()
        for n in callee.own:
            if isinstance(n, ast.Return) and n.value is not None:
                out |= self.anchor(callee, n.value, depth + 1)
            elif isinstance(n, (ast.Yield,)) and n.value is not None:
                out |= self.anchor(callee, n.value, depth + 1)
        self.ret_memo[k] = out or {"opaque:no return in " + callee.q}
        return self.ret_memo[k]

    # ---------------------------------------------------------------- sites
    def _collect(self):
        an = self.an
        self.direct = []            # (fn, call, [path exprs], what)
        for k, fn in sorted(an.fns.items()):
            if k in self.skip:
                continue
            for n in fn.own:
                if not isinstance(n, ast.Call):
                    continue
                o = _origin(an, fn, n.func)
                paths = []
                what = None
                if o in MUTATORS:
                    what = o
                    for i in MUTATORS[o]:
                        if i < len(n.args) and not isinstance(n.args[i], ast.Starred):
                            paths.append(n.args[i])
                    for kw in n.keywords:
                        if kw.arg in MUTATOR_KW.get(o, ()):
                            paths.append(kw.value)
                    if not paths:
                        paths = [n]
                elif (o == "open" or o in ("io.open", "os.open", "codecs.open")) and n.args:
                    wm = _write_mode(n) if o != "os.open" else None
                    if wm is False:
                        continue
                    what = f"{o}(.., write mode)" if wm else f"{o}(.., mode not constant)"
                    paths = [n.args[0]]
                elif isinstance(n.func, ast.Attribute) and n.func.attr in PATH_METHOD_WRITERS and not o:
                    # pathlib writers: only when the receiver is visibly a path (Path(...) / x / y / .parent chains / annotated)
                    recv = n.func.value
                    txt = ast.unparse(recv)
                    if "Path(" in txt or isinstance(recv, ast.BinOp) and isinstance(recv.op, ast.Div) or self._is_path_local(fn, recv):
                        what = f".{n.func.attr}()"
                        paths = [recv]
                if what:
                    self.direct.append((fn, n, paths, what))

    def _is_path_local(self, fn, recv):
        if not isinstance(recv, ast.Name) or recv.id not in fn.locals:
            return False
        for (v, _how) in self._defs(fn).get(recv.id, []):
            t = ast.unparse(v)
            if "Path(" in t or (isinstance(v, ast.BinOp) and isinstance(v.op, ast.Div)):
                return True
        for a in fn.node.args.args + fn.node.args.kwonlyargs:
            if a.arg == recv.id and a.annotation is not None and "Path" in ast.unparse(a.annotation):
                return True
        return False

    def _by_name(self, meth):
        out = []
        for k, f in self.an.fns.items():
            if f.cls is not None and ".<locals>." not in f.q and f.q.rsplit(".", 1)[-1] == meth and k not in self.skip:
                out.append(f)
        return out

    def _fixpoint(self):
        an = self.an
        bad = {}
        n_sites = [0]

        def judge(fn, node, paths, what):
            """anchors of the written paths: parameters make fn a writer, fresh is fine, the rest is reported"""
            changed = False
            for p in paths:
                for x in sorted(self.anchor(fn, p)):
                    if x == FRESH:
                        continue
                    if x.startswith("param:"):
                        w = self.writer.setdefault(fn.key(), set())
                        if x[6:] not in w:
                            w.add(x[6:])
                            changed = True
                        continue
                    bad[(fn.key(), node.lineno, what)] = (f"{fn.name()} line {node.lineno}: {what} on `{ast.unparse(p)[:50]}`, a location that is not allocated "
                                                           f"for the call ({x[:70]})")
            return changed
        for (fn, n, paths, what) in self.direct:
            judge(fn, n, paths, what)
        n_sites[0] = len(self.direct)
        for _round in range(12):
            changed = False
            seen_calls = 0
            for k, fn in sorted(an.fns.items()):
                if k in self.skip:
                    continue
                for n in fn.own:
                    if not isinstance(n, ast.Call):
                        continue
                    targets = []
                    try:
                        callee, bound = an.call_binding(fn, n)
                    except Exception:  # noqa
                        callee, bound = None, []
                    if callee is not None:
                        if self.writer.get(callee.key()):
                            targets.append((callee, bound))
                    elif isinstance(n.func, ast.Attribute):
                        cands = [f for f in self._by_name(n.func.attr) if self.writer.get(f.key())]
                        for f in cands:
                            targets.append((f, [(f.params[0], n.func.value)] + an.bind_args(f, n, True) if f.params else an.bind_args(f, n, False)))
                        if not cands and n.func.attr in BY_NAME_WRITERS and not _origin(an, fn, n.func):
                            i, kwn = BY_NAME_WRITERS[n.func.attr]
                            ps = [n.args[i]] if i < len(n.args) else [kw.value for kw in n.keywords if kw.arg == kwn]
                            if ps:
                                seen_calls += 1
                                changed |= judge(fn, n, ps, f".{n.func.attr}(path)")
                    for (callee, bound) in targets:
                        wp = self.writer.get(callee.key(), set())
                        ps = [a for (p, a) in bound if p in wp and not (callee.is_method and callee.params and p == callee.params[0])]
                        # a method that writes below a path kept on its object: the receiver is the path holder
                        if callee.is_method and callee.params and callee.params[0] in wp:
                            ps += [a for (p, a) in bound if p == callee.params[0]]
                        if ps:
                            seen_calls += 1
                            changed |= judge(fn, n, ps, f"{callee.q}(..) writes below its argument")
            if not changed:
                n_sites[0] = len(self.direct) + seen_calls
                break
        self.n_sites = n_sites[0]
        self.bad = [bad[k] for k in sorted(bad)]
        self.bad_fns = sorted({(k[0][0], k[0][1]) for k in bad})


def obligation(an, ground_obligation, skip=()):
    """The H15 obligation (never raises: an analysis failure is reported as an undecided obligation)."""
    oid = "C15/package/policy#scratch-files-live-in-a-location-allocated-for-the-call"
    try:
        s = Scratch(an, skip)
        ok = not s.bad
        text = "; ".join(s.bad[:5]) if s.bad else (f"{s.n_sites} file-system writing site(s), every path anchored in a per-call allocation of tempfile "
                                                  f"(through {sum(len(v) for v in s.writer.values())} path-writing parameter(s))")
        o = ground_obligation(oid, ok, text, "package", definite=False)
        o["replay_hint"] = {"interleave": True, "scratch_functions": [list(k) for k in s.bad_fns]}
        return o
    except Exception as e:  # noqa
        o = ground_obligation(oid, False, f"scratch-location analysis failed: {e!r}"[:200], "package", definite=False)
        o["replay_hint"] = {"interleave": True}
        return o
