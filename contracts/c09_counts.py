"""C09 round 7 -- the 7z read-back ambiguity count under deductive step obligations.

`_extract_from_7z_optimized` reads members back from the private directory BY PATH.  The library keeps a member only when the number of
archive entries that resolve to its path is one.  The BOUNDED native scopes exercise that on generated archives; the two obligations here
are solver-discharged statements about the real loop bodies, for every entry (names, kinds, sizes uninterpreted):

  count-step   one iteration of the counting loop, from ANY count map M and ANY entry e, ends with
                   M'[s] == M[s] + (1 if e is not a directory and normpath(e.filename) == s else 0)      for every key s (s Skolem),
               and cannot leave the loop early (break / return / raise).  With `M = {}` before the loop and no other store into the map
               (checked on the AST) induction over the list gives  M[s] == CNT(s) := #{non-directory entries whose normpath is s}  -- a count
               over ALL entries the reader writes, whatever the skip rules and size limits say about them.
  filter-step  one iteration of the worklist loop over the SAME list, with a map that satisfies M[s] == CNT(s) (CNT uninterpreted, >= 0):
               whatever is appended to the worklist carries the entry's own stored name, and CNT(normpath(name)) <= 1; the map is not stored to.

Not covered (stays with the BOUNDED scopes): that two names with different normpath never meet on disk (canonical form of
abspath(join(base, name)); `_safe_join` refuses climbing names), and directory entries shadowing a file path.
A loop shape that is not recognised (the count folded into the filter loop, say) is `unknown`: the native scope decides.
"""
import ast

import z3

from pyvc import loader
from pyvc.flow import ground_obligation

ARCH = "sharepoint2text/parsing/extractors/archive_extractor.py"
FN = "_extract_from_7z_optimized"
PRE = f"C09/archive_extractor.py::{FN}/block#"
COUNT_ID = "count-step-adds-one-for-the-path-of-every-file-entry"
FILTER_ID = "read-back-members-have-a-path-count-of-at-most-one"
S = z3.StringSort()
CNT = z3.Function("c09_entries_resolving_to_path", S, z3.IntSort())
BASENAME = z3.Function("os_path_basename", S, S)


def _unknown(label, why):
    o = ground_obligation(PRE + label, False, why[:400], ARCH, definite=False)
    o["replay_hint"] = {"first": ["collisions"]}
    return o


def _stores(fnode, name):
    return [n for n in ast.walk(fnode) if isinstance(n, ast.Name) and n.id == name and isinstance(n.ctx, ast.Store)]


def _binding(fnode, name):
    """the value expression of the ONLY binding of `name` in the function (plain / annotated assignment), else None"""
    if len(_stores(fnode, name)) != 1:
        return None
    for n in ast.walk(fnode):
        if isinstance(n, ast.Assign) and len(n.targets) == 1 and isinstance(n.targets[0], ast.Name) and n.targets[0].id == name:
            return n
        if isinstance(n, ast.AnnAssign) and isinstance(n.target, ast.Name) and n.target.id == name and n.value is not None:
            return n
    return None


def _resolve_list(fnode, expr, depth=0):
    """an iterable expression -> (dump of the root expression, [(element name, [filter conditions])]): names bound once are followed, and
    `[e for e in X if c]` (the element itself, one generator) is X seen through the filter c"""
    if depth > 6:
        return None
    if isinstance(expr, ast.Name):
        b = _binding(fnode, expr.id)
        if b is None:
            return (ast.dump(expr), [])
        return _resolve_list(fnode, b.value, depth + 1)
    if isinstance(expr, (ast.ListComp, ast.GeneratorExp)) and len(expr.generators) == 1:
        g = expr.generators[0]
        if isinstance(g.target, ast.Name) and isinstance(expr.elt, ast.Name) and expr.elt.id == g.target.id and not g.is_async:
            r = _resolve_list(fnode, g.iter, depth + 1)
            if r is None:
                return None
            return (r[0], r[1] + ([(g.target.id, list(g.ifs))] if g.ifs else []))
        return None
    if isinstance(expr, ast.Call) and isinstance(expr.func, ast.Name) and expr.func.id in ("list", "tuple") and len(expr.args) == 1 and not expr.keywords:
        return _resolve_list(fnode, expr.args[0], depth + 1)
    return (ast.dump(expr), [])


def _is_counter(call):
    f = call.func if isinstance(call, ast.Call) else None
    return f is not None and ((isinstance(f, ast.Name) and f.id == "Counter") or (isinstance(f, ast.Attribute) and f.attr == "Counter")) \
        and len(call.args) == 1 and not call.keywords and isinstance(call.args[0], (ast.GeneratorExp, ast.ListComp)) and len(call.args[0].generators) == 1


def _shape(fnode, mod):
    """dict(kind='loop'|'counter', ...) or a reason (str)"""
    loops = [n for n in ast.walk(fnode) if isinstance(n, ast.For)]

    def count_store(loop):
        for n in ast.walk(loop):
            if isinstance(n, (ast.Assign, ast.AugAssign)):
                tgts = n.targets if isinstance(n, ast.Assign) else [n.target]
                for t in tgts:
                    if isinstance(t, ast.Subscript) and isinstance(t.value, ast.Name):
                        return t.value.id
        return None
    counting = [(l, count_store(l)) for l in loops if count_store(l)]
    out = {}
    if len(counting) == 1:
        cl, mname = counting[0]
        b = _binding(fnode, mname)
        empty = lambda v: (isinstance(v, ast.Dict) and not v.keys) or (isinstance(v, ast.Call) and isinstance(v.func, ast.Name) and v.func.id == "dict" and not v.args and not v.keywords)
        if b is None or not empty(b.value) or b.lineno > cl.lineno:
            return "the count map is not bound exactly once, to an empty dict, before the counting pass"
        if not isinstance(cl.target, ast.Name):
            return "loop target is not a plain name"
        out = dict(kind="loop", loop=cl, mname=mname, count_iter=cl.iter, count_line=cl.lineno, inside={id(n) for n in ast.walk(cl)} | {id(n) for n in ast.walk(b)})
    elif not counting:
        # mname = Counter(<key> for e in L if c)   or   mname = helper(L) with `return Counter(...)` over the helper's parameter
        cands = []
        for n in ast.walk(fnode):
            if isinstance(n, (ast.Assign, ast.AnnAssign)) and n.value is not None:
                tg = n.targets[0] if isinstance(n, ast.Assign) and len(n.targets) == 1 else (n.target if isinstance(n, ast.AnnAssign) else None)
                if not isinstance(tg, ast.Name):
                    continue
                v = n.value
                if _is_counter(v):
                    cands.append((tg.id, n, v.args[0], None, None))
                elif isinstance(v, ast.Call) and isinstance(v.func, ast.Name) and v.func.id in mod.functions and len(v.args) == 1 and not v.keywords:
                    h = mod.functions[v.func.id]
                    body = [x for x in h.body if not (isinstance(x, ast.Expr) and isinstance(x.value, ast.Constant))]
                    if len(h.args.args) == 1 and len(body) == 1 and isinstance(body[0], ast.Return) and _is_counter(body[0].value):
                        g = body[0].value.args[0]
                        if isinstance(g.generators[0].iter, ast.Name) and g.generators[0].iter.id == h.args.args[0].arg:
                            cands.append((tg.id, n, g, h, v.args[0]))
        if len(cands) != 1:
            return f"no counting pass recognised ({len(cands)} Counter bindings, 0 loops that store into a map)"
        mname, n, g, helper, arg = cands[0]
        if len(_stores(fnode, mname)) != 1:
            return "the count map is bound more than once"
        gen = g.generators[0]
        if not isinstance(gen.target, ast.Name) or gen.is_async:
            return "the counting comprehension does not bind a plain name"
        out = dict(kind="counter", mname=mname, gen=g, helper=helper, count_iter=(arg if helper is not None else gen.iter), count_line=n.lineno, inside={id(x) for x in ast.walk(n)})
    else:
        return f"{len(counting)} loop(s) store into a map (one counting pass expected)"
    mname = out["mname"]
    r1 = _resolve_list(fnode, out["count_iter"])
    if r1 is None or "attr='list'" not in r1[0]:
        return "the counted entry list is not established to be the archive's listing (<reader>.list())"
    out.update(count_filters=r1[1], filter_reason=None)
    filt = []
    for l in loops:
        if out["kind"] == "loop" and (l is out["loop"] or any(l is x for x in ast.walk(out["loop"]))):
            continue
        apps = [n for n in ast.walk(l) if isinstance(n, ast.Call) and isinstance(n.func, ast.Attribute) and n.func.attr == "append" and isinstance(n.func.value, ast.Name)]
        uses = any(isinstance(n, ast.Name) and n.id == mname for n in ast.walk(l))
        if apps and uses:
            filt.append((l, apps[0].func.value.id))
    r2 = _resolve_list(fnode, filt[0][0].iter) if len(filt) == 1 else None
    if len(filt) != 1:
        out["filter_reason"] = f"{len(filt)} loop(s) consult the count map while building a work list (one expected)"
    elif not isinstance(filt[0][0].target, ast.Name):
        out["filter_reason"] = "the work-list pass does not bind a plain name"
    elif out["count_line"] > filt[0][0].lineno:
        out["filter_reason"] = "the work-list pass runs before the counting pass"
    elif r2 is None or r1[0] != r2[0]:
        out["filter_reason"] = "the counting pass and the work-list pass are not established to read the same entry list"
    else:
        out.update(filter_loop=filt[0][0], wname=filt[0][1], list_filters=r2[1])
    # a root that is a call (szf.list()) evaluated twice is the same listing only if it is a pure accessor: accept `.list()` of the same receiver
    inside = out["inside"]
    for n in ast.walk(fnode):
        if isinstance(n, ast.Name) and n.id == mname and id(n) not in inside and not isinstance(n.ctx, ast.Load):
            return "the count map is rebound / deleted outside the counting pass"
        if isinstance(n, ast.Subscript) and isinstance(n.value, ast.Name) and n.value.id == mname and id(n) not in inside and not isinstance(n.ctx, ast.Load):
            return "the count map is stored to outside the counting pass"
        if isinstance(n, ast.Call) and isinstance(n.func, ast.Attribute) and isinstance(n.func.value, ast.Name) and n.func.value.id == mname and id(n) not in inside \
                and n.func.attr not in ("get", "keys", "values", "items"):
            return f"the count map is changed outside the counting pass ({n.func.attr})"
        if isinstance(n, ast.Call) and id(n) not in inside and any(isinstance(a, ast.Name) and a.id == mname for a in list(n.args) + [k.value for k in n.keywords]):
            return "the count map is handed to another function"
    return out


class _Skip(Exception):
    pass


def count_obligations(repo, tier):
    try:
        return _count_obligations(repo, tier)
    except Exception as e:  # noqa  a shape the pack code does not foresee is `unknown`, never an engine error
        why = f"step obligations could not be generated ({type(e).__name__}: {e})"
        return {"obligations": [_unknown(COUNT_ID, why), _unknown(FILTER_ID, why)], "functions": []}


def _count_obligations(repo, tier):
    from contracts import C09
    from pyvc import verify
    from pyvc.contracts import Registry
    from pyvc.exctypes import Universe
    from pyvc.state import Frame, HeapObj, State
    from pyvc.symex import Unsupported
    from pyvc.values import NONE, VBool, VExt, VInt, VRef, VStr, VTuple, VUnk, fresh_name
    mod = loader.module(ARCH, repo)
    fnode = mod.functions.get(FN)
    if fnode is None:
        return {"obligations": [_unknown(COUNT_ID, "function missing"), _unknown(FILTER_ID, "function missing")], "functions": []}
    shape = _shape(fnode, mod)
    if isinstance(shape, str):
        # a counting pass written in a form that is not recognised: no step obligation is generated (the BOUNDED native scopes stay the only
        # check of this mechanism, as before round 7); never reported as a failure of the code
        return {"obligations": [], "functions": [], "not_recognised": shape}
    fl, mname, wname = shape.get("filter_loop"), shape["mname"], shape.get("wname")
    counter = shape["kind"] == "counter"
    reg = Registry()
    for c in C09.contracts(reg):
        reg.add(c)
    reg.ext_models.setdefault("os.path.basename", lambda ex, st, args, kwargs, node: ([(st, VStr(BASENAME(args[0].t)))] if len(args) == 1 and isinstance(args[0], VStr) and not kwargs
                                                                                      else ex.havoc_call(st, "os.path.basename", args, node)))

    # the module's configuration object: any limits (uninterpreted); what the size test decides is of no interest here, only that it is a plain test
    for cfg in [n for n in ast.walk(fl or fnode) if isinstance(n, ast.Attribute) and isinstance(n.value, ast.Name) and n.value.id in mod.assigns and n.value.id.startswith("_")
                and not n.value.id.isupper()]:
        reg.module_consts[(ARCH, cfg.value.id)] = VExt("ArchiveConfig", z3.Const("c09_archive_config", C09.ext_sort("ArchiveConfig")))
        reg.attr_models[("ArchiveConfig", cfg.attr)] = lambda ex, st, o, a=cfg.attr: VInt(z3.Int(f"c09_config_{a}"))

    class CountExecutor(C09.FsExecutor):
        """a dict used as a count map: `sel(key term) -> Int term`; a key is present iff its count is >= 1 (stores of smaller values are refused);
        a collections.Counter answers 0 for a missing key"""
        def _sel(self, st, m):
            return st.ghost[("countmap", m.t.get_id())]

        def get_index(self, st, base, idx, node):
            if isinstance(base, VExt) and base.sort == "CountMap" and isinstance(idx, VStr):
                v = self._sel(st, base)(idx.t)
                if not counter:
                    st = self.fork_raise(st, v < 1, "KeyError")
                return [] if st is None else [(st, VInt(v))]
            return super().get_index(st, base, idx, node)

        def store_index(self, st, base, idx, v, node):
            if isinstance(base, VExt) and base.sort == "CountMap":
                if not (isinstance(idx, VStr) and isinstance(v, VInt)):
                    raise Unsupported(f"{self.loc(node)} count map stored with {idx!r}: {v!r}")
                from pyvc import ops
                old, k, val = self._sel(st, base), idx.t, ops.int_term(v)
                self.add_vc("block", COUNT_ID, st.pc, val >= 1, note="a value stored into the count map is a positive count", loc=self.loc(node))
                st.ghost[("countmap", base.t.get_id())] = lambda q, old=old, k=k, val=val: z3.If(q == k, val, old(q))
                st.ghost["countmap_stores"] = st.ghost.get("countmap_stores", 0) + 1
                return [st]
            return super().store_index(st, base, idx, v, node)

        def contains(self, st, container, item, node):
            if isinstance(container, VExt) and container.sort == "CountMap" and isinstance(item, VStr):
                return [(st, VBool(self._sel(st, container)(item.t) >= 1))]
            return super().contains(st, container, item, node)

    def m_get(ex, st, obj, args, kwargs, node):
        if not (1 <= len(args) <= 2) or kwargs or not isinstance(args[0], VStr):
            return ex.havoc_call(st, "dict.get", args, node)
        v = ex._sel(st, obj)(args[0].t)
        dflt = args[1] if len(args) == 2 else NONE
        if isinstance(dflt, VInt):
            from pyvc import ops
            return [(st, VInt(z3.If(v >= 1, v, ops.int_term(dflt))))]
        s_abs = st.fork()
        s_abs.assume(v < 1)
        st.assume(v >= 1)
        return [(st, VInt(v)), (s_abs, dflt)]
    reg.method_models[("CountMap", "get")] = m_get
    uni = Universe(repo or loader.REPO)
    ex = CountExecutor(mod, reg, uni)
    ex.oid_prefix = f"C09/archive_extractor.py::{FN}"
    fi = z3.Const("c09_entry", C09.FileInfoS)
    key = z3.String("c09_any_key")
    inc_cond = lambda: z3.And(z3.Not(C09.ISDIR(fi)), C09.NORMPATH(C09.FNAME(fi)) == key)

    def fresh_state(env_of, in_fn=None, body=()):
        st = State()
        m = VExt("CountMap")
        env = env_of(st, m)
        # other work lists the body appends to (bound once, to an empty list): any earlier content is irrelevant to one iteration
        for nm in sorted({n.id for b in body for n in ast.walk(b) if isinstance(n, ast.Name) and isinstance(n.ctx, ast.Load)} - set(env)):
            b = _binding(fnode, nm)
            if b is not None and isinstance(b.value, ast.List) and not b.value.elts:
                env[nm] = VRef(st.alloc(HeapObj("list", [], None, False), ex.refs))
        st.frames = [Frame(env, None, in_fn or fnode)]
        return st, m

    def within(fn_node, thunk):
        ex.cur_fn_stack.append(fn_node)
        ex.sinks.append([])
        try:
            return thunk()
        finally:
            ex.sinks.pop()
            ex.cur_fn_stack.pop()

    def conds(st, pairs, in_fn=None):
        """evaluate the filter conditions of a filtered entry list on the symbolic entry -> z3 Bool (one state only), None when they fork"""
        acc = []
        for (tname, ifs) in pairs:
            for c in ifs:
                st.frames[-1].env[tname] = VExt("FileInfo", fi)
                res = within(in_fn or fnode, lambda c=c: ex.ev(c, st))
                if len(res) != 1:
                    return None
                st2, v = res[0]
                if st2 is not st and len(st2.pc) != len(st.pc):
                    return None
                t = ex.truth(st2, v)
                acc.append(t.t if hasattr(t, "t") else z3.BoolVal(bool(t)))
        return z3.And(acc + [z3.BoolVal(True)])

    notes = []
    line = shape["count_line"]
    # ---- count step
    M0 = z3.Function("c09_count_map_before", S, z3.IntSort())
    try:
        if not counter:
            cl = shape["loop"]

            def env1(st, m):
                st.ghost[("countmap", m.t.get_id())] = lambda q: M0(q)
                return {cl.target.id: VExt("FileInfo", fi), mname: m}
            st, m = fresh_state(env1, None, cl.body)
            vis = conds(st, shape["count_filters"])
            if vis is None:
                raise Unsupported("the filter of the counted entry list is not a plain condition")
            ex.add_vc("block", COUNT_ID, [z3.Not(vis)], z3.Not(inc_cond()), note="an entry the counting pass does not visit must be one that is not counted (a directory)", loc=f"{ARCH}:{line}")
            st.assume(vis)
            outs = within(fnode, lambda: ex.exec_block(cl.body, st))
            for o in outs:
                if o.kind in ("fall", "continue"):
                    s2 = o.st
                    s2.assume(M0(key) >= 0)
                    after = s2.ghost[("countmap", m.t.get_id())](key)
                    ex.add_vc("block", COUNT_ID, s2.pc, after == M0(key) + z3.If(inc_cond(), 1, 0), note=f"one iteration of the counting pass (line {line})", loc=f"{ARCH}:{line}")
                else:
                    ex.add_vc("block", COUNT_ID, o.st.pc, z3.BoolVal(False), note=f"the counting pass can end early ({o.kind}): later entries are not counted", loc=f"{ARCH}:{line}")
        else:
            g, helper = shape["gen"], shape["helper"]
            gen = g.generators[0]
            hn = helper or fnode

            def env1(st, m):
                return {gen.target.id: VExt("FileInfo", fi)}
            st, m = fresh_state(env1, hn)
            vis = conds(st, shape["count_filters"])
            own = conds(st, [(gen.target.id, list(gen.ifs))], hn)
            if vis is None or own is None:
                raise Unsupported("the filter of the counted entry list is not a plain condition")
            res = within(hn, lambda: ex.ev(g.elt, st))
            if len(res) != 1 or not isinstance(res[0][1], VStr):
                raise Unsupported("the key expression of the Counter is not a plain string expression")
            s2, kv = res[0]
            counted = z3.And(vis, own)
            # Counter(k(e) for e in L if c(e)): entry e adds one to k(e) when c(e), nothing otherwise
            ex.add_vc("block", COUNT_ID, s2.pc + [counted], z3.And(z3.Not(C09.ISDIR(fi)), kv.t == C09.NORMPATH(C09.FNAME(fi))), note=f"an entry the Counter counts (line {line})", loc=f"{ARCH}:{line}")
            ex.add_vc("block", COUNT_ID, s2.pc + [z3.Not(counted)], C09.ISDIR(fi), note=f"an entry the Counter leaves out (line {line})", loc=f"{ARCH}:{line}")
    except Unsupported as e:
        notes.append((COUNT_ID, "OUT-OF-SUBSET " + str(e)))
    # ---- filter step (only when the work-list pass is recognised: otherwise the BOUNDED native scopes stay its only check)
    try:
        wl = {}
        if fl is None:
            raise _Skip()

        def env2(st, m):
            st.ghost[("countmap", m.t.get_id())] = lambda q: CNT(q)
            wl["ref"] = VRef(st.alloc(HeapObj("list", [], None, False), ex.refs))
            return {fl.target.id: VExt("FileInfo", fi), mname: m, wname: wl["ref"]}
        st, m = fresh_state(env2, None, fl.body)
        vis2 = conds(st, shape["list_filters"])
        if vis2 is None:
            raise Unsupported("the filter of the work-list pass's entry list is not a plain condition")
        st.assume(vis2)
        outs = within(fnode, lambda: ex.exec_block(fl.body, st))
        for o in outs:
            st = o.st
            if o.kind not in ("fall", "continue", "break"):
                continue                                      # a raise / return ends the pass: nothing is appended by it
            if st.ghost.get("countmap_stores"):
                ex.add_vc("block", FILTER_ID, st.pc, z3.BoolVal(False), note="the count map is stored to while the work list is built", loc=f"{ARCH}:{fl.lineno}")
                continue
            obj = st.obj(wl["ref"].ref)
            items = obj.data if obj.kind == "list" and isinstance(obj.data, list) else None
            if items is None:
                ex.add_vc("block", FILTER_ID, st.pc + [C09.OVER], z3.BoolVal(False), note="the work list was handed to code without a model", loc=f"{ARCH}:{fl.lineno}")
                continue
            if not items:
                ex.add_vc("block", FILTER_ID, st.pc, z3.BoolVal(True), note="nothing appended on this path", loc=f"{ARCH}:{fl.lineno}")
                continue
            name = C09.FNAME(fi)
            st.assume(CNT(C09.NORMPATH(name)) >= 0)
            goal = []
            for it in items:
                strs = [x.t for x in (it.items if isinstance(it, VTuple) else [it]) if isinstance(x, VStr)]
                goal.append(z3.And(z3.Or([t == name for t in strs] + [z3.BoolVal(False)]), CNT(C09.NORMPATH(name)) <= 1))
            wl["appended"] = wl.get("appended", 0) + 1
            ex.add_vc("block", FILTER_ID, st.pc, z3.And(goal), note=f"an entry appended to the work list (line {fl.lineno})", loc=f"{ARCH}:{fl.lineno}")
        if not wl.get("appended"):
            notes.append((FILTER_ID, "no path of the work-list pass appends an entry (vacuity)"))
    except _Skip:
        pass
    except Unsupported as e:
        notes.append((FILTER_ID, "OUT-OF-SUBSET " + str(e)))
    obls = []
    have = set()
    for ob in ex.obls.values():
        d = verify.discharge(ob, None, {})
        obls.append(dict(d, function=f"{ARCH}::{FN}"))
        have.add(d["id"])
    for label, why in notes:
        obls = [o for o in obls if o["id"] != PRE + label]
        obls.append(_unknown(label, why))
        have.add(PRE + label)
    for label in (COUNT_ID,) + ((FILTER_ID,) if fl is not None else ()):
        if PRE + label not in have:
            obls.append(_unknown(label, "no verification condition was generated for this clause (vacuity)"))
    for o in obls:
        if o["status"] != "proved":
            o.setdefault("replay_hint", {"first": ["collisions"]})
    return {"obligations": obls, "functions": [dict(mod.fn_info(FN), obligations=len(obls))]}
