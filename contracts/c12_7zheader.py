"""C12 round 7 -- the 7z header parser allocates per DECLARED count: contracts on `SevenZipReader` methods that repeat a sequence.

The header of a 7z archive (at most the archive itself, possibly LZMA-packed) declares counts as 7z numbers (up to 2^64 - 1).  A method
that writes `[x] * n` with such a count allocates `n` slots before a single byte of per-item data has been read.  The obligation at
every repetition site of a method under contract here (`amp-bounded#repeat-site[7z-number]`):

        n <= REPEAT_CAP   or   n <= size of the header stream (`len(self._stream.getbuffer())`)

i.e. the allocation is bounded by a constant or by the input.  Functions under contract are found by what they do: methods of the reader
class that contain a repetition of a list display by a non-constant count.

* a method whose count is a PARAMETER (`_read_boolean_vector(self, count, ..)`) is verified under `requires count <= max(REPEAT_CAP, header
  size)`; the requirement is an obligation (`call-pre#..`) at every call site inside the methods under contract here (the loop cut keeps
  the object and its stream binding: `AmpExecutor.havoc_loop_state`).  A call site whose argument is a size of an object that already
  exists (`len(stream_less)`: `C12.size_only` on the real AST) meets it by the round-5 rule (the repetition allocates at most what the
  data already occupies).  Call sites in methods that are NOT under contract (`not_checked_call_sites`, reported in the evidence as
  assumed) are not covered.
* model of the rest of the class, read off the real AST (no contract assumed about values): a call `self.m(..)` of a method of the same
  class returns an arbitrary value -- an arbitrary INTEGER tagged as decoded from the input when `m` is annotated `-> int` --, may raise
  anything, moves the stream position to an arbitrary place and leaves the binding of the stream attribute alone when neither `m` nor
  what it calls (three levels) stores to it; otherwise the whole object is unknown.  Nothing about the VALUE a reader returns is assumed,
  so a refutation (a count that no guard bounds) is confirmed natively by the finding's witness before it is reported.
"""
import ast

import z3

from pyvc.contracts import FnContract, Raises
from pyvc.state import HeapObj
from pyvc.values import VExt, VInt, VRef, VUnk, fresh_name
from pyvc.verify import p_bool, p_ext, p_int, p_obj

SZ = "sharepoint2text/parsing/extractors/util/sevenzip.py"
CLS = "SevenZipReader"
TAG = "7z-number"


def _own(fnode):
    out, stack = [], list(fnode.body)
    while stack:
        n = stack.pop()
        if isinstance(n, (ast.FunctionDef, ast.AsyncFunctionDef, ast.Lambda, ast.ClassDef)):
            continue
        out.append(n)
        stack.extend(ast.iter_child_nodes(n))
    return out


def stream_attr(mod):
    """The attribute of `self` the byte readers read from: the one whose `.read(..)` is called in a method that raises on a short read."""
    best = {}
    for q, f in mod.functions.items():
        if not q.startswith(CLS + "."):
            continue
        for n in _own(f):
            if isinstance(n, ast.Call) and isinstance(n.func, ast.Attribute) and n.func.attr == "read" and isinstance(n.func.value, ast.Attribute) \
                    and isinstance(n.func.value.value, ast.Name) and n.func.value.value.id == "self":
                best[n.func.value.attr] = best.get(n.func.value.attr, 0) + 1
    return max(best, key=best.get) if best else None


def repeat_sites(fnode):
    return [n for n in _own(fnode) if isinstance(n, ast.BinOp) and isinstance(n.op, ast.Mult) and
            ((isinstance(n.left, ast.List) and not isinstance(n.right, ast.Constant)) or (isinstance(n.right, ast.List) and not isinstance(n.left, ast.Constant)))]


def count_params(fnode):
    """parameters (other than self) that are the count of a repetition site of the function"""
    ps = [a.arg for a in fnode.args.posonlyargs + fnode.args.args][1:]
    out = []
    for s in repeat_sites(fnode):
        c = s.right if isinstance(s.left, ast.List) else s.left
        if isinstance(c, ast.Name) and c.id in ps and c.id not in out and \
                not any(isinstance(x, (ast.Assign, ast.AugAssign, ast.AnnAssign)) and any(isinstance(t, ast.Name) and t.id == c.id for t in ast.walk(x) if isinstance(getattr(t, "ctx", None), ast.Store)) for x in _own(fnode)):
            out.append(c.id)
    return out


def stores_attr(mod, q, attr, depth=0, seen=None):
    """method `q` of the class, or a method of the class it calls (three levels), stores to `self.<attr>`"""
    seen = set() if seen is None else seen
    f = mod.functions.get(q)
    if f is None or q in seen:
        return f is None
    seen.add(q)
    for n in ast.walk(f):
        if isinstance(n, ast.Attribute) and n.attr == attr and isinstance(n.ctx, (ast.Store, ast.Del)):
            return True
        if isinstance(n, ast.Call) and isinstance(n.func, ast.Name) and n.func.id in ("setattr", "delattr", "vars"):
            return True
        if isinstance(n, ast.Attribute) and n.attr == "__dict__":
            return True
    if depth >= 3:
        return any(isinstance(n, ast.Call) and isinstance(n.func, ast.Attribute) and isinstance(n.func.value, ast.Name) and n.func.value.id == "self" for n in ast.walk(f))
    for n in ast.walk(f):
        if isinstance(n, ast.Call) and isinstance(n.func, ast.Attribute) and isinstance(n.func.value, ast.Name) and n.func.value.id == "self":
            if stores_attr(mod, f"{CLS}.{n.func.attr}", attr, depth + 1, seen):
                return True
    return False


def returns_int(f):
    return f.returns is not None and ast.unparse(f.returns) == "int"


def targets(mod):
    """[(qualname, params, count parameters)] of the methods under contract, in source order."""
    out = []
    for q, f in mod.functions.items():
        if q.startswith(CLS + ".") and q.count(".") == 1 and repeat_sites(f):
            ps = [a.arg for a in f.args.posonlyargs + f.args.args]
            if ps and ps[0] == "self" and not f.args.vararg and not f.args.kwarg:
                out.append((q, ps, count_params(f)))
    return out


def not_checked_call_sites(mod):
    """call sites of a method with a count parameter that lie in methods NOT under contract here: their `requires` is not checked"""
    ts = {q for q, _p, cp in targets(mod)}
    withreq = {q.split(".")[-1] for q, _p, cp in targets(mod) if cp}
    out = []
    for q, f in mod.functions.items():
        if q in ts:
            continue
        for n in ast.walk(f):
            if isinstance(n, ast.Call) and isinstance(n.func, ast.Attribute) and n.func.attr in withreq and isinstance(n.func.value, ast.Name) and n.func.value.id == "self":
                out.append(f"{q}:{n.lineno}")
    return sorted(set(out))


# ------------------------------------------------------------------ executor side (called from C12.AmpExecutor in header mode) --
def size_term(ex, st):
    """BSIZE of the stream object bound to self.<stream attribute> at function entry (kept in the executor)."""
    return getattr(ex, "_hdr_size", None)


def bound_goal(ex, n):
    from contracts import C12
    s = size_term(ex, None)
    return z3.Or(n <= C12.REPEAT_CAP, n <= s) if s is not None else n <= C12.REPEAT_CAP


def method_call(ex, st, f, args, kwargs, node):
    """`self.m(..)` for a method of the reader class without a contract (see the module docstring).  -> outcomes or None (not ours)."""
    hdr = ex.header
    if not f.b.startswith(CLS + ".") or f.a != ex.module.rel:
        return None
    fn = ex.module.functions.get(f.b)
    selfv = next((a for a in args if isinstance(a, VRef) and st.obj(a.ref).cls == CLS), None)
    if fn is None or selfv is None:
        return None
    attr = hdr["stream"]
    keep = None
    if not stores_attr(ex.module, f.b, attr):
        o = st.obj(selfv.ref)
        if o.kind == "obj" and isinstance(o.data, dict) and isinstance(o.data.get(attr), VExt):
            keep = o.data[attr]
    ex.exc_any(st.fork(), f"{ex.loc(node)} call {f.b}")
    # an integer handed to a method the model does not follow: the method may refuse it (raise) -- a later solver model in which that
    # integer is large is not a counterexample of the real code (round 8: `handed_out`)
    seen = set(st.ghost.get("c12_handed_out", ()))
    for a in list(args) + list((kwargs or {}).values()):
        if isinstance(a, VInt) and a.const() is None:
            seen |= _consts(a.t)
    if seen:
        st.ghost["c12_handed_out"] = frozenset(seen)
    for a in args:
        if isinstance(a, VRef) and a is not selfv:
            o = st.obj(a.ref)
            st.heap[a.ref] = HeapObj("unk", None, o.cls, o.fresh)
    if keep is None:
        st.heap[selfv.ref] = HeapObj("unk", None, CLS, False)
    else:
        from contracts import common
        st.heap[selfv.ref] = HeapObj("obj", {attr: keep}, CLS, False)
        p = z3.Int(fresh_name("pos_after_read"))
        st.assume(p >= 0)
        st.ghost[common.pos_key(keep)] = p          # the position after the call: anywhere
    if returns_int(fn):
        return [(st, VInt(z3.Int(fresh_name(f"int_from_input[{TAG}]"))))]
    return [(st, VUnk(f"repo:{f.b}"))]


def _consts(t):
    out, stack, seen = set(), [t], set()
    while stack:
        x = stack.pop()
        if x.get_id() in seen or not z3.is_app(x):
            continue
        seen.add(x.get_id())
        if x.num_args() == 0 and x.decl().kind() == z3.Z3_OP_UNINTERPRETED:
            out.add(x.decl().name())
        stack.extend(x.children())
    return out


def handed_out(st, t):
    """the integer term mentions a constant that was an argument of an unmodelled method call on this path"""
    h = st.ghost.get("c12_handed_out")
    return bool(h) and bool(_consts(t) & set(h))


def guard_method(mod, q):
    """`q` is a small guard of the class: no loop / comprehension / yield, no `return <value>`, at least one `raise`, an `int` parameter,
    no store to an attribute or subscript (pure check of its arguments against the object's state)"""
    f = mod.functions.get(q)
    if f is None or not q.startswith(CLS + ".") or sum(1 for _ in ast.walk(f)) > 200:
        return False
    ps = (f.args.posonlyargs + f.args.args)[1:]
    if not any(p.annotation is not None and ast.unparse(p.annotation) == "int" for p in ps) or f.args.vararg or f.args.kwarg:
        return False
    own = _own(f)
    if any(isinstance(n, (ast.For, ast.While, ast.ListComp, ast.GeneratorExp, ast.SetComp, ast.DictComp, ast.Yield, ast.YieldFrom, ast.Await,
                          ast.Global, ast.Nonlocal, ast.Delete, ast.With, ast.Try)) for n in own):
        return False
    if any(isinstance(n, ast.Return) and n.value is not None and not (isinstance(n.value, ast.Constant) and n.value.value is None) for n in own):
        return False
    if any(isinstance(n, (ast.Attribute, ast.Subscript)) and isinstance(n.ctx, (ast.Store, ast.Del)) for n in own):
        return False
    return any(isinstance(n, ast.Raise) for n in own)


def contracts(reg, mod):
    """-> [(FnContract, executor kw)]"""
    from contracts import C12
    attr = stream_attr(mod)
    if attr is None:
        return []
    out = []
    ts = targets(mod)
    for q, ps, cps in ts:
        fnode = mod.functions[q]
        if any(isinstance(n, ast.Attribute) and n.attr == attr and isinstance(n.ctx, (ast.Store, ast.Del)) for n in ast.walk(fnode)):   # re-binds the stream itself: the size term would be stale
            continue
        params = [("self", p_obj(CLS, {attr: p_ext("BytesIO")}))]
        a = fnode.args
        plist = (a.posonlyargs + a.args)[1:]
        defaults = [None] * (len(plist) - len(a.defaults)) + list(a.defaults)
        ok = True
        for p, d in zip(plist, defaults):
            t = ast.unparse(p.annotation) if p.annotation is not None else ""
            if t == "int":
                params.append((p.arg, p_int()))
            elif t == "bool":
                dv = d.value if isinstance(d, ast.Constant) and isinstance(d.value, bool) else None
                params.append((p.arg, p_bool() if dv is None else _p_bool_default(dv)))
            else:
                ok = False
        if not ok:
            continue

        def req(c, cps=tuple(cps), attr=attr):
            so = c.st.obj(c.args["self"].ref) if isinstance(c.args["self"], VRef) else None
            s = so.data.get(attr) if so is not None and so.kind == "obj" and isinstance(so.data, dict) else None
            if getattr(c.ex, "_hdr_size", None) is None and isinstance(s, VExt):
                c.ex._hdr_size = C12.BSIZE(s.t)          # first evaluation = entry of the function under verification
            if not cps or c.st.ghost.get("c12_count_is_a_size"):
                return z3.BoolVal(True)
            terms = []
            for p in cps:
                if not isinstance(c.args[p], VInt):
                    return C12.NOTDEF          # a count of unknown origin: not decided by the model
                n = c.args[p].t
                if handed_out(c.st, n):
                    return C12.NOTDEF          # an unmodelled method has seen the count (it may have refused it)
                terms.append(z3.Or(n <= C12.REPEAT_CAP, n <= C12.BSIZE(s.t)) if isinstance(s, VExt) else n <= C12.REPEAT_CAP)
            return z3.And(*terms)

        c = FnContract(
            target=f"{SZ}::{q}", params=params, requires=req,
            raises=[Raises("Exception", sub=True)], modifies=("self",),
            note="every `[x] * n` allocates at most max(REPEAT_CAP, size of the header stream) slots"
                 + (f"; requires that of the count parameter(s) {', '.join(cps)} (checked at the call sites in the methods under contract)" if cps else ""),
        )
        out.append((c, {"abstract": True, "inline_calls": False, "inline_local": False, "header": {"stream": attr, "count_params": {x[0]: x[2] for x in ts}}}))
    return out


def _p_bool_default(v):
    from pyvc.values import VBool
    m = p_bool()
    m.default = lambda ex, st: VBool(z3.BoolVal(v))
    return m
