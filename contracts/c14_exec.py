"""Pack-local executor for C14 (images bit-exact, numbered, on the right unit).

Adds to `contracts/c03_exec.UnitsExecutor` (abstract dataclass instances, abstract lists), without
touching the engine:

* **byte strings of symbolic length** -- `VSeq(is_bytes=True)` over an array `D : Int -> BitVec 8`
  and a length `N`: `startswith`, `==` / `in` against constant byte strings, clamped slices (engine),
  `int.from_bytes(slice, order, signed=)`, `struct.unpack(fmt, slice)`, `struct.unpack_from(fmt, data, off)`.
  A slice whose length is not fixed by the path condition forks over the feasible lengths
  (Python clamps slices; a short slice gives a short integer -- the real semantics, not a shortcut).
* **lists of strings as z3 sequences** (`zlist`): `s.split("/")` is the uninterpreted segment
  function `SEGS(s) : Seq(String)`, `"/".join(l)` is `JOINS(l)`; `+`, `append`, `pop`, truthiness,
  `for part in l` are exact sequence operations, so a fold over the segments can be proved against
  the spec fold by a loop invariant over the processed prefix.
* **image / table observation of yielded units** for the unit-view obligations.
"""
from __future__ import annotations

import ast

import z3

from pyvc import ops
from pyvc.ops import Unsupported
from pyvc.state import Frame, HeapObj
from pyvc.values import (NONE, V, VBool, VBytes, VExt, VFunc, VInt, VNoneT, VRef, VSeq, VStr, VTuple, VType, VUnk,
                         ext_sort, fresh_name)
from pyvc.verify import Maker

from contracts.c03_exec import UnitsExecutor, fresh_seq_like, ekind_of_value

I, S, B = z3.IntSort(), z3.StringSort(), z3.BoolSort()
BV8 = z3.BitVecSort(8)
SS = z3.SeqSort(S)

SEGS = z3.Function("segments", S, SS)            # s.split("/")
JOINS = z3.Function("join_slash", SS, S)         # "/".join(l)


# ------------------------------------------------------------------ symbolic byte strings --
def p_symbytes():
    """bytes of symbolic length: array D (Int -> BV8) and length N >= 0."""
    def mk(ex, st, name):
        D = z3.Array(f"{name}.D", I, I)
        N = z3.Int(f"{name}.len")

        def decode(model, D=D, N=N):
            n = model.eval(N, model_completion=True).as_long()
            return {"len": n, "head": [model.eval(z3.Select(D, z3.IntVal(k)), model_completion=True).as_long() & 255 for k in range(min(n, 96))]}
        ex.witness_terms = getattr(ex, "witness_terms", {})
        ex.witness_terms[name] = decode
        return [(z3.And(N >= 0, byte_range(D)), VSeq(N, lambda i, D=D: VInt(byte_int(D, i)), "byte", True, tag=("symbytes", D, N)))]
    return Maker(mk, desc="bytes (symbolic length)")


def data_of(v: VSeq):
    """(D, N) of a parameter made by p_symbytes."""
    return v.tag[1], v.tag[2]


def byte_int(D, i):
    """Integer value (0..255) of byte i (D : Int -> Int with the range axiom `byte_range(D)`)."""
    return z3.Select(D, i)


def byte_range(D):
    k = z3.Int("k!byte")
    return z3.ForAll([k], z3.And(z3.Select(D, k) >= 0, z3.Select(D, k) <= 255), patterns=[z3.Select(D, k)])


def _bi(v):
    """Int term (0..255) of a byte value."""
    if isinstance(v, VInt):
        if v.is_bv:
            return z3.BV2Int(v.t if v.t.size() == 8 else z3.Extract(7, 0, v.t), False)
        return v.t
    raise Unsupported(f"byte value {v!r}")


def uint_of(bs, order):
    """Unsigned integer (Int term) of a list of byte terms (Ints in 0..255)."""
    if order == "little":
        bs = list(reversed(bs))
    acc = z3.IntVal(0)
    for t in bs:
        acc = acc * 256 + t
    return z3.simplify(acc) if bs else acc


def sint_of(bs, order):
    if not bs:
        return z3.IntVal(0)
    u = uint_of(bs, order)
    n = len(bs)
    return z3.If(u >= (1 << (8 * n - 1)), u - (1 << (8 * n)), u)


STRUCT_CODES = {"B": (1, False), "b": (1, True), "H": (2, False), "h": (2, True), "I": (4, False), "i": (4, True),
                "L": (4, False), "l": (4, True), "Q": (8, False), "q": (8, True)}


def parse_fmt(fmt):
    order = "little" if fmt[:1] == "<" else ("big" if fmt[:1] in (">", "!") else None)
    if order is None:
        return None
    fields = []
    for ch in fmt[1:]:
        if ch not in STRUCT_CODES:
            return None
        fields.append(STRUCT_CODES[ch])
    return order, fields


class BytesMixin:
    MAX_INT_BYTES = 8

    def is_symbytes(self, v):
        return isinstance(v, VSeq) and v.is_bytes

    def const_bytes(self, v):
        if isinstance(v, VBytes):
            cs = [x.const() for x in v.items]
            if all(c is not None for c in cs):
                return cs
        return None

    def bytes_prefix_eq(self, seq: VSeq, cs, exact):
        conds = [seq.length == len(cs) if exact else seq.length >= len(cs)]
        for k, c in enumerate(cs):
            conds.append(_bi(seq.elem(z3.IntVal(k))) == c)
        return z3.And(conds)

    def fixed_length_forks(self, st, seq: VSeq, node, limit=None):
        """[(state, L)] for the feasible concrete lengths of a short byte sequence."""
        limit = self.MAX_INT_BYTES if limit is None else limit
        n = z3.simplify(seq.length)
        if z3.is_int_value(n):
            return [(st, n.as_long())]
        if self.feasible(st.pc, n > limit):
            raise Unsupported(f"{self.loc(node)} integer from a byte string of unbounded length")
        out = []
        for L in range(0, limit + 1):
            if self.feasible(st.pc, n == L):
                out.append((st.fork().assume(n == L), L))
        return out

    def m_from_bytes(self, st, args, kwargs, node):
        data = args[0]
        order = args[1] if len(args) > 1 else kwargs.get("byteorder", VStr("big"))
        signed = kwargs.get("signed", VBool(False))
        o, sg = (order.const() if isinstance(order, VStr) else None), (signed.const() if isinstance(signed, VBool) else None)
        if o not in ("big", "little") or sg is None:
            raise Unsupported(f"{self.loc(node)} int.from_bytes with symbolic byte order / signedness")
        if isinstance(data, VBytes):
            bvs = [_bi(x) for x in data.items]
            return [(st, VInt(sint_of(bvs, o) if sg else uint_of(bvs, o)))]
        if not self.is_symbytes(data):
            return self.havoc_call(st, "int.from_bytes", args, node)
        out = []
        for (s2, L) in self.fixed_length_forks(st, data, node):
            bvs = [_bi(data.elem(z3.IntVal(k))) for k in range(L)]
            out.append((s2, VInt(sint_of(bvs, o) if sg else uint_of(bvs, o))))
        return out

    def struct_error(self, st, node):
        for name in ("struct.error", "error"):
            if self.uni.known(name):
                self.raise_in(st, self.mk_exc(name))
                return
        raise Unsupported(f"{self.loc(node)} struct.error is not in the exception universe")

    def m_struct_unpack(self, st, args, kwargs, node, from_=False):
        fmt = args[0].const() if args and isinstance(args[0], VStr) else None
        pf = parse_fmt(fmt) if fmt is not None else None
        if pf is None or len(args) < 2 or not (self.is_symbytes(args[1]) or isinstance(args[1], VBytes)):
            return self.havoc_call(st, "struct.unpack", args, node)
        order, fields = pf
        size = sum(w for w, _s in fields)
        data = args[1]
        if isinstance(data, VBytes):
            data = VSeq(z3.IntVal(len(data.items)), lambda i, items=data.items: self._sel_concrete(items, i), "byte", True)
        out = []
        if from_:
            off = args[2] if len(args) > 2 else kwargs.get("offset", VInt(0))
            ot = ops.int_term(off)
            bad = z3.Or(ot < 0, ot + size > data.length)
            if self.feasible(st.pc, bad):
                self.struct_error(st.fork().assume(bad), node)
            if not self.feasible(st.pc, z3.Not(bad)):
                return []
            st = st.assume(z3.Not(bad))
            base = ot
        else:
            bad = data.length != size
            if self.feasible(st.pc, bad):
                self.struct_error(st.fork().assume(bad), node)
            if not self.feasible(st.pc, z3.Not(bad)):
                return []
            st = st.assume(z3.Not(bad))
            base = z3.IntVal(0)
        vals, pos = [], 0
        for (w, sg) in fields:
            bvs = [_bi(data.elem(z3.simplify(base + pos + k))) for k in range(w)]
            vals.append(VInt(sint_of(bvs, order) if sg else uint_of(bvs, order)))
            pos += w
        out.append((st, VTuple(vals)))
        return out


# ----------------------------------------------------------------- lists as z3 sequences --
def zl(st, ex, term, fresh=True, ekind="str") -> VRef:
    """Heap cell holding a z3 sequence term; `ekind`: "str" | ("obj", sort name) | ("wrap", ctor, field, inner ekind)."""
    return VRef(st.alloc(HeapObj("zlist", term, ekind, fresh), ex.refs))


def zelem(ekind, t):
    if ekind == "str" or ekind is None:
        return VStr(t)
    if isinstance(ekind, tuple) and ekind[0] == "obj":
        return VExt(ekind[1], t)
    raise Unsupported(f"element of a sequence-valued list of kind {ekind!r}")


_ZF: dict = {}


def zfield(cls, f, esort):
    """Uninterpreted list field as a sequence:  <cls>.<f>.seq : cls -> Seq(esort)."""
    key = (cls, f, esort)
    if key not in _ZF:
        _ZF[key] = z3.Function(f"{cls}.{f}.seq", ext_sort(cls), z3.SeqSort(ext_sort(esort)))
    return _ZF[key]


def ofield(cls, f, esort):
    key = ("o", cls, f, esort)
    if key not in _ZF:
        _ZF[key] = z3.Function(f"{cls}.{f}", ext_sort(cls), ext_sort(esort))
    return _ZF[key]


TRUTHY = z3.Function("table_truthy", ext_sort("__table__"), B)     # bool(<list of rows>): the table has rows


class ZListMixin:
    def is_zlist(self, st, v):
        return isinstance(v, VRef) and st.obj(v.ref).kind == "zlist"

    def zterm(self, st, v):
        """Seq(String) term of a zlist / a concrete list of strings, or None."""
        if self.is_zlist(st, v):
            return st.obj(v.ref).data
        items = self.concrete_items(st, v) if isinstance(v, (VRef, VTuple)) else None
        if items is not None and all(isinstance(x, VStr) for x in items):
            if not items:
                return z3.Empty(SS)
            us = [z3.Unit(x.t) for x in items]
            return us[0] if len(us) == 1 else z3.Concat(*us)
        return None

    def m_split(self, st, args, kwargs, node):
        s = args[0]
        if len(args) == 2 and isinstance(args[1], VStr) and args[1].const() == "/" and not kwargs:
            return [(st, zl(st, self, SEGS(s.t)))]
        return [(st, VUnk("str.split"))]

    def m_rsplit(self, st, args, kwargs, node):
        """s.rsplit(sep, 1): exact model -- [head, tail] around the last separator, or [s]."""
        s = args[0]
        if len(args) == 3 and isinstance(args[1], VStr) and args[1].const() is not None and len(args[1].const()) == 1 \
                and isinstance(args[2], VInt) and args[2].const() == 1:
            sep = args[1].t
            has = z3.Contains(s.t, sep)
            out = []
            if self.feasible(st.pc, has):
                s2 = st.fork().assume(has)
                k = z3.LastIndexOf(s.t, sep)
                head = z3.SubString(s.t, 0, k)
                tail = z3.SubString(s.t, k + 1, z3.Length(s.t) - k - 1)
                out.append((s2, self.new_list(s2, [VStr(head), VStr(tail)])))
            if self.feasible(st.pc, z3.Not(has)):
                s3 = st.fork().assume(z3.Not(has))
                out.append((s3, self.new_list(s3, [s])))
            return out
        return [(st, VUnk("str.rsplit"))]

    def m_rpartition(self, st, args, kwargs, node):
        s = args[0]
        if len(args) == 2 and isinstance(args[1], VStr) and args[1].const() is not None and len(args[1].const()) == 1:
            sep = args[1].t
            has = z3.Contains(s.t, sep)
            k = z3.LastIndexOf(s.t, sep)
            head = z3.If(has, z3.SubString(s.t, 0, k), z3.StringVal(""))
            mid = z3.If(has, sep, z3.StringVal(""))
            tail = z3.If(has, z3.SubString(s.t, k + 1, z3.Length(s.t) - k - 1), s.t)
            return [(st, VTuple([VStr(head), VStr(mid), VStr(tail)]))]
        return [(st, VUnk("str.rpartition"))]

    def m_join_z(self, st, args, kwargs, node):
        sep, seq = args[0], args[1]
        t = self.zterm(st, seq)
        if t is not None and isinstance(sep, VStr) and sep.const() == "/" and self.is_zlist(st, seq):
            return [(st, VStr(JOINS(t)))]
        return None


# --------------------------------------------------------------------------- executor --
class _C14Base(BytesMixin, ZListMixin, UnitsExecutor):
    """See module docstring."""

    # ---- loop specs also for inlined callees that carry their own (separately verified) contract ----
    def loop_spec(self, node):
        fnode = self.cur_fn_stack[-1] if self.cur_fn_stack else None
        if fnode is None:
            return None
        if self.inline_depth == 0:
            c = self.contract
        else:
            c = None
            for cand in self.reg.fn.values():
                if not cand.inline or "::" not in cand.target:
                    continue
                rel, qual = cand.target.split("::")
                if qual.split(".")[-1] == getattr(fnode, "name", None):
                    from pyvc import loader
                    if loader.module(rel, self.module.repo).functions.get(qual) is fnode:
                        c = cand
                        break
        if c is None and self.inline_depth > 0 and self.contract is not None and self.contract.loops and self.cur_fn_stack:
            # the loop the contract speaks about was moved into a private helper that is executed in place: the top function has no loop
            # of its own left, the helper's loops take the contract's loop specifications by position
            top = self.cur_fn_stack[0]
            if not any(isinstance(n, (ast.For, ast.While)) for n in ast.walk(top)):
                c = self.contract
        if c is None:
            return None
        loops = [n for n in ast.walk(fnode) if isinstance(n, (ast.For, ast.While))]
        loops.sort(key=lambda n: (n.lineno, n.col_offset))
        try:
            k = loops.index(node)
        except ValueError:
            return None
        dl = getattr(self, "_deleg", None)
        if dl and dl[-1][0] is fnode:       # generator helper executed in place by `yield from` (ViewMixin._delegate)
            k += dl[-1][1]
        return c.loops.get(k)

    # ---- calls ----
    def call(self, st, f, args, kwargs, node):
        if isinstance(f, VFunc) and f.how == "classattr" and (f.a, f.b) == ("int", "from_bytes"):
            return self.m_from_bytes(st, args, kwargs, node)
        if isinstance(f, VFunc) and f.how == "ext" and f.a == "struct.unpack":
            return self.m_struct_unpack(st, args, kwargs, node)
        if isinstance(f, VFunc) and f.how == "ext" and f.a == "struct.unpack_from":
            return self.m_struct_unpack(st, args, kwargs, node, from_=True)
        return super().call(st, f, args, kwargs, node)

    def call_method(self, st, obj, name, args, kwargs, node):
        if self.is_symbytes(obj):
            if name == "startswith" and len(args) == 1:
                cs = self.const_bytes(args[0])
                if cs is not None:
                    return [(st, VBool(self.bytes_prefix_eq(obj, cs, exact=False)))]
            return self.havoc_call(st, f"bytes.{name}", args, node)
        if self.is_zlist(st, obj):
            return self.zlist_method(st, obj, name, args, kwargs, node)
        return super().call_method(st, obj, name, args, kwargs, node)

    def str_method(self, st, s, name, args, kwargs, node):
        if name == "split" and s.const() is None:
            return self.m_split(st, [s] + list(args), kwargs, node)
        if name == "rsplit" and s.const() is None:
            return self.m_rsplit(st, [s] + list(args), kwargs, node)
        if name == "rpartition" and s.const() is None:
            return self.m_rpartition(st, [s] + list(args), kwargs, node)
        if name == "join" and args:
            r = self.m_join_z(st, [s] + list(args), kwargs, node)
            if r is not None:
                return r
        return super().str_method(st, s, name, args, kwargs, node)

    # ---- clean slices / indices of byte strings (no clamping terms when the path condition rules clamping out) ----
    def _implied(self, st, cond):
        return not self.feasible(st.pc, z3.Not(cond))

    def seq_slice(self, st, base, sl, node):
        if self.is_symbytes(base) and sl.step is None:
            ln = base.length
            lo = self._ev_int1(sl.lower, st, node) if sl.lower is not None else z3.IntVal(0)
            hi = self._ev_int1(sl.upper, st, node) if sl.upper is not None else ln
            lo, hi = z3.simplify(lo), z3.simplify(hi)
            if self._implied(st, z3.And(lo >= 0, lo <= hi)):
                elem = base.elem
                if self._implied(st, hi <= ln):
                    return [(st, VSeq(z3.simplify(hi - lo), lambda i, lo=lo: elem(z3.simplify(lo + i)), base.ekind, True))]
                if self._implied(st, lo >= ln):
                    return [(st, VSeq(z3.IntVal(0), lambda i, lo=lo: elem(z3.simplify(lo + i)), base.ekind, True))]
                if self._implied(st, lo <= ln):
                    n = z3.simplify(z3.If(hi <= ln, hi - lo, ln - lo))
                    return [(st, VSeq(n, lambda i, lo=lo: elem(z3.simplify(lo + i)), base.ekind, True))]
        return super().seq_slice(st, base, sl, node)

    # ---- comparisons on byte strings ----
    def compare(self, st, op, a, b, node):
        if op in ("Eq", "NotEq"):
            for x, y in ((a, b), (b, a)):
                if self.is_symbytes(x):
                    cs = self.const_bytes(y)
                    if cs is not None:
                        t = self.bytes_prefix_eq(x, cs, exact=True)
                        return [(st, VBool(t if op == "Eq" else z3.Not(t)))]
        return super().compare(st, op, a, b, node)

    def contains(self, st, container, item, node):
        if self.is_zlist(st, container) and isinstance(item, VStr) and st.obj(container.ref).cls in (None, "str"):
            return [(st, VBool(z3.Contains(st.obj(container.ref).data, z3.Unit(item.t))))]
        if self.is_symbytes(item):
            items = self.concrete_items(st, container)
            if items is not None and all(self.const_bytes(x) is not None for x in items):
                return [(st, VBool(z3.Or([self.bytes_prefix_eq(item, self.const_bytes(x), exact=True) for x in items] + [z3.BoolVal(False)])))]
        return super().contains(st, container, item, node)

    def b_isinstance(self, st, args, kwargs, node):
        if args and self.is_zlist(st, args[0]):
            t = args[1]
            types = [x.name for x in (t.items if isinstance(t, VTuple) else [t]) if isinstance(x, VType)]
            return [(st, VBool("list" in types))]
        return super().b_isinstance(st, args, kwargs, node)

    # ---- zlists ----
    def truth(self, st, v):
        if self.is_zlist(st, v):
            return VBool(z3.Length(st.obj(v.ref).data) > 0)
        return super().truth(st, v)

    def b_len(self, st, args, kwargs, node):
        if args and self.is_zlist(st, args[0]):
            return [(st, VInt(z3.Length(st.obj(args[0].ref).data)))]
        return super().b_len(st, args, kwargs, node)

    def seq_view(self, st, it):
        if self.is_zlist(st, it):
            t = st.obj(it.ref).data
            ek = st.obj(it.ref).cls
            return z3.Length(t), (lambda k, t=t, ek=ek: zelem(ek, t[k]))
        return super().seq_view(st, it)

    def concrete_items(self, st, v):
        if isinstance(v, VRef) and st.heap.get(v.ref) is not None and st.obj(v.ref).kind == "zlist":
            return None
        return super().concrete_items(st, v)

    def binop(self, st, op, a, b, node, inplace=False):
        if op == "Add" and (self.is_zlist(st, a) or self.is_zlist(st, b)):
            ta, tb = self.zterm(st, a), self.zterm(st, b)
            if ta is not None and tb is not None and ta.sort() == tb.sort():
                ek = st.obj(a.ref).cls if self.is_zlist(st, a) else st.obj(b.ref).cls
                if inplace and self.is_zlist(st, a):
                    st.heap[a.ref] = HeapObj("zlist", z3.Concat(ta, tb), ek, st.obj(a.ref).fresh)
                    return [(st, None)]
                return [(st, zl(st, self, z3.Concat(ta, tb), ekind=ek))]
        return super().binop(st, op, a, b, node, inplace)

    def e_List(self, n, st):
        # `[*a, x, *b]` where a starred operand is a sequence-valued list of strings: the concatenation (same value as `a + [x] + b`)
        if any(isinstance(e, ast.Starred) for e in n.elts):
            acc = [(st, [])]
            for e in n.elts:
                nxt = []
                for (s, terms) in acc:
                    for (s2, v) in self.ev(e.value if isinstance(e, ast.Starred) else e, s):
                        nxt.append((s2, terms + [(isinstance(e, ast.Starred), v)]))
                acc = nxt
            out = []
            for (s, parts) in acc:
                if not any(star and self.is_zlist(s, v) for (star, v) in parts):
                    items = []
                    for (star, v) in parts:
                        if star:
                            ci = self.concrete_items(s, v)
                            if ci is None:
                                self.unsupported(n, "starred of symbolic iterable")
                            items += ci
                        else:
                            items.append(v)
                    out.append((s, self.new_list(s, items)))
                    continue
                ts = []
                for (star, v) in parts:
                    if star:
                        t = self.zterm(s, v)
                        if t is None or t.sort() != SS or (self.is_zlist(s, v) and s.obj(v.ref).cls not in (None, "str")):
                            self.unsupported(n, "starred of symbolic iterable")
                        ts.append(t)
                    elif isinstance(v, VStr):
                        ts.append(z3.Unit(v.t))
                    else:
                        self.unsupported(n, "list display mixing a sequence-valued list with non-string elements")
                out.append((s, zl(s, self, ts[0] if len(ts) == 1 else z3.Concat(*ts))))
            return out
        return super().e_List(n, st)

    def e_ListComp(self, n, st):
        # `[x for x in <sequence-valued list> if <pure tests on x>]`: some sub-sequence (fresh sequence-valued list)
        if len(n.generators) == 1 and isinstance(n.elt, ast.Name) and isinstance(n.generators[0].target, ast.Name) \
                and n.elt.id == n.generators[0].target.id and not any(isinstance(x, (ast.Call, ast.NamedExpr, ast.Yield))
                                                                       for c in n.generators[0].ifs for x in ast.walk(c)):
            mark = len(self.sinks[-1])
            res = self.ev(n.generators[0].iter, st.fork())
            if len(res) == 1 and self.is_zlist(res[0][0], res[0][1]) and res[0][0].obj(res[0][1].ref).cls in (None, "str"):
                del self.sinks[-1][mark:]
                out = []
                for (s2, it) in self.ev(n.generators[0].iter, st):
                    out.append((s2, zl(s2, self, z3.Const(fresh_name("filtered"), SS))))
                return out
            del self.sinks[-1][mark:]
        return super().e_ListComp(n, st)

    def zlist_method(self, st, obj, name, args, kwargs, node):
        o = st.obj(obj.ref)
        t = o.data
        if name == "append" and len(args) == 1 and isinstance(args[0], VStr) and o.cls in (None, "str"):
            self.note_store(st, obj.ref, node)
            st.heap[obj.ref] = HeapObj("zlist", z3.Concat(t, z3.Unit(args[0].t)), o.cls, o.fresh)
            return [(st, NONE)]
        if name == "pop" and not args:
            st = self.fork_raise(st, z3.Length(t) == 0, "IndexError")
            if st is None:
                return []
            n = z3.Length(t)
            self.note_store(st, obj.ref, node)
            st.heap[obj.ref] = HeapObj("zlist", z3.SubSeq(t, 0, n - 1), o.cls, o.fresh)
            return [(st, zelem(o.cls, t[n - 1]))]
        if name == "copy":
            return [(st, zl(st, self, t, ekind=o.cls))]
        raise Unsupported(f"{self.loc(node)} {name} on a sequence-valued list")

    def get_index(self, st, base, idx, node):
        if self.is_symbytes(base) and isinstance(idx, VInt):
            it = z3.simplify(ops.int_term(idx))
            if self._implied(st, it >= 0):
                st = self.fork_raise(st, it >= base.length, "IndexError")
                if st is None:
                    return []
                return [(st, base.elem(it))]
        if self.is_zlist(st, base) and isinstance(idx, VInt):
            t = st.obj(base.ref).data
            n = z3.Length(t)
            it = ops.int_term(idx)
            st = self.fork_raise(st, z3.Or(it >= n, it < -n), "IndexError")
            if st is None:
                return []
            return [(st, zelem(st.obj(base.ref).cls, t[z3.If(it < 0, it + n, it)]))]
        return super().get_index(st, base, idx, node)

    def havoc_loop_state(self, st, body, spec, extra_names=()):
        # lists of strings mutated by append / pop in the loop body become fresh sequence-valued lists
        zrefs = set()
        for n in body:
            for sub in ast.walk(n):
                if isinstance(sub, ast.Call) and isinstance(sub.func, ast.Attribute) and sub.func.attr in ("append", "pop") \
                        and isinstance(sub.func.value, ast.Name):
                    v = st.lookup(sub.func.value.id)
                    if isinstance(v, VRef):
                        o = st.heap.get(v.ref)
                        if o is None:
                            continue
                        if o.kind == "zlist" or (o.kind == "list" and o.data is not None and all(isinstance(x, VStr) for x in o.data)
                                                 and self._only_str_appends(st, body, sub.func.value.id)):
                            zrefs.add(v.ref)
        saved = {}
        for r in zrefs:
            saved[r] = st.heap[r]
            st.heap[r] = HeapObj("obj", {}, "__zlist_placeholder__", saved[r].fresh)
        super().havoc_loop_state(st, body, spec, extra_names)
        for r in zrefs:
            st.heap[r] = HeapObj("zlist", z3.Const(fresh_name("zl"), SS), "str", saved[r].fresh)
        if self._has_yield(body) and "YZ" in st.ghost:
            st.ghost["YZ"] = {k: z3.Const(fresh_name(f"YZ.{k}"), v.sort()) for k, v in st.ghost["YZ"].items()}

    def _only_str_appends(self, st, body, name):
        """Every `name.append(x)` in the body appends a value that is a string in the current scope (loop targets over
        sequence-valued lists are strings); decided syntactically on simple names."""
        for n in body:
            for sub in ast.walk(n):
                if isinstance(sub, ast.Call) and isinstance(sub.func, ast.Attribute) and isinstance(sub.func.value, ast.Name) \
                        and sub.func.value.id == name and sub.func.attr == "append":
                    if len(sub.args) != 1:
                        return False
        return True


class ViewMixin:
    """Unit / document views over abstract content objects (data_types.py)."""
    ZFIELDS: dict = {}        # (class, field) -> element sort: list field modelled as a z3 sequence
    OFIELDS: dict = {}        # (class, field) -> sort: opaque value (a table: list of rows) with symbolic truthiness
    VIEW: dict = {}           # contract target -> "images" | "tables" | "units"
    UNIT_SPEC: dict = {}      # contract target -> fn(ex, st, elem VExt) -> Seq term of the document tables of the element
    UNIT_NUM: dict = {}       # contract target -> fn(ex, st, units yielded before) -> Int term: the number the yielded unit must report

    def field_values(self, st, obj, f, kind):
        key = (obj.sort, f)
        if key in self.ZFIELDS:
            es = self.ZFIELDS[key]
            return [(st, zl(st, self, zfield(obj.sort, f, es)(obj.t), fresh=False, ekind=("obj", es)))]
        if key in self.OFIELDS:
            es = self.OFIELDS[key]
            return [(st, VExt(es, ofield(obj.sort, f, es)(obj.t)))]
        return super().field_values(st, obj, f, kind)

    _deleg = ()

    def view_mode(self):
        return self.VIEW.get(self.contract.target) if self.contract is not None and self.inline_depth == 0 else None

    def yz(self, st):
        return st.ghost.get("YZ")

    def yz_init(self, st, comps):
        st.ghost["YZ"] = dict(comps)

    def get_slice(self, st, base, sl, node):
        if self.is_zlist(st, base) and sl.lower is None and sl.upper is None and sl.step is None:
            o = st.obj(base.ref)
            return [(st, zl(st, self, o.data, ekind=o.cls))]
        return super().get_slice(st, base, sl, node)

    def b_collection(self, st, name, args, node):
        if args and self.is_zlist(st, args[0]) and name in ("list", "tuple"):
            o = st.obj(args[0].ref)
            return [(st, zl(st, self, o.data, ekind=o.cls))]
        return super().b_collection(st, name, args, node)

    def wrap_comp(self, n, st):
        """`[Ctor(field=x) for x in <sequence-valued list of objects>]` -> the same sequence, elements wrapped by Ctor;
        `[x for x in <sequence-valued list>]` -> a copy of the list."""
        if len(n.generators) != 1 or n.generators[0].ifs or not isinstance(n.generators[0].target, ast.Name):
            return None
        e = n.elt
        var = n.generators[0].target.id
        if isinstance(e, ast.Name) and e.id == var:
            mark = len(self.sinks[-1])
            res = self.ev(n.generators[0].iter, st.fork())
            del self.sinks[-1][mark:]
            if len(res) == 1 and self.is_zlist(res[0][0], res[0][1]) and isinstance(res[0][0].obj(res[0][1].ref).cls, tuple):
                out = []
                for (s2, it) in self.ev(n.generators[0].iter, st):
                    o = s2.obj(it.ref)
                    out.append((s2, zl(s2, self, o.data, ekind=o.cls)))
                return out
            return None
        if not (isinstance(e, ast.Call) and isinstance(e.func, ast.Name) and not e.args and len(e.keywords) == 1
                and isinstance(e.keywords[0].value, ast.Name) and e.keywords[0].value.id == var):
            return None
        if self.dataclass_fields(e.func.id) is None:
            return None
        mark = len(self.sinks[-1])
        res = self.ev(n.generators[0].iter, st.fork())
        del self.sinks[-1][mark:]
        if len(res) != 1 or not self.is_zlist(res[0][0], res[0][1]):
            return None
        ek = res[0][0].obj(res[0][1].ref).cls
        if not (isinstance(ek, tuple) and ek[0] == "obj"):
            return None
        out = []
        for (s2, it) in self.ev(n.generators[0].iter, st):
            out.append((s2, zl(s2, self, s2.obj(it.ref).data, ekind=("wrap", e.func.id, e.keywords[0].arg, ek))))
        return out

    def table_of(self, st, v, node):
        """[(state, table term)] : observation `v.get_table()` of a table object."""
        out = []
        for (s1, t) in self.call_method(st, v, "get_table", [], {}, node):
            if not (isinstance(t, VExt) and t.sort == "__table__"):
                raise Unsupported(f"{self.loc(node)} get_table() gives {t!r}")
            out.append((s1, t.t))
        return out

    def obs_tables(self, st, lst, node):
        """[(state, Seq(table) term)]: the tables `[t.get_table() for t in lst]`."""
        TS = z3.SeqSort(ext_sort("__table__"))
        if self.is_zlist(st, lst):
            o = st.obj(lst.ref)
            ek = o.cls
            if isinstance(ek, tuple) and ek[0] == "wrap" and ek[3] == ("obj", "__table__"):
                # check on an arbitrary element that the wrapper's get_table() returns the wrapped value
                probe = VExt("__table__")
                s0 = st.fork()
                w = self.new_obj(s0, ek[1], {ek[2]: probe})
                rs = self.table_of(s0, w, node)
                if len(rs) != 1 or not z3.eq(rs[0][1], probe.t):
                    raise Unsupported(f"{self.loc(node)} {ek[1]}.get_table() is not the wrapped value")
                return [(st, o.data)]
            raise Unsupported(f"{self.loc(node)} tables of kind {ek!r}")
        items = self.concrete_items(st, lst)
        if items is None:
            raise Unsupported(f"{self.loc(node)} tables {lst!r}")
        states = [(st, z3.Empty(TS))]
        for it in items:
            nxt = []
            for (s1, acc) in states:
                for (s2, t) in self.table_of(s1, it, node):
                    nxt.append((s2, z3.Concat(acc, z3.Unit(t)) if not z3.eq(acc, z3.Empty(TS)) else z3.Unit(t)))
            states = nxt
        return states

    def current_element(self, st, cls):
        """The loop variable holding the element (abstract instance of `cls`) in the innermost frame."""
        for name, v in st.frame.env.items():
            if isinstance(v, VExt) and v.sort == cls and name != "self":
                return v
        return None

    def e_ListComp(self, n, st):
        r = self.wrap_comp(n, st)
        if r is not None:
            return r
        return super().e_ListComp(n, st)

    # ---- `for x in xs: acc.append(E)` over a symbolic sequence == `acc = acc + [E for x in xs]` (loop <-> comprehension) ----
    def loop_as_comprehension(self, s, st):
        if s.orelse or len(s.body) != 1:
            return None
        b = s.body[0]
        ifs = []
        if isinstance(b, ast.If) and not b.orelse and len(b.body) == 1:
            ifs, b = [b.test], b.body[0]
        if not (isinstance(b, ast.Expr) and isinstance(b.value, ast.Call) and isinstance(b.value.func, ast.Attribute) and b.value.func.attr == "append"
                and isinstance(b.value.func.value, ast.Name) and len(b.value.args) == 1 and not b.value.keywords):
            return None
        accname = b.value.func.value.id
        elt = b.value.args[0]
        if any(isinstance(n, ast.Name) and n.id == accname for n in ast.walk(elt)) or any(isinstance(n, ast.Name) and n.id == accname for c in ifs for n in ast.walk(c)):
            return None
        if any(isinstance(n, (ast.Yield, ast.YieldFrom, ast.Await, ast.NamedExpr)) for n in ast.walk(s)):
            return None
        acc = st.lookup(accname)
        if not isinstance(acc, VRef) or st.obj(acc.ref).kind != "list" or st.obj(acc.ref).data != []:
            return None
        mark = len(self.sinks[-1])
        probe = self.ev(s.iter, st.fork())
        del self.sinks[-1][mark:]
        if len(probe) != 1 or self.concrete_items(probe[0][0], probe[0][1]) is not None or self.seq_view(probe[0][0], probe[0][1]) is None:
            return None
        comp = ast.ListComp(elt=elt, generators=[ast.comprehension(target=s.target, iter=s.iter, ifs=ifs, is_async=0)])
        ast.copy_location(comp, s)
        ast.fix_missing_locations(comp)
        from pyvc.symex import Outcome
        outs = []
        for (s2, val) in self.ev(comp, st):
            if isinstance(val, VRef):
                o = s2.obj(val.ref)
                fresh = s2.obj(acc.ref).fresh
                s2.heap[acc.ref] = HeapObj(o.kind, o.data if not isinstance(o.data, list) else list(o.data), o.cls, fresh)
                outs.append(Outcome("fall", s2))
            else:
                return None
        return outs

    def s_For(self, s, st):
        try:
            r = self.loop_as_comprehension(s, st)
        except Unsupported:
            r = None
        if r is not None:
            return r
        return super().s_For(s, st)

    # ---- `yield from helper(args)` with a same-module GENERATOR helper: the helper's body is executed in place as part of the iterator
    # under verification (its yields are yields of the iterator; its loops take the contract's loop specifications: position = the number
    # of loops of the delegating function that start before the delegation + the position inside the helper) ----
    def _delegate_fn(self, n):
        v = n.value
        if not (isinstance(v, ast.Call) and isinstance(v.func, ast.Name)) or any(isinstance(a, ast.Starred) for a in v.args) \
                or any(k.arg is None for k in v.keywords):
            return None
        fnode = self.module.functions.get(v.func.id)
        if not isinstance(fnode, ast.FunctionDef) or any(fnode is x for x in self.cur_fn_stack) or fnode.decorator_list:
            return None
        own = [x for x in ast.walk(fnode) if isinstance(x, (ast.Yield, ast.YieldFrom))]
        if not own or any(isinstance(x, ast.Return) and x.value is not None for x in ast.walk(fnode)):
            return None
        if any(isinstance(x, (ast.FunctionDef, ast.AsyncFunctionDef, ast.Lambda, ast.Try, ast.With)) for b in fnode.body for x in ast.walk(b)):
            return None
        return fnode

    def _delegate(self, n, st, fnode):
        call = n.value
        top = self.cur_fn_stack[-1] if self.cur_fn_stack else None
        before = 0
        if top is not None:
            before = sum(1 for x in ast.walk(top) if isinstance(x, (ast.For, ast.While)) and (x.lineno, x.col_offset) < (n.lineno, n.col_offset))
        if not isinstance(self._deleg, list):
            self._deleg = []
        base = (self._deleg[-1][1] if self._deleg else 0) + before
        out = []
        for (s2, args) in self.ev_list(call.args, st):
            for (s3, kwvals) in self.ev_list([k.value for k in call.keywords], s2):
                env = self.bind_params(fnode, args, {k.arg: v for k, v in zip(call.keywords, kwvals)}, call)
                s3.frames.append(Frame(env, None, fnode))
                self._deleg.append((fnode, base))
                self.cur_fn_stack.append(fnode)
                try:
                    res = self.exec_block(fnode.body, s3)
                finally:
                    self.cur_fn_stack.pop()
                    self._deleg.pop()
                for o in res:
                    o.st.frames.pop()
                    if o.kind in ("fall", "return"):
                        out.append((o.st, NONE))
                    elif o.kind == "raise":
                        self.raise_in(o.st, o.val)
                    else:
                        raise Unsupported(f"{self.loc(n)} break/continue escaping a delegated generator")
        return out

    # ---- round 8: `yield from (E for a in X for b in Y if c)` == `for a in X: for b in Y: if c: yield E` (same order, same laziness as far
    # as a consumer of the iterator can tell).  The synthetic loops take the contract's loop specifications by position (loops of the
    # function that start before the delegation + nesting depth).  Only at the top level of the iterator, only when no real loop follows
    # (their positions would shift), only plain-name targets that occur nowhere else in the function (the comprehension scope is merged
    # into the frame); anything else stays out of the subset (`unknown`). ----
    _synth = None

    def _genexp_loops(self, n):
        g = n.value
        top = self.cur_fn_stack[-1] if self.cur_fn_stack else None
        if not isinstance(g, ast.GeneratorExp) or top is None or self.inline_depth != 0 or self._deleg or len(self.cur_fn_stack) != 1:
            return None
        here = (n.lineno, n.col_offset)
        real = [x for x in ast.walk(top) if isinstance(x, (ast.For, ast.While))]
        if any((x.lineno, x.col_offset) > here for x in real):
            return None
        inside = {id(x) for x in ast.walk(g)}
        names = set()
        for c in g.generators:
            if c.is_async or not isinstance(c.target, ast.Name):
                return None
            names.add(c.target.id)
        if len(names) != len(g.generators):
            return None
        for x in ast.walk(top):
            if id(x) not in inside and ((isinstance(x, ast.Name) and x.id in names) or (isinstance(x, ast.arg) and x.arg in names)):
                return None
        if any(isinstance(x, (ast.Yield, ast.YieldFrom, ast.NamedExpr, ast.Lambda, ast.GeneratorExp, ast.ListComp, ast.SetComp, ast.DictComp))
               for x in ast.walk(g) if x is not g):
            return None
        body = [ast.copy_location(ast.Expr(value=ast.copy_location(ast.Yield(value=g.elt), g.elt)), g.elt)]
        loops = []
        for c in reversed(g.generators):
            for cond in reversed(c.ifs):
                body = [ast.copy_location(ast.If(test=cond, body=body, orelse=[]), cond)]
            f = ast.copy_location(ast.For(target=c.target, iter=c.iter, body=body, orelse=[], type_comment=None), c.target)
            loops.insert(0, f)
            body = [f]
        before = sum(1 for x in real if (x.lineno, x.col_offset) < here)
        if self._synth is None:
            self._synth = {}
        for k, f in enumerate(loops):
            self._synth[id(f)] = (f, before + k)
        return loops[0]

    def loop_spec(self, node):
        hit = (self._synth or {}).get(id(node))
        if hit is not None and hit[0] is node:
            return self.contract.loops.get(hit[1]) if self.contract is not None else None
        return super().loop_spec(node)

    def e_YieldFrom(self, n, st):
        mode = self.view_mode()
        if mode in ("images", "tables"):
            fnode = self._delegate_fn(n)
            if fnode is not None:
                return self._delegate(n, st, fnode)
            loop = self._genexp_loops(n)
            if loop is not None:
                out = []
                for o in self.exec_block([loop], st):
                    if o.kind == "fall":
                        out.append((o.st, NONE))
                    elif o.kind == "raise":
                        self.raise_in(o.st, o.val)
                    else:
                        raise Unsupported(f"{self.loc(n)} {o.kind} escaping a generator expression")
                return out
            out = []
            for (s, v) in self.ev(n.value, st):
                if self.is_zlist(s, v) and isinstance(s.obj(v.ref).cls, tuple) and s.obj(v.ref).cls[0] == "obj":
                    y = dict(self.yz(s))
                    key = "img" if mode == "images" else "tab"
                    if mode == "tables" and s.obj(v.ref).cls != ("obj", "__table__"):
                        raise Unsupported(f"{self.loc(n)} yield from a list of {s.obj(v.ref).cls!r} in a table iterator")
                    y[key] = z3.Concat(y[key], s.obj(v.ref).data)
                    s.ghost["YZ"] = y
                    out.append((s, NONE))
                else:
                    items = self.concrete_items(s, v)
                    if items is None:
                        raise Unsupported(f"{self.loc(n)} yield from {v!r}")
                    if items:
                        raise Unsupported(f"{self.loc(n)} yield from a non-empty concrete iterable in a view")
                    out.append((s, NONE))
            return out
        return super().e_YieldFrom(n, st)

    def e_Yield(self, n, st):
        mode = self.view_mode()
        if mode is None:
            return super().e_Yield(n, st)
        out = []
        for (s, v) in self.ev(n.value, st):
            s.yielded = s.yielded + [v]
            y = dict(self.yz(s))
            if mode == "images":
                if not isinstance(v, VExt):
                    raise Unsupported(f"{self.loc(n)} yield of {v!r} in an image iterator")
                y["img"] = z3.Concat(y["img"], z3.Unit(v.t))
                s.ghost["YZ"] = y
                out.append((s, NONE))
            elif mode == "tables":
                for (s2, t) in self.table_of(s, v, n):
                    y2 = dict(y)
                    y2["tab"] = z3.Concat(y["tab"], z3.Unit(t))
                    s2.ghost["YZ"] = y2
                    out.append((s2, NONE))
            else:       # units: observe get_images() and get_tables() through the real accessors
                for (s1, imgs) in self.call_method(s, v, "get_images", [], {}, n):
                    if self.is_zlist(s1, imgs):
                        it = s1.obj(imgs.ref).data
                    else:
                        items = self.concrete_items(s1, imgs)
                        if items is None or not all(isinstance(x, VExt) for x in items):
                            raise Unsupported(f"{self.loc(n)} get_images() gives {imgs!r}")
                        it = z3.Empty(y["img"].sort())
                        for x in items:
                            it = z3.Concat(it, z3.Unit(x.t)) if not z3.eq(it, z3.Empty(y["img"].sort())) else z3.Unit(x.t)
                    for (s2, tl) in self.call_method(s1, v, "get_tables", [], {}, n):
                        for (s3, tt) in self.obs_tables(s2, tl, n):
                            y2 = dict(y)
                            y2["img"] = z3.Concat(y["img"], it)
                            y2["cnt"] = y["cnt"] + 1
                            s3.ghost["YZ"] = y2
                            spec = self.UNIT_SPEC.get(self.contract.target)
                            if spec is not None:
                                want = spec(self, s3)
                                TS = z3.SeqSort(ext_sort("__table__"))
                                self.add_vc("ensures", "unit-tables-are-document-tables-of-the-same-element", s3.pc,
                                            z3.Or(tt == want, tt == z3.Empty(TS)), loc=self.loc(n))
                            nspec = self.UNIT_NUM.get(self.contract.target)
                            if nspec is not None:     # round 7: the unit reports (through its real get_metadata()) the number of its element
                                outs = None
                                try:
                                    want_n = nspec(self, s3, y["cnt"])
                                    outs = self.call_method(s3, v, "get_metadata", [], {}, n)
                                except Unsupported:
                                    outs = None
                                if not outs:
                                    s3.assume(z3.Bool(f"__havoc__@{self.loc(n)} get_metadata of the yielded unit"[:120]))
                                    self.add_vc("ensures", "unit-number-is-the-number-of-the-same-element", s3.pc, z3.BoolVal(False), loc=self.loc(n))
                                else:
                                    for (s4, md) in outs:
                                        num = None
                                        if isinstance(md, VRef) and s4.obj(md.ref).kind == "obj" and isinstance(s4.obj(md.ref).data, dict):
                                            num = s4.obj(md.ref).data.get("unit_number")
                                        goal = (ops.int_term(num) == want_n) if isinstance(num, (VInt, VBool)) else z3.BoolVal(False)
                                        self.add_vc("ensures", "unit-number-is-the-number-of-the-same-element", s4.pc, goal, loc=self.loc(n))
                            out.append((s3, NONE))
        return out

    def truth(self, st, v):
        if isinstance(v, VExt) and v.sort == "__table__":
            return VBool(TRUTHY(v.t))
        return super().truth(st, v)


class C14Executor(ViewMixin, _C14Base):
    pass


def install_models(reg):
    from contracts import c03_exec
    c03_exec.install(reg)
    # struct.unpack / unpack_from / int.from_bytes are dispatched in C14Executor.call; registering the names makes
    # `struct.unpack` resolve to an external function value
    def m_unquote(ex, st, args, kwargs, node):
        from contracts.c14_spec import PCT
        if len(args) >= 1 and isinstance(args[0], VStr) and not kwargs and len(args) == 1:
            return [(st, VStr(PCT(args[0].t)))]
        return ex.havoc_call(st, "urllib.parse.unquote", args, node)
    reg.ext_models.setdefault("urllib.parse.unquote", m_unquote)
    reg.ext_models.setdefault("struct.unpack", lambda ex, st, args, kwargs, node: ex.m_struct_unpack(st, args, kwargs, node))
    reg.ext_models.setdefault("struct.unpack_from", lambda ex, st, args, kwargs, node: ex.m_struct_unpack(st, args, kwargs, node, from_=True))
