"""C16 -- e-mail: headers, bodies, attachments and mailbox boundaries are exact (the GLUE).

Decoding correctness of RFC 2047 / MIME lives in the stdlib `email` package, `mailparser` and
`msg_parser`; their documented behaviour is ASSUMED (uninterpreted functions, listed in
ASSUMED_MODELS).  What is verified here, on the real source re-read on every run:

  mbox_email_extractor.py  _split_mbox_messages, decode_header_value, parse_email_address,
                           parse_email_addresses, get_body_content, parse_email_message,
                           read_mbox_format_mail
  eml_email_extractor.py   _read_eml_format, read_eml_format_mail
  msg_email_extractor.py   _parse_single_recipient, _parse_multi_recipients (str and list form), _looks_like_html,
                           _read_ole_string (round 7),
                           read_msg_format_mail (field mapping)
  data_types.py            EmailContent.iterate_supported_attachments
  mime_types.py            is_supported_mime_type (round 7: verified here too, same contract as the C07 pack)
  (+ ground obligations on MBOX_FROM_PATTERN, on _HTML_HINT_RE (round 7) and on the frame of populate_from_path)

Top-level postconditions are written from the property statement; see contracts/c16_exec.py for
the spec functions (piece, CNT_SP, dhv_term, FIRST_P/FIRST_H, ...).
"""
import ast

import z3

from pyvc import loader, ops
from pyvc.contracts import FnContract, LoopSpec, Raises
from pyvc.flow import ground_obligation
from pyvc.ops import Unsupported
from pyvc.state import HeapObj
from pyvc.values import NONE, VBool, VExt, VInt, VRef, VSeq, VStr, VTuple, VUnk, ext_sort, fresh_name
from pyvc.verify import Maker, p_ext, p_opt, p_str

from contracts import c03_exec as X
from contracts import c16_exec as M
from contracts.c03_exec import B, I, JOIN, K, S, STRIP, fld, fun
from contracts.c16_exec import MBOX, EML, MSG, DT, MIME, VOpt, VDyn, opt_parts, absent, seq_of, built_list

Conj = M.ConjA      # labelled conjunctions of this pack may contain M.Unk clauses
_SHAPE_ERRORS = (M.ShapeUnknown, Unsupported, AttributeError, TypeError, KeyError, IndexError, ValueError, z3.Z3Exception)


def guard(c):
    """Clauses of a contract read the values the real code built.  When a (changed) body builds something a clause cannot
    read, that is an unrecognised shape, not a counterexample and not a crash: a postcondition becomes `unknown`
    (UNKNOWN-SHAPE: the native replayer decides), at a call site it is simply not assumed; an invariant / exceptional
    clause makes the function leave the verified subset (again `unknown` + replay)."""
    if getattr(c, "_guarded", False):
        return c
    c._guarded = True
    # parameters are bound by POSITION: the clauses keep speaking of the names used when they were written, the real function
    # may call its parameters anything
    alias = {}
    try:
        rel, qual = c.target.split("::")
        fnode = loader.module(rel).functions.get(qual)
        if fnode is not None and not c.assumed:
            real = [a.arg for a in fnode.args.posonlyargs + fnode.args.args]
            if len(real) == len(c.params) and real != [p_[0] for p_ in c.params]:
                alias = {orig: rn for (orig, _m), rn in zip(c.params, real) if orig != rn}
                c.params = [(rn, mk) for (_o, mk), rn in zip(c.params, real)]
    except Exception:  # noqa
        alias = {}

    def aliased(x):
        if not alias:
            return
        args = getattr(x, "args", None)
        if isinstance(args, dict):
            for orig, rn in alias.items():
                if rn in args and orig not in args:
                    args[orig] = args[rn]
        entry = getattr(x, "entry", None)
        if entry is not None and hasattr(x, "i"):          # LoopCtx: entry-state lookups by the written names
            for orig, rn in alias.items():
                v = entry.lookup(rn)
                if v is not None and entry.lookup(orig) is None:
                    entry.frames[-1].env[orig] = v

    def post(fn):
        def g(cx):
            try:
                aliased(cx)
                return fn(cx)
            except _SHAPE_ERRORS as e:
                if cx.ex.contract is c:
                    cx.note = f"UNKNOWN-SHAPE {type(e).__name__}: {e}"[:240]
                    return z3.BoolVal(False)
                return z3.BoolVal(True)
        return g

    def hard(fn, what):
        def g(*a, **k):
            try:
                for x in a:
                    aliased(x)
                return fn(*a, **k)
            except Unsupported:
                raise
            except _SHAPE_ERRORS as e:
                raise Unsupported(f"{what} of {c.target.split('::')[-1]} cannot be stated on this shape: {type(e).__name__}: {e}"[:300])
        return g

    c.ensures = [(lab, post(fn)) for (lab, fn) in c.ensures]
    for spec in c.loops.values():
        if spec.inv is not None:
            spec.inv = hard(spec.inv, "loop invariant")
    for r in c.raises:
        if r.when is not None:
            r.when = hard(r.when, "exceptional postcondition")
    for attr in ("requires", "hyps", "returns", "result_maker"):
        if getattr(c, attr) is not None:
            setattr(c, attr, hard(getattr(c, attr), attr))
    return c

EXECUTOR = M.MailExecutor
EXECUTOR_KW = {}
FAMILY = "ExtractionError"


STRIP_EMPTY = STRIP(z3.StringVal("")) == z3.StringVal("")     # concrete fact about the uninterpreted str.strip: "".strip() == ""


def verifying(c, suffix):
    """True while the function itself is being verified (False when its contract is applied at a call site)."""
    return c.ex.contract is not None and c.ex.contract.target.endswith(suffix)


def forall(n, body, name="k!q", pattern=None):
    k = z3.Int(name)
    b = body(k)
    pats = [pattern(k)] if pattern is not None else []
    return z3.ForAll([k], z3.Implies(z3.And(k >= 0, k < n), b), patterns=pats) if pats else \
        z3.ForAll([k], z3.Implies(z3.And(k >= 0, k < n), b))


def sval(v):
    """string term of a str-kinded element value"""
    return v.t


# =============================================================== (a) _split_mbox_messages ==
def split_contract():
    P = z3.Const("re:MBOX_FROM_PATTERN", M.PatS)

    def D_of(c):
        return c.args["data"].t

    def view(c):
        r = seq_of(c.st, c.result)
        if r is None:
            raise Unsupported("result of _split_mbox_messages is not a list")
        return r

    def hyp(c):
        return z3.And(M.match_axioms(P, D_of(c)), M.cnt_sp_def(P, D_of(c), z3.IntVal(0)))

    # The result is either built by appends in a loop (read positionally, through the counting function CNT_SP) or by a
    # comprehension `[f(x) for x in xs if p(x)]` (read structurally: same source length, same filter, same elements pointwise
    # -- the list comprehension IS the specified filter-map then).
    def e_count(c):
        D = D_of(c)
        t = M.comp_tag(c.st, c.result)
        if t is not None:
            _k, n_src, keep, _el = t
            return z3.And(n_src == M.M_N(P, D), forall(M.M_N(P, D), lambda k: keep(k) == (z3.Length(M.piece(P, D, k)) > 0), "k!sc"))
        n, _e = view(c)
        return n == M.CNT_SP(P, D, M.M_N(P, D))

    def e_items(c):
        D = D_of(c)
        t = M.comp_tag(c.st, c.result)
        if t is not None:
            _k, n_src, keep, el = t
            return z3.And(n_src == M.M_N(P, D), forall(M.M_N(P, D), lambda k: z3.Implies(z3.Length(M.piece(P, D, k)) > 0, el(k).t == M.piece(P, D, k)), "k!sp"))
        n, el = view(c)
        return forall(M.M_N(P, D), lambda k: z3.Implies(z3.Length(M.piece(P, D, k)) > 0, el(M.CNT_SP(P, D, k)).t == M.piece(P, D, k)), "k!sp",
                      pattern=lambda k: M.CNT_SP(P, D, k))

    def e_index(c):
        D = D_of(c)
        if M.comp_tag(c.st, c.result) is not None:
            return z3.BoolVal(True)          # positions of a comprehension's result are in range and increasing by construction
        n, el = view(c)
        return forall(M.M_N(P, D), lambda k: z3.Implies(z3.Length(M.piece(P, D, k)) > 0, z3.And(0 <= M.CNT_SP(P, D, k), M.CNT_SP(P, D, k) < n)), "k!sx",
                      pattern=lambda k: M.CNT_SP(P, D, k))

    def inv(lc):
        D = lc.entry.lookup("data").t
        n, el = built_list(lc, 0)
        i = lc.i
        return M.ConjA([
            ("count", n == M.CNT_SP(P, D, i)),
            ("order", forall(i, lambda k: z3.Implies(z3.Length(M.piece(P, D, k)) > 0,
                                                     z3.And(0 <= M.CNT_SP(P, D, k), M.CNT_SP(P, D, k) < M.CNT_SP(P, D, i))), "k!so",
                             pattern=lambda k: M.CNT_SP(P, D, k))),
            ("items", forall(i, lambda k: z3.Implies(z3.Length(M.piece(P, D, k)) > 0, el(M.CNT_SP(P, D, k)).t == M.piece(P, D, k)), "k!si",
                             pattern=lambda k: M.CNT_SP(P, D, k))),
        ], defs=[M.cnt_sp_def(P, D, i), M.cnt_sp_def(P, D, i + 1)])

    def result_maker(ex, st, ctx):
        D = M.bytes_term(ctx.args["data"])
        sq = X.fresh_seq_like("str", "pieces")
        st.assume(M.match_axioms(P, D))
        res = VSeq(sq.length, sq.elem, "str", tag=("pieces", D))
        st.ghost["split_result"] = res
        return res

    return guard(FnContract(
        target=f"{MBOX}::{M.splitter_name()}",          # (round 8) located by its role; the ids keep the written name
        oid_name=M.SPLITTER,
        params=[("data", p_str())],
        hyps=hyp,
        ensures=[("one-message-per-nonempty-slice-between-separators", e_count),
                 ("messages-are-the-eol-stripped-slices-in-order", e_items),
                 ("positions-are-in-range-and-increasing", e_index)],
        raises=[],
        loops={0: LoopSpec(inv=inv, label="separators")},
        result_maker=result_maker,
        note="result == [strip_eol(data[e_k : s_{k+1} | len(data)]) for k in range(n) if non-empty], for the match list [(s_k, e_k)] of the separator regex",
    ))


# ================================================= (b) headers: decode_header_value, addresses ==
def p_optstr():
    return p_opt(p_str())


def dhv_contract():
    """decode_header_value: total (no charset can make it raise), '' for a missing/empty header, else the decoded chunks of
    email.header.decode_header concatenated in order."""
    def s_of(c):
        return opt_parts(c.args["value"])

    def inv(lc):
        # the chunks are those of the value handed to email.header.decode_header (whatever it is): that this is the
        # UNFOLDED header value is part of the postcondition
        src = decode_source(lc.seq)
        n, el = built_list(lc, 0)
        i = lc.i
        return Conj([("count", n == i),
                     ("chunks", forall(i, lambda k: el(k).t == M.dh_piece(src, k), "k!dh"))])

    def result_maker(ex, st, ctx):
        n, s = s_of(ctx)
        return VStr(M.dhv_term(n, s))

    def e_value(c):
        """result == dhv_term(value).  `"".join(xs)` is compared argument-wise: same separator, same length, same elements
        on [0, length) (str.join depends on nothing else)."""
        if not verifying(c, "::decode_header_value"):
            return z3.BoolVal(True)        # call sites get the functional result (result_maker); nothing else to assume
        none, s = s_of(c)
        miss = z3.Or(none, z3.Length(s) == 0)
        r = c.result
        if not isinstance(r, VStr):
            raise M.ShapeUnknown("value built by the code has a shape this clause does not read")
        j = join_parts(r.t)
        if j is None:
            return z3.And(miss, r.t == M.EMPTY)
        sep, arr, n = j
        su = M.UNFOLD(s)
        return z3.And(z3.Not(miss), sep == M.EMPTY, n == M.DH_N(su), forall(n, lambda k: z3.Select(arr, k) == M.dh_piece(su, k), "k!dj"))

    return FnContract(
        target=f"{MBOX}::decode_header_value",
        params=[("value", p_optstr())],
        ensures=[("empty-for-missing-header-else-join-of-decoded-chunks", e_value)],
        raises=[],
        loops={0: LoopSpec(inv=inv, label="chunks")},
        result_maker=result_maker,
        note="never raises; == ''.join(decoded chunk k) with charset fallback utf-8 and errors replaced",
    )


def decode_source(seq):
    """The string whose decode_header chunks the sequence enumerates (read off the length term DH_N(src))."""
    t = seq.length if isinstance(seq, VSeq) else None
    if t is not None and z3.is_app(t) and t.decl().name() == "decode_header_n":
        return t.arg(0)
    raise Unsupported("loop does not iterate over email.header.decode_header(...)")


def join_parts(t):
    """(sep, element array, length) when t is `sep.join(seq)` over a symbolic sequence, else None."""
    if z3.is_app(t) and t.decl().name() == "str_join" and t.num_args() == 3:
        return t.arg(0), t.arg(1), t.arg(2)
    return None


def addr_fields(st, v):
    """(name term, address term) of an EmailAddress value (heap instance or abstract instance)."""
    if isinstance(v, VRef):
        d = st.obj(v.ref).data
        return d["name"].t, d["address"].t
    if isinstance(v, VExt) and v.sort == "EmailAddress":
        return fld("EmailAddress", "name", S)(v.t), fld("EmailAddress", "address", S)(v.t)
    raise Unsupported(f"EmailAddress expected, got {v!r}")


def parsed_value(c, s):
    """The string the body hands to email.utils.parseaddr / getaddresses (recorded by their models).  The specification
    is split in two: (A) the result is the specified mapping of the parse of THAT string, (B) that string is the UNFOLDED
    header value (RFC 5322 2.2.3: unfolding comes before parsing; a folded quoted display name is otherwise mis-parsed on
    CRLF mailboxes).  At call sites the full specification (A and B) is what callers get."""
    if not c.ex.contract or not c.ex.contract.target.endswith(("::parse_email_address", "::parse_email_addresses")):
        return M.UNFOLD(s)
    x = c.st.ghost.get("addr_parse_arg")
    return x if x is not None else s


def e_unfolded_before_parsing(c):
    none, s = opt_parts(c.args["addr_string"])
    if not c.ex.contract or not c.ex.contract.target.endswith(("::parse_email_address", "::parse_email_addresses")):
        return z3.BoolVal(True)
    x = c.st.ghost.get("addr_parse_arg")
    if x is None:
        return z3.Or(none, z3.Length(s) == 0)        # nothing was parsed: only right for a missing header
    return x == M.UNFOLD(s)


def pea_contract():
    def spec(c):
        n, s = opt_parts(c.args["addr_string"])
        miss = z3.Or(n, z3.Length(s) == 0)
        x = parsed_value(c, s)
        return (z3.If(miss, M.EMPTY, M.dhv_term(z3.BoolVal(False), M.PA_NAME(x))), z3.If(miss, M.EMPTY, M.PA_ADDR(x)))

    def e_name(c):
        return addr_fields(c.st, c.result)[0] == spec(c)[0]

    def e_addr(c):
        return addr_fields(c.st, c.result)[1] == spec(c)[1]

    def result_maker(ex, st, ctx):
        nm, ad = spec(ctx)
        return ex.new_obj(st, "EmailAddress", {"name": VStr(nm), "address": VStr(ad)})

    return FnContract(
        target=f"{MBOX}::parse_email_address",
        params=[("addr_string", p_optstr())],
        ensures=[("name-is-the-decoded-display-name", e_name), ("address-is-the-parsed-address", e_addr),
                 ("header-is-unfolded-before-address-parsing", e_unfolded_before_parsing)],
        raises=[],
        result_maker=result_maker,
        note="(decode_header_value(parseaddr(s)[0]), parseaddr(s)[1]); ('', '') for a missing header",
    )


def peas_contract():
    """parse_email_addresses: the entries of getaddresses([s]) that carry an address, in order, names decoded."""
    def s_of(c):
        return opt_parts(c.args["addr_string"])

    def view(c):
        r = seq_of(c.st, c.result, ("obj", "EmailAddress"))
        if r is None:
            raise Unsupported("result of parse_email_addresses is not a list")
        return r

    def keep(s, k):
        return z3.Length(M.GA_ADDR(s, k)) > 0

    def hyp(c):
        n, s = s_of(c)
        return z3.And(M.cnt_ga_def(s, z3.IntVal(0)), M.cnt_ga_def(M.UNFOLD(s), z3.IntVal(0)))

    def e_count(c):
        none, s0 = s_of(c)
        miss = z3.Or(none, z3.Length(s0) == 0)
        s = parsed_value(c, s0)
        t = M.comp_tag(c.st, c.result)
        if t is not None:
            _k, n_src, kp, _el = t
            return z3.And(z3.Not(miss), n_src == M.GA_N(s), forall(M.GA_N(s), lambda k: kp(k) == keep(s, k), "k!pc"))
        n, _el = view(c)
        return n == z3.If(miss, 0, M.CNT_GA(s, M.GA_N(s)))

    def e_items(c):
        none, s0 = s_of(c)
        miss = z3.Or(none, z3.Length(s0) == 0)
        s = parsed_value(c, s0)
        t = M.comp_tag(c.st, c.result)
        if t is not None:
            _k, n_src, _kp, el_ = t

            def body_t(k):
                nm, ad = addr_fields(c.st, el_(k))
                return z3.Implies(keep(s, k), z3.And(nm == M.dhv_term(z3.BoolVal(False), M.GA_NAME(s, k)), ad == M.GA_ADDR(s, k)))
            return z3.And(n_src == M.GA_N(s), forall(M.GA_N(s), body_t, "k!pa"))
        n, el = view(c)
        def body(k):
            nm, ad = addr_fields(c.st, el(M.CNT_GA(s, k)))
            return z3.Implies(keep(s, k), z3.And(nm == M.dhv_term(z3.BoolVal(False), M.GA_NAME(s, k)), ad == M.GA_ADDR(s, k)))
        return z3.Implies(z3.Not(miss), forall(M.GA_N(s), body, "k!pa"))

    def inv(lc):
        none, s0 = opt_parts(lc.entry.lookup("addr_string"))
        s = lc.st.ghost.get("addr_parse_arg")
        if s is None:
            s = s0
        n, el = built_list(lc, 0, ("obj", "EmailAddress"))
        i = lc.i

        def body(k):
            nm, ad = addr_fields(lc.st, el(M.CNT_GA(s, k)))
            return z3.Implies(keep(s, k), z3.And(nm == M.dhv_term(z3.BoolVal(False), M.GA_NAME(s, k)), ad == M.GA_ADDR(s, k)))
        return M.ConjA([
            ("count", n == M.CNT_GA(s, i)),
            ("order", forall(i, lambda k: z3.Implies(keep(s, k), M.CNT_GA(s, k) < M.CNT_GA(s, i)), "k!po", pattern=lambda k: M.CNT_GA(s, k))),
            ("items", forall(i, body, "k!pi", pattern=lambda k: M.CNT_GA(s, k))),
        ], defs=[M.cnt_ga_def(s, i), M.cnt_ga_def(s, i + 1)])

    def result_maker(ex, st, ctx):
        return addr_list_value(st, ctx.args["addr_string"])

    return FnContract(
        target=f"{MBOX}::parse_email_addresses",
        params=[("addr_string", p_optstr())],
        hyps=hyp,
        ensures=[("one-entry-per-address-of-getaddresses", e_count), ("entries-are-(decoded-name,address)-in-order", e_items),
                 ("header-is-unfolded-before-address-parsing", e_unfolded_before_parsing)],
        raises=[],
        loops={0: LoopSpec(inv=inv, label="addresses")},
        result_maker=result_maker,
        note="[EmailAddress(decode_header_value(n), a) for (n, a) in getaddresses([s]) if a]; [] for a missing header",
    )


def addr_list_value(st, v):
    """The specified address list of an optional header value as an abstract sequence (call sites): AL_*(s), related to
    getaddresses by the verified ensures of parse_email_addresses (al_facts)."""
    none, s = opt_parts(v)
    miss = z3.Or(none, z3.Length(s) == 0)
    st.assume(M.al_facts(s))
    ea = fun("address_list_entry", S, I, ext_sort("EmailAddress"))
    k = z3.Int("k!ale")
    st.assume(z3.ForAll([k], z3.And(fld("EmailAddress", "name", S)(ea(s, k)) == M.AL_NAME(s, k),
                                    fld("EmailAddress", "address", S)(ea(s, k)) == M.AL_ADDR(s, k)), patterns=[ea(s, k)]))
    return VSeq(z3.If(miss, 0, M.AL_N(s)), lambda k: VExt("EmailAddress", ea(s, k)), ("obj", "EmailAddress"), tag=("addrs", miss, s))


# =========================================================== (c) get_body_content ==
def returned_exprs(fnode):
    """Element expressions of the tuple returned by the last `return a, b` of the real function: names, or effect-free reads of
    a local (`d["k"]`, `d[CONST]`, `o.attr`)."""
    rets = [n for n in ast.walk(fnode) if isinstance(n, ast.Return) and isinstance(n.value, ast.Tuple)]
    rets.sort(key=lambda n: n.lineno)

    def plain(e):
        if isinstance(e, ast.Name):
            return True
        if isinstance(e, ast.Subscript):
            return plain(e.value) and isinstance(e.slice, (ast.Constant, ast.Name))
        return isinstance(e, ast.Attribute) and plain(e.value)
    if not rets or not all(plain(e) for e in rets[-1].value.elts):
        raise Unsupported("return of a tuple of names / plain reads of locals expected")
    return list(rets[-1].value.elts)


def read_in(lc, e):
    """Value of the effect-free expression e in the state the invariant looks at."""
    if isinstance(e, ast.Name):
        return lc[e.id]
    mark = len(lc.ex.sinks[-1]) if lc.ex.sinks else 0
    r = lc.ex.ev(e, lc.st.fork())
    if lc.ex.sinks:
        del lc.ex.sinks[-1][mark:]
    if len(r) != 1 or type(r[0][1]) is not VStr:
        raise M.ShapeUnknown(f"`{ast.unparse(e)}` is not a single str value here: {[x[1] for x in r]!r}"[:200])
    return r[0][1]


def first_stable(m, F):
    """Once found, final: FIRST_x(m, j) non-empty for a prefix j of the walk => FIRST_x over the whole walk is that text."""
    j = z3.Int("j!fs")
    return z3.ForAll([j], z3.Implies(z3.And(j >= 0, j <= M.W_N(m), z3.Length(F(m, j)) > 0), F(m, M.W_N(m)) == F(m, j)), patterns=[F(m, j)])


def first_stable_lemmas():
    """Induction on n >= j (base n == j: reflexivity; step below, from the defining equation at n + 1)."""
    out = []
    m, j, n = z3.Const("m!fs", M.MsgS), z3.Int("j!fsl"), z3.Int("n!fsl")
    for nm, F in (("plain", M.FIRST_P), ("html", M.FIRST_H)):
        out.append((f"C16/mbox_email_extractor.py::spec/lemma#first-found-{nm}-is-final",
                    [j >= 0, n >= j, z3.Length(F(m, j)) > 0, F(m, n) == F(m, j), M.first_def(m, n + 1)],
                    z3.And(F(m, j) == F(m, j), F(m, n + 1) == F(m, j))))
    return out


def body_contract():
    def m_of(c):
        return c.args["message"].t

    def hyp(c):
        # FIRST_P / FIRST_H at 0, and their stability (lemma first-found-is-final, proved by induction in lemmas()): a walk that
        # stops early, once what it looks for is found, has the same result as the full walk
        return z3.And(M.first_def(m_of(c), z3.IntVal(0)), first_stable(m_of(c), M.FIRST_P), first_stable(m_of(c), M.FIRST_H))

    def inv(lc):
        m = lc.entry.lookup("message").t
        pe, he = returned_exprs(lc.st.frame.fnode)
        i = lc.i
        return M.ConjA([("plain", read_in(lc, pe).t == M.FIRST_P(m, i)), ("html", read_in(lc, he).t == M.FIRST_H(m, i))],
                       defs=[M.first_def(m, i), M.first_def(m, i + 1)])

    def e_plain(c):
        return c.result.items[0].t == M.body_plain_spec(m_of(c))

    def e_html(c):
        return c.result.items[1].t == M.body_html_spec(m_of(c))

    def result_maker(ex, st, ctx):
        m = ctx.args["message"].t
        return VTuple([VStr(M.body_plain_spec(m)), VStr(M.body_html_spec(m))])

    return FnContract(
        target=f"{MBOX}::get_body_content",
        params=[("message", p_ext("Message"))],
        hyps=hyp,
        ensures=[("plain-body-is-first-text/plain-non-attachment-part-in-walk-order", e_plain),
                 ("html-body-is-first-text/html-non-attachment-part-in-walk-order", e_html)],
        raises=[],
        loops={0: LoopSpec(inv=inv, label="walk")},
        result_maker=result_maker,
        note="multipart: first non-attachment text/plain and text/html part with content, in walk() order; single part: its text "
             "(html when text/html, else plain); charset fallback utf-8, never raises",
    )


# ======================================================== (b) parse_email_message ==
HEADER_FIELDS = {"to_emails": "To", "to_cc": "Cc", "to_bcc": "Bcc", "reply_to": "Reply-To"}
PEM_SNAPSHOT = [("subject",), ("from_email",), ("in_reply_to",), ("reply_to",), ("to_emails",), ("to_cc",), ("to_bcc",), ("body_plain",),
                ("body_html",), ("attachments",), ("metadata",), ("metadata", "date"), ("metadata", "message_id")]


def addr_list_matches(st, v, hv):
    """Bool: list value v is the specified address list of the optional header value hv."""
    none, s = opt_parts(hv)
    miss = z3.Or(none, z3.Length(s) == 0)
    r = seq_of(st, v, ("obj", "EmailAddress"))
    if r is None:
        raise M.ShapeUnknown("value built by the code has a shape this clause does not read")
    n, el = r

    def body(k):
        e = el(k)
        if isinstance(e, VUnk):
            raise M.ShapeUnknown("value built by the code has a shape this clause does not read")
        nm, ad = addr_fields(st, e)
        return z3.And(nm == M.AL_NAME(s, k), ad == M.AL_ADDR(s, k))
    return z3.And(n == z3.If(miss, 0, M.AL_N(s)), forall(n, body, "k!alm"))


def pem_spec(m):
    """Field values of the result for message m, from the property statement."""
    h = lambda name: M.hdr_opt(m, name)
    frm = h("From")
    fn, fs = opt_parts(frm)
    fmiss = z3.Or(fn, z3.Length(fs) == 0)
    return {
        "subject": STRIP(M.dhv(h("Subject"))),
        "in_reply_to": STRIP(M.dhv(h("In-Reply-To"))),
        "from_name": z3.If(fmiss, M.EMPTY, M.dhv_term(z3.BoolVal(False), M.PA_NAME(M.UNFOLD(fs)))),
        "from_addr": z3.If(fmiss, M.EMPTY, M.PA_ADDR(M.UNFOLD(fs))),
        "date": M.date_spec(m),
        "message_id": STRIP(M.dhv(h("Message-ID"))),
        "body_plain": STRIP(M.body_plain_spec(m)),
        "body_html": M.body_html_spec(m),
    }


def pem_contract():
    def m_of(c):
        return c.args["message"].t

    def data(c):
        if not isinstance(c.result, VRef) or c.st.obj(c.result.ref).kind != "obj":
            raise Unsupported("parse_email_message result is not an object")
        return c.st.obj(c.result.ref).data

    def meta(c):
        md = data(c)["metadata"]
        return c.st.obj(md.ref).data

    def f_str(getter, key):
        def e(c):
            v = getter(c)
            if not isinstance(v, VStr):
                raise M.ShapeUnknown("value built by the code has a shape this clause does not read")
            return v.t == pem_spec(m_of(c))[key]
        return e

    def e_from(c):
        nm, ad = addr_fields(c.st, data(c)["from_email"])
        sp = pem_spec(m_of(c))
        return z3.And(nm == sp["from_name"], ad == sp["from_addr"])

    def e_list(field):
        def e(c):
            return addr_list_matches(c.st, data(c)[field], M.hdr_opt(m_of(c), HEADER_FIELDS[field]))
        return e

    def e_atts(c):
        r = seq_of(c.st, data(c)["attachments"], ("obj", "EmailAttachment"))
        if r is None:
            raise M.ShapeUnknown("value built by the code has a shape this clause does not read")
        return r[0] == M.ATT_N(m_of(c))

    def e_no_invented(c):
        # the part of "every attachment" that holds outside the recorded finding F21-mbox-no-attachments
        r = seq_of(c.st, data(c)["attachments"], ("obj", "EmailAttachment"))
        if r is None:
            raise M.ShapeUnknown("value built by the code has a shape this clause does not read")
        return z3.Implies(M.ATT_N(m_of(c)) == 0, r[0] == 0)

    def result_maker(ex, st, ctx):
        m = ctx.args["message"].t
        sp = pem_spec(m)
        st.assume(M.ATT_N(m) >= 0)
        md = ex.new_obj(st, "EmailMetadata", {"date": VStr(sp["date"]), "message_id": VStr(sp["message_id"]), "filename": NONE,
                                              "file_extension": NONE, "file_path": NONE, "folder_path": NONE})
        frm = ex.new_obj(st, "EmailAddress", {"name": VStr(sp["from_name"]), "address": VStr(sp["from_addr"])})
        atts = X.fresh_seq_like(("obj", "EmailAttachment"), "attachments")
        st.assume(atts.length == M.ATT_N(m))
        d = {"from_email": frm, "subject": VStr(sp["subject"]), "in_reply_to": VStr(sp["in_reply_to"]),
             "body_plain": VStr(sp["body_plain"]), "body_html": VStr(sp["body_html"]), "attachments": ex.new_alist(st, atts), "metadata": md}
        for f, hname in HEADER_FIELDS.items():
            d[f] = ex.new_alist(st, addr_list_value(st, M.hdr_opt(m, hname)))
        obj = ex.new_obj(st, "EmailContent", d)
        st.ghost[("result_of", obj.ref)] = (M.SRC_MSG(m), M.snapshot(st, obj, PEM_SNAPSHOT))
        return obj

    def hyp(c):
        return z3.And(M.ATT_N(m_of(c)) >= 0, STRIP_EMPTY)          # a count; "".strip() == ""

    return FnContract(
        target=f"{MBOX}::parse_email_message",
        params=[("message", p_ext("Message"))],
        hyps=hyp,
        ensures=[("subject-is-the-decoded-Subject", f_str(lambda c: data(c)["subject"], "subject")),
                 ("from_email-is-(decoded-name,address)-of-From", e_from),
                 ("to_emails-is-the-address-list-of-To", e_list("to_emails")),
                 ("to_cc-is-the-address-list-of-Cc", e_list("to_cc")),
                 ("to_bcc-is-the-address-list-of-Bcc", e_list("to_bcc")),
                 ("reply_to-is-the-address-list-of-Reply-To", e_list("reply_to")),
                 ("in_reply_to-is-the-decoded-In-Reply-To", f_str(lambda c: data(c)["in_reply_to"], "in_reply_to")),
                 ("date-is-the-ISO-form-of-Date-or-empty", f_str(lambda c: meta(c)["date"], "date")),
                 ("message_id-is-the-decoded-Message-ID", f_str(lambda c: meta(c)["message_id"], "message_id")),
                 ("body_plain-is-the-plain-body", f_str(lambda c: data(c)["body_plain"], "body_plain")),
                 ("body_html-is-the-html-body", f_str(lambda c: data(c)["body_html"], "body_html")),
                 ("every-attachment-is-returned", e_atts),
                 ("no-attachment-when-the-message-has-none", e_no_invented)],
        raises=[],
        result_maker=result_maker,
        note="every message yields a result (no header is mandatory); fields mapped from the headers / parts named in the labels",
    )


# ======================================================= (d) read_mbox_format_mail ==
def populate_contract():
    """FileMetadataInterface.populate_from_path as called on an EmailMetadata: ASSUMED to touch only the four file-metadata
    fields (its frame is checked syntactically on the real source by the EXTRA obligation `populate_from_path/frame`)."""
    def result_maker(ex, st, ctx):
        me = ctx.args["self"]
        if isinstance(me, VRef) and st.obj(me.ref).kind == "obj":
            w = st.wobj(me.ref)
            for f in ("filename", "file_extension", "file_path", "folder_path"):
                w.data[f] = VUnk(f)
        return NONE

    return FnContract(target=f"{DT}::EmailMetadata.populate_from_path", params=[("self", Maker(lambda ex, st, n: VUnk(n))), ("path", Maker(lambda ex, st, n: VUnk(n)))],
                      assumed=True, result_maker=result_maker, note="frame: filename, file_extension, file_path, folder_path only")


def mbox_contract():
    P = z3.Const("re:MBOX_FROM_PATTERN", M.PatS)

    def D_of(c):
        return M.CONTENT(c.args["file_like"].t)

    def hyp(c):
        return M.cnt_sp_def(P, D_of(c), z3.IntVal(0))

    def inv(lc):
        n, src, ok = lc.ex.yc_get(lc.st)
        # the messages are the list _split_mbox_messages returned (however the loop walks it: directly, enumerate(), ...)
        R = lc.st.ghost.get("split_result")
        if R is None:
            raise M.ShapeUnknown("the mailbox is not split by _split_mbox_messages")
        el = R.elem
        i = lc.i
        return Conj([("count", n == i),
                     ("order", forall(i, lambda k: z3.Select(src, k) == M.SRC_MSG(M.MFB(el(k).t)), "k!mo")),
                     ("intact", forall(i, lambda k: z3.Select(ok, k), "k!mi"))])

    def e_count(c):
        n, _src, _ok = c.ex.yc_get(c.st)
        D = D_of(c)
        return n == M.CNT_SP(P, D, M.M_N(P, D))

    def e_order(c):
        n, src, ok = c.ex.yc_get(c.st)
        D = D_of(c)
        return forall(M.M_N(P, D), lambda k: z3.Implies(z3.Length(M.piece(P, D, k)) > 0, z3.And(
            z3.Select(src, M.CNT_SP(P, D, k)) == M.SRC_MSG(M.MFB(M.piece(P, D, k))), z3.Select(ok, M.CNT_SP(P, D, k)))), "k!me")

    return FnContract(
        target=f"{MBOX}::read_mbox_format_mail",
        params=[("file_like", p_ext("BytesIO")), ("path", p_opt(p_str()))],
        hyps=hyp,
        generator=True,
        ensures=[("one-result-per-message", e_count), ("results-are-the-parsed-messages-in-order", e_order)],
        raises=[],
        loops={0: LoopSpec(inv=inv, label="messages")},
        note="yields parse_email_message(message_from_bytes(piece k)) for every non-empty piece k of the mailbox, in order; nothing escapes",
    )


# ==================================================================== (e) .eml ==
def sup_mime(t):
    """is_supported_mime_type, from the property: the MIME type is one the package has an extractor for (mime_types table)."""
    from contracts import C07
    return z3.Or([t == z3.StringVal(k) for k in C07.tables()[3]])


def or_default(a, key, default):
    kk = z3.StringVal(key)
    return z3.If(z3.And(z3.Not(M.AD_NONE(a, kk)), z3.Length(M.AD_STR(a, kk)) > 0), M.AD_STR(a, kk), z3.StringVal(default))


def att_fields(st, v):
    """(filename, mime_type, content-of-data, flag) terms of an EmailAttachment value."""
    if isinstance(v, VRef):
        d = st.obj(v.ref).data
        return d["filename"].t, d["mime_type"].t, M.CONTENT(d["data"].t), d["is_supported_mime_type"].t
    if isinstance(v, VExt) and v.sort == "EmailAttachment":
        f = lambda name, sort: fld("EmailAttachment", name, sort)(v.t)
        return f("filename", S), f("mime_type", S), M.CONTENT(f("data", M.BioS)), f("is_supported_mime_type", B)
    raise Unsupported(f"EmailAttachment expected, got {v!r}")


def att_ok(st, v, a):
    """The EmailAttachment v is attachment dict a: name, type, exact bytes, support flag."""
    if isinstance(v, VUnk):
        raise M.ShapeUnknown("value built by the code has a shape this clause does not read")
    fn, mt, content, flag = att_fields(st, v)
    mime = or_default(a, "mail_content_type", "application/octet-stream")
    return z3.And(fn == or_default(a, "filename", "attachment"), mt == mime, content == M.ATT_BYTES(a), flag == sup_mime(mime))


UNFOLD_IDEM = z3.ForAll([z3.String("x!uf")], M.UNFOLD(M.UNFOLD(z3.String("x!uf"))) == M.UNFOLD(z3.String("x!uf")),
                        patterns=[M.UNFOLD(M.UNFOLD(z3.String("x!uf")))])      # unfolding an unfolded value changes nothing


def mail_addr_list_matches(st, v, mail, field, names="mapping"):
    """Bool: list v == [EmailAddress(n, a) for (n, a) in mail.<field> if a] (the recipients that carry an address), decided
    on the structure of the comprehension that built v: same source, same filter, same elements (pointwise).
    names="mapping": display names compared up to RFC 5322 unfolding (which entry, which address, which name);
    names="unfolded": every display name is the UNFOLDED name mailparser reports (mailparser keeps the folding)."""
    f = z3.StringVal(field)
    n_spec = M.ML_N(mail, f)
    tag = M.seq_tag(st, v)
    if not (isinstance(tag, tuple) and tag and tag[0] in ("map", "filtermap")):
        # built by appends in a loop: read positionally.  Every entry mailparser reports carries an address (assumed shape), so
        # the specified filter-map keeps every entry and position k of the result is entry k.
        r = seq_of(st, v, ("obj", "EmailAddress"))
        if r is None:
            return None
        n, el = r
        keep = lambda k: z3.BoolVal(True)
    elif tag[0] == "map":
        _t, n, el = tag
        keep = lambda k: z3.BoolVal(True)
    else:
        _t, n, keep, el = tag

    def body(k):
        e = el(k)
        if isinstance(e, VUnk):
            raise M.ShapeUnknown("value built by the code has a shape this clause does not read")
        nm, ad = addr_fields(st, e)
        if names == "unfolded":
            return z3.Implies(z3.Length(M.ML_ADDR(mail, f, k)) > 0, nm == M.UNFOLD(M.ML_NAME(mail, f, k)))
        return z3.And(keep(k) == (z3.Length(M.ML_ADDR(mail, f, k)) > 0), M.UNFOLD(nm) == M.UNFOLD(M.ML_NAME(mail, f, k)), ad == M.ML_ADDR(mail, f, k))
    return z3.And(n == n_spec, forall(n_spec, body, "k!mlm"))


def eml_spec(mail):
    def h(field):
        kk = z3.StringVal(field)
        return z3.If(z3.And(z3.Not(M.MH_NONE(mail, kk)), z3.Length(M.MH(mail, kk)) > 0), M.MH(mail, kk), M.EMPTY)

    def text(field):
        kk = z3.StringVal(field)
        lam = z3.Lambda([K], M.MT_AT(mail, kk, K))
        return z3.If(M.MT_N(mail, kk) > 0, JOIN(z3.StringVal("\n"), lam, M.MT_N(mail, kk)), M.EMPTY)
    fr = z3.StringVal("from_")
    has_from = M.ML_N(mail, fr) > 0
    return {
        "subject": STRIP(M.UNFOLD(h("subject"))), "in_reply_to": h("in_reply_to"), "message_id": h("message_id"),
        "date": z3.If(M.MDATE_NONE(mail), M.EMPTY, M.ISO(M.MDATE(mail))),
        "from_name": z3.If(has_from, M.ML_NAME(mail, fr, 0), M.EMPTY), "from_addr": z3.If(has_from, M.ML_ADDR(mail, fr, 0), M.EMPTY),
        "body_plain": STRIP(text("text_plain")), "body_html": text("text_html"),
    }


EML_LISTS = {"to_emails": "to", "to_cc": "cc", "to_bcc": "bcc", "reply_to": "reply_to"}
LIB_SITES = ("mailparser.parse_from_bytes", "base64.b64decode")


def walked_length(seq):
    """The length term that identifies the sequence a loop walks: of the sequence itself (`for a in mail.attachments`), or of the
    sequence whose indices 0 .. len-1 are walked in order (`for i in range(len(mail.attachments))`, recognised by its shape:
    length If(n < 0, 0, n) and element k == k).  None: not recognised."""
    if not isinstance(seq, VSeq):
        return None
    t = seq.length
    try:
        if z3.is_app(t) and t.decl().kind() == z3.Z3_OP_ITE:
            c, a, b = t.children()
            if z3.is_int_value(a) and a.as_long() == 0 and z3.is_app(b) and b.decl().kind() == z3.Z3_OP_UNINTERPRETED \
                    and c.eq(b < 0):
                k = z3.Int("k!wl")
                e = seq.elem(k)
                if isinstance(e, VInt) and z3.simplify(e.t - k).eq(z3.IntVal(0)):
                    return b
            return None
    except Exception:  # noqa
        return None
    return t


def eml_contract():
    def mail_of(c):
        return M.MAILOF(M.bytes_term(c.args["payload"]))

    def data(c):
        if not isinstance(c.result, VRef) or c.st.obj(c.result.ref).kind != "obj":
            raise Unsupported("_read_eml_format result is not an object")
        return c.st.obj(c.result.ref).data

    def f_str(path, key):
        def e(c):
            v = M._path_get(c.st, c.result, path)
            if not isinstance(v, VStr):
                raise M.ShapeUnknown("value built by the code has a shape this clause does not read")
            return v.t == eml_spec(mail_of(c))[key]
        return e

    def e_from(c):
        nm, ad = addr_fields(c.st, data(c)["from_email"])
        sp = eml_spec(mail_of(c))
        return z3.And(M.UNFOLD(nm) == M.UNFOLD(sp["from_name"]), ad == sp["from_addr"])

    def e_names_unfolded(c):
        if not verifying(c, "::_read_eml_format"):
            return z3.BoolVal(True)
        mail = mail_of(c)
        nm, _ad = addr_fields(c.st, data(c)["from_email"])
        out = [nm == M.UNFOLD(eml_spec(mail)["from_name"])]
        for field, src in EML_LISTS.items():
            r = mail_addr_list_matches(c.st, data(c)[field], mail, src, names="unfolded")
            if r is None:
                raise M.ShapeUnknown("list not built by a comprehension over the mail's entries")
            out.append(r)
        return z3.And(out)

    def e_list(field):
        def e(c):
            if not verifying(c, "::_read_eml_format"):
                return z3.BoolVal(True)       # call site: nothing is said about the lists beyond the contract's result object
            r = mail_addr_list_matches(c.st, data(c)[field], mail_of(c), EML_LISTS[field])
            if r is None:
                raise M.ShapeUnknown("list not built by a comprehension over the mail's entries")
            return r
        return e

    def e_atts(c):
        if not verifying(c, "::_read_eml_format"):
            return z3.BoolVal(True)
        mail = mail_of(c)
        r = seq_of(c.st, data(c)["attachments"], ("obj", "EmailAttachment"))
        if r is None:
            raise M.ShapeUnknown("value built by the code has a shape this clause does not read")
        n, el = r
        return z3.And(n == M.MA_N(mail), forall(n, lambda k: att_ok(c.st, el(k), M.MA_AT(mail, k)), "k!ea"))

    def inv(lc):
        """One invariant for every loop of the body, by what the loop walks: over mail.attachments the list built so far is the
        specified attachments prefix; over an address list of the mail it is the specified recipients prefix; other loops: True."""
        t = walked_length(lc.seq)
        what = t.decl().name() if t is not None and z3.is_app(t) else ""
        # the mail is the one whose sequence is walked (name-free: the loop may sit in a helper that never sees `payload`); the
        # postconditions compare with the parse of `payload`, so walking another mail's entries cannot verify
        mail = t.arg(0) if what in ("mail_attachments_n", "mail_addresses_n") else None
        i = lc.i
        if what == "mail_attachments_n":
            n, el = built_list(lc, None, ("obj", "EmailAttachment"))
            return Conj([("count", n == i), ("items", forall(i, lambda k: att_ok(lc.st, el(k), M.MA_AT(mail, k)), "k!ei"))])
        if what == "mail_addresses_n":
            f = t.arg(1)
            n, el = built_list(lc, None, ("obj", "EmailAddress"))

            def body(k):
                nm, ad = addr_fields(lc.st, el(k))
                return z3.And(M.UNFOLD(nm) == M.UNFOLD(M.ML_NAME(mail, f, k)), ad == M.ML_ADDR(mail, f, k))
            return Conj([("count", n == i), ("items", forall(i, body, "k!ai")),
                         ("unfolded", forall(i, lambda k: addr_fields(lc.st, el(k))[0] == M.UNFOLD(M.ML_NAME(mail, f, k)), "k!au"))])
        nodes = getattr(lc.ex, "_loop_nodes", [])
        if nodes and M._appended_in(nodes[-1]):
            # a loop that builds a list while walking something this invariant does not recognise (a slice, a filtered or
            # re-ordered view, a counter with another start ...): nothing can be said about the list, which is not `True`
            raise M.ShapeUnknown("loop builds a list while walking a sequence this invariant does not recognise")
        return Conj([])

    def lib_only(c):
        return z3.BoolVal(c.exc is not None and c.exc.attrs.get("site") in LIB_SITES)

    def result_maker(ex, st, ctx):
        mail = M.MAILOF(M.bytes_term(ctx.args["payload"]))
        sp = eml_spec(mail)
        md = ex.new_obj(st, "EmailMetadata", {"date": VStr(sp["date"]), "message_id": VStr(sp["message_id"]), "filename": NONE,
                                              "file_extension": NONE, "file_path": NONE, "folder_path": NONE})
        frm = ex.new_obj(st, "EmailAddress", {"name": VStr(sp["from_name"]), "address": VStr(sp["from_addr"])})
        d = {"from_email": frm, "subject": VStr(sp["subject"]), "in_reply_to": VStr(sp["in_reply_to"]), "body_plain": VStr(sp["body_plain"]),
             "body_html": VStr(sp["body_html"]), "metadata": md}
        for f in list(EML_LISTS) + ["attachments"]:
            sq = X.fresh_seq_like("unk", f)
            st.assume(sq.length >= 0)
            d[f] = ex.new_alist(st, sq)
        obj = ex.new_obj(st, "EmailContent", d)
        st.ghost[("result_of", obj.ref)] = (M.SRC_MAIL(mail), M.snapshot(st, obj, PEM_SNAPSHOT))
        return obj

    return FnContract(
        target=f"{EML}::_read_eml_format",
        params=[("payload", p_str())],
        hyps=lambda c: z3.And(STRIP_EMPTY, UNFOLD_IDEM, M.UNFOLD(M.EMPTY) == M.EMPTY),
        ensures=[("subject-is-the-decoded-subject", f_str(("subject",), "subject")),
                 ("from_email-is-the-first-From-entry-or-empty", e_from),
                 ("to_emails-are-the-To-entries-with-an-address", e_list("to_emails")),
                 ("to_cc-are-the-Cc-entries-with-an-address", e_list("to_cc")),
                 ("to_bcc-are-the-Bcc-entries-with-an-address", e_list("to_bcc")),
                 ("reply_to-are-the-Reply-To-entries-with-an-address", e_list("reply_to")),
                 ("display-names-are-unfolded", e_names_unfolded),
                 ("in_reply_to-is-In-Reply-To", f_str(("in_reply_to",), "in_reply_to")),
                 ("date-is-the-ISO-date-or-empty", f_str(("metadata", "date"), "date")),
                 ("message_id-is-Message-ID", f_str(("metadata", "message_id"), "message_id")),
                 ("body_plain-is-the-joined-plain-parts", f_str(("body_plain",), "body_plain")),
                 ("body_html-is-the-joined-html-parts", f_str(("body_html",), "body_html")),
                 ("every-attachment-with-name-type-exact-bytes-and-support-flag", e_atts)],
        raises=[Raises("Exception", sub=True, when=lib_only, label="only what mailparser / base64 raise; the glue itself is total")],
        loops={"*": LoopSpec(inv=inv)},
        result_maker=result_maker,
        note="field mapping from the mailparser view; attachment data == decoded payload",
    )


def read_eml_contract():
    def e_one(c):
        n, src, ok = c.ex.yc_get(c.st)
        mail = M.MAILOF(M.CONTENT(c.args["file_like"].t))
        return z3.And(n == 1, z3.Select(src, 0) == M.SRC_MAIL(mail), z3.Select(ok, 0))

    return FnContract(
        target=f"{EML}::read_eml_format_mail",
        params=[("file_like", p_ext("BytesIO")), ("path", p_opt(p_str()))],
        generator=True,
        ensures=[("yields-exactly-the-parsed-message", e_one)],
        raises=[Raises(FAMILY, sub=True, label="parser failures arrive wrapped in the ExtractionError family")],
        note="one result: _read_eml_format(file_like.getvalue()), C16 fields untouched afterwards",
    )


# ---- the router, as seen from this pack --------------------------------------------------
# get_extractor is verified in contracts/C07.py (functional contract: the result is a function of the path, decided by
# extension tables / mimetypes).  Here it is used through that contract's *shape* only: a deterministic partial function of
# the path -- GE_RAISES(path) (ExtractionFileFormatNotSupportedError) or the pair (GE_MOD(path), GE_FN(path)).  The one
# place where its table content matters -- the constant paths "attachment.<file type>" of the MIME fallback -- is covered
# by the lemmas `mime-fallback-routes.<type>` below, proved from C07's contract with the real values of
# str.lower / os.path.splitext on those constants.
GE_RAISES = fun("router_get_extractor_raises", S, B)
GE_MOD = fun("router_get_extractor_module", S, S)
GE_FN = fun("router_get_extractor_function", S, S)
NOTSUP = "ExtractionFileFormatNotSupportedError"


def facts_for(s_):
    """Real values of the uninterpreted externals of contracts/C07.py on a constant path (DESIGN 2.5.3b)."""
    import mimetypes
    import os
    from contracts import C07
    low = s_.lower()
    root, ext = os.path.splitext(low)
    mt = mimetypes.guess_type(low)[0]
    L = z3.StringVal(low)
    facts = [C07.LOWER(z3.StringVal(s_)) == L, C07.E(L) == z3.StringVal(ext), C07.ROOT(L) == z3.StringVal(root),
             C07.MNONE(L) == z3.BoolVal(mt is None)]
    if mt is not None:
        facts.append(C07.M(L) == z3.StringVal(mt))
    return facts


def fallback_types():
    from contracts import C07
    return list(dict.fromkeys(C07.tables()[3].values()))


def fallback_facts():
    """What the lemmas `mime-fallback-routes.<type>` establish about get_extractor on the fallback paths."""
    from contracts import C07
    REG = C07.tables()[0]
    out = []
    for v in fallback_types():
        if v not in REG:
            continue
        c = z3.StringVal("attachment." + v)
        out.append(z3.And(z3.Not(GE_RAISES(c)), GE_MOD(c) == z3.StringVal(REG[v][0]), GE_FN(c) == z3.StringVal(REG[v][1])))
    return z3.And(out)


def lemmas():
    from contracts import C07
    REG, _ALI, _COMP, MIMES = C07.tables()
    out = []
    for v in fallback_types():
        c = "attachment." + v
        p = C07.LOWER(z3.StringVal(c))
        is_none, val = C07.ft_spec(p)
        out.append((f"C16/router.py::spec/lemma#mime-fallback-routes.{v}", facts_for(c) + [C07.splitext_axioms(z3.StringVal(c.lower()))],
                    z3.And(z3.Not(is_none), val == z3.StringVal(v), z3.BoolVal(v in REG))))
    try:
        out.extend(first_stable_lemmas())
    except Exception:  # noqa  (never let an exception escape from lemmas())
        pass
    return out


def router_contracts(reg):
    from contracts import C07
    out = []
    for c in C07.contracts(reg):
        if c.target.startswith(C07.MIME):
            # round 7: VERIFIED here as well (it is on C16's anchor list: `is_supported_mime_type` decides the flag every attachment
            # carries).  The contract is the one C07 owns (returns == "the type is a key of MIME_TYPE_MAPPING", None/"" -> False);
            # call sites of this pack keep using exactly this contract, so nothing weaker is assumed anywhere.
            c.assumed = False
            c.note = "verified on the real body by this pack too (round 7; same contract as the C07 pack)"
            out.append(c)

    def path_t(c):
        return c.args["path"].t

    out.append(FnContract(
        target=f"{C07.ROUTER}::get_extractor", params=[("path", p_str())], assumed=True,
        returns=lambda c: VTuple([VStr(GE_MOD(path_t(c))), VStr(GE_FN(path_t(c)))]),
        ensures=[("returns-only-when-supported", lambda c: z3.Not(GE_RAISES(path_t(c))))],
        raises=[Raises(NOTSUP, when=lambda c: GE_RAISES(path_t(c)))],
        note="shape of the contract verified by the C07 pack: a deterministic partial function of the path"))
    return out


# ============================================== (f) EmailContent.iterate_supported_attachments ==
def isa_contract():
    from contracts import C07
    ENC = "ExtractionFileEncryptedError"
    REG, _ALI, _COMP, MIMES = C07.tables()

    def att_terms(att):
        f = lambda name, sort: fld("EmailAttachment", name, sort)(att)
        return f("filename", S), f("mime_type", S), f("data", M.BioS), f("is_supported_mime_type", B)

    def spec_extractor(fn, mt):
        """(defined Bool, module term, function term): the extractor the statement asks for -- the one the file on its own
        (named `filename`) is routed to; when the router has none for the name, the one registered for the file type of the
        attachment's MIME type (mime_types table); undefined (attachment skipped) when neither exists."""
        mime_hit = z3.Or([mt == z3.StringVal(k) for k in MIMES])
        mod, fnn = M.EMPTY, M.EMPTY
        for k, ft in reversed(list(MIMES.items())):
            mod = z3.If(mt == z3.StringVal(k), z3.StringVal(REG[ft][0]), mod)
            fnn = z3.If(mt == z3.StringVal(k), z3.StringVal(REG[ft][1]), fnn)
        routed = z3.Not(GE_RAISES(fn))
        return z3.Or(routed, mime_hit), z3.If(routed, GE_MOD(fn), mod), z3.If(routed, GE_FN(fn), fnn)

    def cache_inv(st):
        """Maps with string keys whose values are extractors (a per-call cache): every entry is the router's answer for its
        key -- the only string-keyed cache of extractors that keeps `attachment == file on its own` (an entry under any other
        key, e.g. the declared MIME type, hands one attachment's extractor to another).  True when there is no such map."""
        out = []
        key = z3.String("key!cache")
        for v in st.frame.env.values():
            if isinstance(v, VRef) and st.heap.get(v.ref) is not None and st.obj(v.ref).kind == "amap":
                d = st.obj(v.ref).data
                if "present_s" not in d:
                    continue
                if d.get("comps") is None or d.get("shape") != 2:
                    out.append(z3.ForAll([key], z3.Not(z3.Select(d["present_s"], key))))      # values of unknown shape: must stay empty
                    continue
                out.append(z3.ForAll([key], z3.Implies(z3.Select(d["present_s"], key), z3.And(
                    z3.Not(GE_RAISES(key)), z3.Select(d["comps"][0], key) == GE_MOD(key), z3.Select(d["comps"][1], key) == GE_FN(key)))))
        return z3.And(out + [z3.BoolVal(True)])

    def inv(lc):
        st = lc.st
        cache = ("cache", cache_inv(st))
        disp = st.ghost.get("dispatch", ())
        if not disp:
            return Conj([("dispatch", z3.BoolVal(True)), ("stream", z3.BoolVal(True)), cache])
        att = lc.seq.elem(z3.simplify(lc.i - 1)).t
        fn, mt, data, flag = att_terms(att)
        bad = Conj([("dispatch", M.Unk("not exactly one extractor call with (stream, name) in this iteration")),
                    ("stream", M.Unk("not exactly one extractor call with (stream, name) in this iteration")), cache])
        if len(disp) != 1:
            return bad
        (f, args, pos) = disp[0]
        if not (len(args) == 2 and isinstance(args[0], VExt) and isinstance(args[1], VStr)):
            return bad
        defined, mod, fnn = spec_extractor(fn, mt)
        goals = [flag, args[0].t == data, args[1].t == fn, defined, f.items[0].t == mod, f.items[1].t == fnn]
        at_call = [pv for (a, pv) in pos if a is args[0]]
        after = st.ghost.get(("pos", args[0].t.get_id()))
        if not (at_call and at_call[0] is not None and after is not None):
            return Conj([("dispatch", z3.And(goals)), ("stream", M.Unk("stream position not tracked on this path")), cache])
        stream = [at_call[0] == 0, after == 0]
        return Conj([("dispatch", z3.And(goals)), ("stream", z3.And(stream)), cache])

    def raised_by_extractor(c):
        return z3.BoolVal(c.exc is not None and "extractor call" in str(c.exc.attrs.get("site", "")))

    return FnContract(
        target=f"{DT}::EmailContent.iterate_supported_attachments",
        params=[("self", p_ext("EmailContent"))],
        hyps=lambda c: fallback_facts(),
        generator=True,
        raises=[Raises(ENC, sub=True, when=raised_by_extractor, label="only the encrypted-file error of an attachment's extractor escapes")],
        loops={0: LoopSpec(inv=inv, label="attachments")},
        note="per supported attachment: extractor = router(filename), else the one registered for its MIME type; called with "
             "(attachment.data, attachment.filename) at stream position 0; position reset afterwards",
    )


# ==================================================================== (e') .msg ==
STRIPC = fun("str_strip_chars", S, S, S)
ANGLE = r"<([^>]+)>\s*$"


def psr_contract():
    """_parse_single_recipient: the documented recipient formats."""
    def parts(c):
        raw = STRIP(c.args["raw"].t)
        P = z3.StringVal(ANGLE)
        return raw, P

    def res(c):
        r = c.result
        if r is NONE:
            return None
        return addr_fields(c.st, r)

    def e_none(c):
        raw, P = parts(c)
        return z3.BoolVal(res(c) is None) == (z3.Length(raw) == 0) if True else None

    def e_angle(c):
        raw, P = parts(c)
        r = res(c)
        if r is None:
            return z3.Length(raw) == 0
        nm, ad = r
        pre = z3.SubString(raw, 0, M.RS_START(P, raw))
        return z3.Implies(z3.Not(M.RS_NONE(P, raw)), z3.And(ad == STRIP(M.RS_GROUP(P, raw, 1)), nm == STRIPC(STRIP(pre), z3.StringVal("\"'"))))

    def e_bare(c):
        raw, P = parts(c)
        r = res(c)
        if r is None:
            return z3.Length(raw) == 0
        nm, ad = r
        is_addr = z3.And(z3.Contains(raw, z3.StringVal("@")), z3.Not(z3.Contains(raw, z3.StringVal(" "))))
        return z3.Implies(M.RS_NONE(P, raw), z3.And(z3.Implies(is_addr, z3.And(nm == M.EMPTY, ad == raw)),
                                                    z3.Implies(z3.Not(is_addr), z3.And(nm == raw, ad == M.EMPTY))))

    def result_maker(ex, st, ctx):
        # call-site view (round 7, for the verified _parse_multi_recipients): None or an EmailAddress whose fields are NAMED by functions
        # of the argument; the ensures clauses above then say what they are
        raw = ctx.args["raw"].t
        obj = ex.new_obj(st, "EmailAddress", {"name": VStr(M.PSR_NAME(raw)), "address": VStr(M.PSR_ADDR(raw))})
        return [(M.PSR_NONE(raw), NONE), (z3.Not(M.PSR_NONE(raw)), obj)]

    return FnContract(
        target=f"{MSG}::_parse_single_recipient",
        params=[("raw", p_str())],
        result_maker=result_maker,
        ensures=[("None-iff-blank", e_none), ("angle-form:-address-inside-brackets,-name-before", e_angle),
                 ("bare-address-or-name-only", e_bare)],
        raises=[],
        note="'Name <addr>' | '<addr>' | 'addr' | 'Name' | blank -> None (regex search assumed total, uninterpreted)",
    )


def ros_contract():
    """(round 7) _read_ole_string (names and MIME tags of .msg attachments): never raises; "" when the stream cannot be opened / read,
    otherwise the stream's bytes decoded as UTF-16-LE (undecodable units dropped) without trailing NULs."""
    def want(c):
        stream = M.OLE_STREAM(c.args["ole"].t, c.args["storage"].t, c.args["stream_name"].t)
        return M.RSTRIP_CHARS(M.DEC_IGN(M.OLE_DATA(stream), z3.StringVal("utf-16-le")), z3.StringVal("\x00"))

    def e_text(c):
        r = c.result
        if not isinstance(r, VStr):
            raise M.ShapeUnknown("result is not a str")
        return z3.Or(r.t == M.EMPTY, r.t == want(c))

    def result_maker(ex, st, ctx):
        return VStr(z3.String(fresh_name("ole_string")))

    return FnContract(
        target=f"{MSG}::_read_ole_string",
        params=[("ole", p_ext("OleFile")), ("storage", p_str()), ("stream_name", p_str())],
        ensures=[("empty-or-the-UTF-16-LE-text-of-the-stream-without-trailing-NULs", e_text)],
        raises=[],
        result_maker=result_maker,
        note="total; '' | rstrip_NUL(decode_utf16le_ignore(bytes of the stream [storage, name])) (olefile openstream / read: assumed, may raise)",
    )


RCPT_SEP = "[;,]"
PMR = "_parse_multi_recipients"


def pmr_shape_ok(repo=None):
    """The contract of _parse_multi_recipients is verified on bodies written with statement loops.  A body written with comprehensions /
    generator expressions (elements that may be None, nested generators: harmless/C16_13) is outside what the executor runs; such a
    tree is NOT verified for this function -- it is summarised at its call sites exactly as before round 7 and the bounded native table
    (`_parse_multi_recipients/bounded#native-table`, always run) is the only check of its body.  Never counted as proved."""
    m = loader.module(MSG, repo) if repo is not None else loader.module(MSG)
    fn = m.functions.get(PMR)
    if fn is None:
        return False
    return not any(isinstance(n, (ast.ListComp, ast.GeneratorExp, ast.SetComp, ast.DictComp, ast.Lambda)) for n in ast.walk(fn))


def post_report(c, rep):
    """The obligations of _parse_multi_recipients exist only while its body has the loop form (pmr_shape_ok): they are checked and
    counted like any other but not locked (`volatile`); the locked guard of the family is `bounded#native-table` + `coverage#...`."""
    try:
        if c.target.endswith("::" + PMR):
            for o in rep.obligations:
                o["volatile"] = True
    except Exception:  # noqa
        pass


def pmr_coverage_obligations(repo, tier):
    """Locked guard of the _parse_multi_recipients family: (1) BOUNDED stand-in, always run: the real function on the native table of
    replay/C16.py::check_multi_recipients (strings and lists); (2) which treatment this tree gets (verified / summarised)."""
    import json
    import os
    import subprocess
    root = os.path.dirname(os.path.dirname(os.path.abspath(__file__)))
    oid = f"C16/msg_email_extractor.py::{PMR}/bounded#native-table"
    m = loader.module(MSG, repo)
    if m.functions.get(PMR) is None:
        return {"obligations": [ground_obligation(oid, False, "function not found", MSG, kind="bounded", definite=False)], "functions": []}
    req = {"property": "C16", "obligation": oid, "repo": repo, "function_check_only": "check_multi_recipients"}
    p = subprocess.run(["/venv/bin/python", os.path.join(root, "replay", "run.py")], input=json.dumps(req), capture_output=True, text=True,
                       timeout=300, env=dict(os.environ, VERIF_REPO=repo))
    lines = [l for l in p.stdout.splitlines() if l.startswith("{")]
    res = json.loads(lines[-1]) if lines else None
    if res is None:
        o = ground_obligation(oid, False, f"native table did not run: {p.stderr[-200:]}", MSG, kind="bounded", backend="native", definite=False)
    else:
        bad = bool(res.get("reproduced"))
        o = ground_obligation(oid, not bad, json.dumps({k: res.get(k) for k in ("inputs", "expected", "observed")}, default=repr)[:400] if bad else
                              "12 inputs (8 strings, 4 lists)", MSG, kind="bounded", backend="native")
        if bad:
            o["witness"] = res.get("inputs")       # (the check replays it once more itself and writes the replay record)
    o["bounded"] = True
    o["bound"] = "the 12 inputs of replay/C16.py::check_multi_recipients"
    if o["status"] == "proved":
        o["status"] = "bounded-ok"
    verified = pmr_shape_ok(repo)
    o2 = ground_obligation(f"C16/msg_email_extractor.py::{PMR}/coverage#verified-when-written-with-loops-else-summarised", True,
                           "verified under its contract in this run" if verified else
                           "body written with comprehensions: NOT verified on this tree (summarised at call sites, native table only)", MSG,
                           kind="bounded", backend="dataflow")
    o2["bounded"] = True
    o2["status"] = "bounded-ok"
    return {"obligations": [o, o2], "functions": []}


def pmr_contract():
    """(round 7) _parse_multi_recipients, both forms of its argument (the parameter is created as a case split str | list[str]).
    STRING: the pieces of re.split("[;,]", raw), each parsed by _parse_single_recipient (verified contract), those that give a name
    or an address, in order -- loop invariant with the counting function CNT_PSR (ground instances).
    LIST: the concatenation, in item order, of the specified results PMR(item) of the items (the recursive calls go through THIS
    contract's call-site view: an abstract list (PMR_N, PMR_AT) constrained by the string clauses) -- loop invariant with the prefix
    sums OFF of the result lengths: n == OFF(i), every earlier item's block lies below OFF(i), block k holds PMR(item_k) in order."""
    LI_AT = z3.Function("pmr_arg.item", I, S)          # the items of a list argument
    LI_N = z3.Int("pmr_arg.len")
    OFF = z3.Function("pmr_arg.offset", I, I)           # OFF(j): number of recipients the first j items give (prefix sums of PMR_N)

    def off_def(j):
        return OFF(j) == z3.If(j <= 0, 0, OFF(j - 1) + M.PMR_N(LI_AT(j - 1)))

    def mk_raw(ex, st, name):
        return [(None, VStr(z3.String(name))),
                (LI_N >= 0, VSeq(LI_N, lambda k: VStr(LI_AT(k)), "str"))]

    def is_list(v):
        return isinstance(v, VSeq) or (isinstance(v, VRef) and not isinstance(v, VStr))

    def pair_body(st, el, k, j):
        nm, ad = addr_fields(st, el(OFF(k) + j))
        want = M.PMR_AT(LI_AT(k), j)
        return z3.And(nm == fld("EmailAddress", "name", S)(want), ad == fld("EmailAddress", "address", S)(want))

    def forall2(n, body, tag):
        k, j = z3.Int("k!" + tag), z3.Int("j!" + tag)
        return z3.ForAll([k, j], z3.Implies(z3.And(k >= 0, k < n, j >= 0, j < M.PMR_N(LI_AT(k))), body(k, j)))

    def list_only(fn):
        def g(c):
            if not is_list(c.args["raw"]):
                return z3.BoolVal(True)
            return fn(c)
        return g

    def str_only(fn):
        def g(c):
            if is_list(c.args["raw"]):
                return z3.BoolVal(True)
            return fn(c)
        return g

    def e_list_count(c):
        n, _el = view(c)
        return n == OFF(LI_N)

    def e_list_items(c):
        _n, el = view(c)
        return forall2(LI_N, lambda k, j: pair_body(c.st, el, k, j), "rl")

    def extended_list(lc):
        nodes = getattr(lc.ex, "_loop_nodes", [])
        names = []
        for sub in ast.walk(nodes[-1]) if nodes else []:
            if isinstance(sub, ast.Call) and isinstance(sub.func, ast.Attribute) and sub.func.attr == "extend" and isinstance(sub.func.value, ast.Name) \
                    and sub.func.value.id not in names:
                names.append(sub.func.value.id)
        if len(names) != 1:
            raise M.ShapeUnknown(f"the loop over a list argument extends {names}: expected exactly one list")
        r = seq_of(lc.st, lc.st.lookup(names[0]), ("obj", "EmailAddress"))
        if r is None:
            raise M.ShapeUnknown("extended list is not a list")
        return r

    def inv_list(lc):
        n, el = extended_list(lc)
        i = lc.i
        k = z3.Int("k!rlo")
        return M.ConjA([
            ("count", n == OFF(i)),
            ("order", z3.ForAll([k], z3.Implies(z3.And(k >= 0, k < i), z3.And(OFF(k) >= 0, OFF(k) + M.PMR_N(LI_AT(k)) <= OFF(i))))),
            ("items", forall2(i, lambda k_, j_: pair_body(lc.st, el, k_, j_), "rli")),
        ], defs=[off_def(i), off_def(i + 1), OFF(i) >= 0] if False else [off_def(i), off_def(i + 1)])

    def result_maker(ex, st, ctx):
        a = ctx.args["raw"]
        if not isinstance(a, VStr):
            raise M.ShapeUnknown("_parse_multi_recipients applied to something that is not a str")
        st.assume(M.PMR_N(a.t) >= 0)
        return VSeq(M.PMR_N(a.t), lambda k, t=a.t: VExt("EmailAddress", M.PMR_AT(t, k)), ("obj", "EmailAddress"))

    def split_of(st):
        g = st.ghost.get("re_split_arg")
        if g is None:
            raise M.ShapeUnknown("the body did not split anything with re.split")
        return g

    def view(c):
        r = seq_of(c.st, c.result, ("obj", "EmailAddress"))
        if r is None:
            raise M.ShapeUnknown("result of _parse_multi_recipients is not a list")
        return r

    def raw_of(c):
        return c.args["raw"].t

    def e_empty(c):
        n, _el = view(c)
        return z3.Implies(z3.Length(raw_of(c)) == 0, n == 0)

    def e_split(c):
        if not verifying(c, "::_parse_multi_recipients"):
            return z3.BoolVal(True)
        raw = raw_of(c)
        g = c.st.ghost.get("re_split_arg")
        if g is None:
            return z3.Length(raw) == 0              # nothing was split: only right for the empty string
        return z3.And(g[0] == z3.StringVal(RCPT_SEP), g[1] == raw)

    def spec_ps(c):
        if verifying(c, "::_parse_multi_recipients"):
            g = c.st.ghost.get("re_split_arg")
            if g is not None:
                return g
        return z3.StringVal(RCPT_SEP), raw_of(c)

    def e_count(c):
        raw = raw_of(c)
        P, s = spec_ps(c)
        n, _el = view(c)
        return n == z3.If(z3.Length(raw) == 0, 0, M.CNT_PSR(P, s, M.RSPL_N(P, s)))

    def items_body(st, el, P, s):
        def body(k):
            part = M.RSPL_AT(P, s, k)
            nm, ad = addr_fields(st, el(M.CNT_PSR(P, s, k)))
            return z3.Implies(M.psr_keep(P, s, k), z3.And(nm == M.PSR_NAME(part), ad == M.PSR_ADDR(part)))
        return body

    def e_items(c):
        raw = raw_of(c)
        P, s = spec_ps(c)
        _n, el = view(c)
        return z3.Implies(z3.Length(raw) > 0, forall(M.RSPL_N(P, s), items_body(c.st, el, P, s), "k!ri"))

    def inv(lc):
        if is_list(lc.entry.lookup("raw")):
            return inv_list(lc)
        P, s = split_of(lc.st)
        n, el = built_list(lc, None, ("obj", "EmailAddress"))
        i = lc.i
        return M.ConjA([
            ("count", n == M.CNT_PSR(P, s, i)),
            ("order", forall(i, lambda k: z3.Implies(M.psr_keep(P, s, k), M.CNT_PSR(P, s, k) < M.CNT_PSR(P, s, i)), "k!ro",
                             pattern=lambda k: M.CNT_PSR(P, s, k))),
            ("items", forall(i, items_body(lc.st, el, P, s), "k!rj", pattern=lambda k: M.CNT_PSR(P, s, k))),
        ], defs=[M.cnt_psr_def(P, s, i), M.cnt_psr_def(P, s, i + 1)])

    def hyp(c):
        if is_list(c.args["raw"]):
            return off_def(z3.IntVal(0))
        raw = raw_of(c)
        return M.cnt_psr_def(z3.StringVal(RCPT_SEP), raw, z3.IntVal(0))

    c = FnContract(
        target=f"{MSG}::_parse_multi_recipients",
        params=[("raw", Maker(mk_raw, desc="str | list[str]"))],
        hyps=hyp,
        ensures=[("no-recipients-for-an-empty-string", str_only(e_empty)), ("the-string-itself-is-split-at-semicolons-and-commas", str_only(e_split)),
                 ("one-entry-per-piece-that-parses-to-a-name-or-an-address", str_only(e_count)),
                 ("entries-are-the-parsed-pieces-in-order", str_only(e_items)),
                 ("list:-as-many-entries-as-the-items-give-together", list_only(e_list_count)),
                 ("list:-the-recipients-of-each-item-in-order,-items-in-order", list_only(e_list_items))],
        raises=[],
        result_maker=result_maker,
        loops={"*": LoopSpec(inv=inv, label="recipients")},
        note="str: [r for r in map(_parse_single_recipient, re.split('[;,]', raw)) if r and (r.name or r.address)]; list[str]: the "
             "concatenation of the results of the items, in order.  Call sites in read_msg_format_mail keep the summarised view "
             "(a deterministic function of the message property, whose form -- str or list -- is not known there)",
    )
    c.summary_at_call_sites = True
    return c


def hint_pattern(repo=None):
    """The pattern constant `_looks_like_html` searches with, read from the REAL source: the module-level `re.compile(<literal>[,
    re.IGNORECASE])` whose name the function calls `.search` on -> the pattern string as the executor's model writes it."""
    m = loader.module(MSG, repo) if repo is not None else loader.module(MSG)
    fn = m.functions.get("_looks_like_html")
    if fn is None:
        raise M.ShapeUnknown("_looks_like_html is gone")
    names = [n.func.value.id for n in ast.walk(fn) if isinstance(n, ast.Call) and isinstance(n.func, ast.Attribute) and n.func.attr == "search"
             and isinstance(n.func.value, ast.Name)]
    if len(set(names)) != 1:
        raise M.ShapeUnknown("not exactly one compiled pattern searched by _looks_like_html")
    node = m.assigns.get(names[0])
    if not (isinstance(node, ast.Call) and ast.unparse(node.func) == "re.compile" and node.args and isinstance(node.args[0], ast.Constant)
            and isinstance(node.args[0].value, str) and not node.keywords):
        raise M.ShapeUnknown("hint pattern is not re.compile(<str literal>, ...)")
    flags = [ast.unparse(a) for a in node.args[1:]]
    if flags not in ([], ["re.IGNORECASE"], ["re.I"]):
        raise M.ShapeUnknown(f"hint pattern flags {flags}")
    return names[0], ("(?i)" if flags else "") + node.args[0].value, node.args[0].value, bool(flags)


def llh_spec(t):
    """`_looks_like_html(text)` as specified (msg bodies: which bodies are HTML): a non-empty text is HTML when, left-stripped and
    lower-cased, it opens with a doctype or mentions <html / <body, or when the module's tag-hint pattern finds a tag in it (what that
    pattern has to match is the ground obligation `_HTML_HINT_RE/module-invariant`)."""
    P = z3.StringVal(hint_pattern()[1])
    low = M.LOWER(M.LSTRIP(t))
    return z3.And(z3.Length(t) > 0,
                  z3.Or(z3.PrefixOf(z3.StringVal("<!doctype"), low), z3.Contains(low, z3.StringVal("<html")), z3.Contains(low, z3.StringVal("<body")),
                        z3.Not(M.RS_NONE(P, t))))


def llh_contract():
    """(round 7) _looks_like_html: VERIFIED on the real body; it used to be a summarised helper (an unspecified deterministic bool).
    Call sites (read_msg_format_mail) get the specified value, which is a function of the argument, so the former view is implied."""
    def ret(c):
        return VBool(llh_spec(c.args["text"].t))

    return FnContract(
        target=f"{MSG}::_looks_like_html",
        params=[("text", p_str())],
        returns=ret,
        raises=[],
        note="False for ''; doctype / <html / <body on the left-stripped lower-cased text, else the module's tag-hint pattern (re.search assumed total)",
    )


def helper_tag(st, v):
    """("helper", name, argument terms, sorts) of a list produced by a summarised private helper of the msg module"""
    tag = M.seq_tag(st, v) if v is not None else None
    if not (isinstance(tag, tuple) and tag and tag[0] == "helper"):
        raise M.ShapeUnknown("list not produced by a helper of the module applied to message properties")
    return tag


def read_msg_contract():
    def mx(c):
        return M.MSOX(M.CONTENT(c.args["file_like"].t))

    def the_result(c):
        ys = c.st.yielded
        if len(ys) != 1 or not isinstance(ys[0], VRef):
            return None
        return ys[0]

    def prop(c, name):
        kk = z3.StringVal(name)
        return M.MX_NONE(mx(c), kk), M.MX_STR(mx(c), kk)

    def f(path):
        def get(c):
            r = the_result(c)
            return None if r is None else M._path_get(c.st, r, path)
        return get

    def e_one(c):
        return z3.BoolVal(the_result(c) is not None and not c.st.ghost.get("yield_count_unknown"))

    def e_subject(c):
        v = f(("subject",))(c)
        none, s_ = prop(c, "subject")
        if not isinstance(v, VStr):
            raise M.ShapeUnknown("subject is not a str value")
        return z3.And(z3.Not(none), v.t == STRIP(s_))

    def e_mid(c):
        v = f(("metadata", "message_id"))(c)
        if v is None:
            raise M.ShapeUnknown("value built by the code has a shape this clause does not read")
        none, s_ = prop(c, "message_id")
        n2, t2 = opt_parts(v)
        return z3.And(n2 == none, z3.Implies(z3.Not(none), t2 == s_))

    def e_date(c):
        v = f(("metadata", "date"))(c)
        none, s_ = prop(c, "sent_date")
        if not isinstance(v, VStr):
            raise M.ShapeUnknown("date is not a str value")
        return z3.And(z3.Not(none), M.DATE_OK(s_), v.t == M.ISO(M.PDATE(s_)))

    RCPT = {"to_emails": "to", "to_cc": "cc", "to_bcc": "bcc"}

    def e_rcpt(field, pname):
        def e(c):
            tag = helper_tag(c.st, f((field,))(c))
            names = {helper_tag(c.st, f((fl,))(c))[1] for fl in RCPT}
            want = M.MX_PROP(mx(c), z3.StringVal(pname))
            if len(tag[2]) != 1:
                raise M.ShapeUnknown("recipient parser takes more than the property")
            return z3.And(z3.BoolVal(len(names) == 1), tag[2][0] == want)      # one parser for all recipient fields, fed its own property
        return e

    def e_from(c):
        v = f(("from_email",))(c)
        if v is None:
            raise M.ShapeUnknown("no sender value")
        nm, ad = addr_fields(c.st, v)
        fname = helper_tag(c.st, f(("to_emails",))(c))[1]
        sp = M.MX_PROP(mx(c), z3.StringVal("sender"))
        n = z3.Function(f"helper:{fname}.len", M.MsgPropS, I)(sp)
        first = z3.Function(f"helper:{fname}.at", M.MsgPropS, I, ext_sort("EmailAddress"))(sp, 0)
        return z3.If(n > 0, z3.And(nm == fld("EmailAddress", "name", S)(first), ad == fld("EmailAddress", "address", S)(first)),
                     z3.And(nm == M.EMPTY, ad == M.EMPTY))

    def e_body(c):
        bp, bh = f(("body_plain",))(c), f(("body_html",))(c)
        none, s_ = prop(c, "body")
        raw = z3.If(z3.Or(none, z3.Length(s_) == 0), M.EMPTY, s_)
        if not (isinstance(bp, VStr) and isinstance(bh, VStr)):
            raise M.ShapeUnknown("bodies are not str values")
        # either the body is plain text (no html body, plain body = the text) or it is html (html body = the raw body; the plain
        # body is its text rendering, produced by a helper that is not specified here)
        return z3.Or(z3.And(bh.t == M.EMPTY, bp.t == STRIP(raw)), bh.t == raw)

    def e_body_kind(c):
        # (round 7) WHICH of the two cases applies is now specified: the body is the HTML body exactly when the VERIFIED
        # _looks_like_html says so (its contract gives the call site the specified value).  Without that contract (helper renamed /
        # pattern shape not recognised) the helper is summarised and this clause has nothing to say.
        if c.ex.reg.get(f"{MSG}::_looks_like_html") is None:
            return z3.BoolVal(True)
        bp, bh = f(("body_plain",))(c), f(("body_html",))(c)
        none, s_ = prop(c, "body")
        raw = z3.If(z3.Or(none, z3.Length(s_) == 0), M.EMPTY, s_)
        if not (isinstance(bp, VStr) and isinstance(bh, VStr)):
            raise M.ShapeUnknown("bodies are not str values")
        html = llh_spec(raw)
        return z3.And(z3.Implies(html, bh.t == raw), z3.Implies(z3.Not(html), z3.And(bh.t == M.EMPTY, bp.t == STRIP(raw))))

    def e_atts(c):
        tag = helper_tag(c.st, f(("attachments",))(c))
        if len(tag[2]) != 1:
            raise M.ShapeUnknown("attachment extractor takes more than the file bytes")
        return tag[2][0] == M.CONTENT(c.args["file_like"].t)

    return FnContract(
        target=f"{MSG}::read_msg_format_mail",
        params=[("file_like", p_ext("BytesIO")), ("path", p_opt(p_str()))],
        hyps=lambda c: STRIP_EMPTY,
        generator=True,
        ensures=[("yields-exactly-one-result", e_one), ("subject-is-the-Subject-property", e_subject),
                 ("message_id-is-InternetMessageId", e_mid), ("date-is-the-ISO-form-of-the-sent-date", e_date),
                 ("from_email-is-the-first-parsed-sender", e_from),
                 ("to_emails-from-the-To-property", e_rcpt("to_emails", "to")), ("to_cc-from-the-Cc-property", e_rcpt("to_cc", "cc")),
                 ("to_bcc-from-the-Bcc-property", e_rcpt("to_bcc", "bcc")),
                 ("bodies-from-the-Body-property", e_body), ("html-body-iff-the-body-looks-like-html", e_body_kind), ("attachments-from-the-attachment-storages-of-the-same-bytes", e_atts)],
        raises=[Raises(FAMILY, sub=True, label="every failure arrives in the ExtractionError family")],
        note="field <- property mapping (dataflow); .msg is outside the RFC 5322 statement: totality is not claimed here",
    )


def contracts(reg):
    M.install(reg)
    out = []
    out.append(psr_contract())
    try:
        if pmr_shape_ok():
            out.append(pmr_contract())
    except Exception:  # noqa  (never let an exception escape from contracts())
        pass
    out.append(ros_contract())
    try:
        hint_pattern()
        out.append(llh_contract())
    except Exception:  # noqa  (shape of the hint pattern not recognised: the helper stays summarised, the ground obligation reports it)
        pass
    out.append(read_msg_contract())
    out.extend(router_contracts(reg))
    out.append(eml_contract())
    out.append(read_eml_contract())
    out.append(isa_contract())
    out.append(split_contract())
    out.append(body_contract())
    out.append(pem_contract())
    out.append(populate_contract())
    out.append(mbox_contract())
    out.append(dhv_contract())
    out.append(pea_contract())
    out.append(peas_contract())
    return [guard(c) if c.target.split('::')[0] in (MBOX, EML, MSG, DT) else c for c in out]


# ================================================================= ground / dataflow ==
SEP_MUST = [b"From a@x.org Mon Jan  1 00:00:00 2024\n", b"From a@x.org Mon Jan  1 00:00:00 2024\r\n",
            b"From MAILER-DAEMON Sat Oct  3 21:40:04 2026\n", b"From - Tue Feb 20 10:00:00 2024\n"]
SEP_MUST_NOT = [b">From a@x.org Mon Jan  1 00:00:00 2024\n", b"From: a@x.org\n", b" From a@x.org Mon Jan  1 00:00:00 2024\n",
                b"from a@x.org Mon Jan  1 00:00:00 2024\n", b"Subject: From a@x.org Mon Jan  1 00:00:00 2024\n", b"From \n", b"\n"]


def pattern_obligations(repo, tier):
    """MBOX_FROM_PATTERN (the literal of the real source, compiled here): a separator is a whole line starting with 'From ',
    LF or CRLF terminated; matching is anchored at line starts only; quoted '>From ' lines and headers never match; on a
    small generated corpus every match is exactly one line (this validates the assumed shape of finditer)."""
    import itertools
    import re
    m = loader.module(MBOX, repo)
    obls = []
    G = lambda label, ok, why="": obls.append(ground_obligation(f"C16/mbox_email_extractor.py::MBOX_FROM_PATTERN/module-invariant#{label}", ok, why,
                                                                 MBOX, kind="module-invariant", backend="ground"))
    node = m.assigns.get(M.separator_pattern_name(repo))
    try:
        assert isinstance(node, ast.Call) and ast.unparse(node.func) == "re.compile"
        pat = ast.literal_eval(node.args[0])
        flags = 0
        for a in node.args[1:]:
            flags |= eval(ast.unparse(a), {"re": re})
        rx = re.compile(pat, flags)
    except Exception as e:  # noqa
        obls.append(ground_obligation("C16/mbox_email_extractor.py::MBOX_FROM_PATTERN/module-invariant#pattern-is-a-compiled-bytes-literal", False,
                                      f"shape not recognised: {e}", MBOX, kind="module-invariant", backend="ground", definite=False))
        return {"obligations": obls, "functions": []}
    bad = [x for x in SEP_MUST if not (rx.match(x) and rx.match(x).end() == len(x))]
    G("separator-lines-match-whole-line-LF-and-CRLF", not bad, repr(bad))
    bad = [x for x in SEP_MUST_NOT if rx.search(x)]
    G("quoted-From-lines-headers-and-indented-lines-do-not-match", not bad, repr(bad))
    lines = [b"From a@x.org Mon Jan  1 00:00:00 2024", b">From b 2024", b"From: a@x.org", b"body 2024", b"", b"From x 1999", b"Fromage 2024",
             b"x From a@x.org Mon Jan  1 00:00:00 2024"]
    bad = []
    n_checked = 0
    for eol in (b"\n", b"\r\n"):
        for k in (1, 2, 3, 4):
            for combo in itertools.product(lines, repeat=k):
                if k == 4 and combo[0] is not lines[0]:
                    continue
                data = eol.join(combo) + eol
                ms = list(rx.finditer(data))
                n_checked += 1
                want = []
                pos = 0
                for ln in combo:
                    if re.fullmatch(rb"From \S+.*\d{4}", ln):
                        want.append((pos, pos + len(ln) + len(eol)))
                    pos += len(ln) + len(eol)
                got = [(x.start(), x.end()) for x in ms]
                if got != want:
                    bad.append((data, got, want))
                    break
    G("matches-are-exactly-the-separator-lines-(generated-corpus)", not bad and n_checked > 1000, f"{n_checked} mailboxes; first disagreement: {bad[:1]}")
    return {"obligations": obls, "functions": []}


def frame_obligations(repo, tier):
    """populate_from_path (called on every result's metadata after parsing) assigns only the four file-metadata fields."""
    dt = loader.module(DT, repo)
    fn = dt.functions.get("FileMetadataInterface.populate_from_path")
    allowed = {"filename", "file_extension", "file_path", "folder_path"}
    ok, why = False, "function missing"
    if fn is not None:
        stores = [n for n in ast.walk(fn) if isinstance(n, ast.Attribute) and isinstance(n.ctx, ast.Store)]
        calls = [n for n in ast.walk(fn) if isinstance(n, ast.Call) and isinstance(n.func, ast.Attribute) and isinstance(n.func.value, ast.Name)
                 and n.func.value.id == "self"]
        names = [ast.unparse(n_) for n_ in ast.walk(fn) if isinstance(n_, ast.Call) and isinstance(n_.func, ast.Name) and n_.func.id in ("setattr", "vars")]
        bad = [ast.unparse(n) for n in stores if not (isinstance(n.value, ast.Name) and n.value.id == "self" and n.attr in allowed)]
        ok = bool(stores) and not bad and not calls and not names
        why = f"stores outside the file-metadata fields: {bad}; self-calls: {[ast.unparse(c) for c in calls]}; dynamic: {names}"
    md = dt.classes.get("EmailMetadata")
    own = [b.target.id for b in md.body if isinstance(b, ast.AnnAssign)] if md is not None else []
    ok2 = md is not None and set(own) == {"date", "message_id"} and not (set(own) & allowed)
    return {"obligations": [
        ground_obligation("C16/data_types.py::FileMetadataInterface.populate_from_path/frame#assigns-only-file-metadata-fields", ok, why, DT, definite=False),
        ground_obligation("C16/data_types.py::EmailMetadata/frame#date-and-message_id-are-not-file-metadata-fields", ok2, str(own), DT, definite=False)],
        "functions": [dict(dt.fn_info("FileMetadataInterface.populate_from_path"), obligations=1)] if fn is not None else []}


# The type the standard MIME registry (IANA, as shipped in Python's `mimetypes`) assigns to the extensions the router accepts.
# (`dot` is left out: the registry gives it to Graphviz, the router to Word templates.)  Whatever sends a supported file as an
# attachment -- the stdlib generator in particular -- announces it with this type.
STANDARD_TYPES = {
    '7z': 'application/x-7z-compressed', 'csv': 'text/csv', 'doc': 'application/msword', 'docm': 'application/vnd.ms-word.document.macroEnabled.12',
    'docx': 'application/vnd.openxmlformats-officedocument.wordprocessingml.document', 'dotm': 'application/vnd.ms-word.template.macroEnabled.12',
    'dotx': 'application/vnd.openxmlformats-officedocument.wordprocessingml.template', 'eml': 'message/rfc822', 'epub': 'application/epub+zip',
    'htm': 'text/html', 'html': 'text/html', 'json': 'application/json', 'mbox': 'application/mbox', 'md': 'text/markdown', 'mht': 'message/rfc822',
    'mhtml': 'message/rfc822', 'odf': 'application/vnd.oasis.opendocument.formula', 'odg': 'application/vnd.oasis.opendocument.graphics',
    'odp': 'application/vnd.oasis.opendocument.presentation', 'ods': 'application/vnd.oasis.opendocument.spreadsheet',
    'odt': 'application/vnd.oasis.opendocument.text', 'otp': 'application/vnd.oasis.opendocument.presentation-template',
    'ots': 'application/vnd.oasis.opendocument.spreadsheet-template', 'ott': 'application/vnd.oasis.opendocument.text-template', 'pdf': 'application/pdf',
    'pot': 'text/plain', 'potm': 'application/vnd.ms-powerpoint.template.macroEnabled.12',
    'potx': 'application/vnd.openxmlformats-officedocument.presentationml.template', 'pps': 'application/vnd.ms-powerpoint',
    'ppsm': 'application/vnd.ms-powerpoint.slideshow.macroEnabled.12', 'ppsx': 'application/vnd.openxmlformats-officedocument.presentationml.slideshow',
    'ppt': 'application/vnd.ms-powerpoint', 'pptm': 'application/vnd.ms-powerpoint.presentation.macroEnabled.12',
    'pptx': 'application/vnd.openxmlformats-officedocument.presentationml.presentation', 'rtf': 'application/rtf', 'tar': 'application/x-tar',
    'tsv': 'text/tab-separated-values', 'txt': 'text/plain', 'xls': 'application/vnd.ms-excel', 'xlsm': 'application/vnd.ms-excel.sheet.macroEnabled.12',
    'xlsx': 'application/vnd.openxmlformats-officedocument.spreadsheetml.sheet', 'xlt': 'application/vnd.ms-excel',
    'xltm': 'application/vnd.ms-excel.template.macroEnabled.12', 'xltx': 'application/vnd.openxmlformats-officedocument.spreadsheetml.template',
    'zip': 'application/zip',
}


def mime_table_obligations(repo, tier):
    """"A supported attachment extracts to the same content as the attached file on its own": a file the router accepts by its
    extension must be accepted as an attachment when it is announced with the standard MIME type of that extension, i.e.
    is_supported_mime_type(standard type) -- the table MIME_TYPE_MAPPING, evaluated from the real source -- is True (routing is by
    name first, so the extractor is then the file's own).  One obligation per routable extension; plus well-formedness of the
    table's keys (a generated table whose rows are strings instead of tuples yields single characters)."""
    import re
    from contracts import C07
    REG, ALI, _COMP, MIMES = C07.tables(repo)
    obls = []
    bad = [k for k in MIMES if not re.fullmatch(r"[A-Za-z0-9][A-Za-z0-9!#$&^_.+-]*/[A-Za-z0-9][A-Za-z0-9!#$&^_.+-]*", k)]
    obls.append(ground_obligation("C16/mime_types.py::MIME_TYPE_MAPPING/module-invariant#keys-are-type/subtype-names", not bad and len(MIMES) > 0,
                                  f"not MIME type names: {bad[:12]}", MIME, kind="module-invariant", backend="ground"))
    routable = set(REG) | set(ALI)
    for ext in sorted(STANDARD_TYPES):
        if ext not in routable:
            continue
        mt = STANDARD_TYPES[ext]
        # MIME type names are case-insensitive; Message.get_content_type() (hence mailparser) reports them in lower case
        ok = mt in MIMES and mt.lower() in MIMES
        obls.append(ground_obligation(f"C16/mime_types.py::MIME_TYPE_MAPPING/policy#standard-type-of-.{ext}-attachments-is-supported", ok,
                                      f".{ext} files are announced as {mt}; is_supported_mime_type: as registered {mt in MIMES}, as the parsers report it "
                                      f"({mt.lower()}) {mt.lower() in MIMES}", MIME, kind="policy", backend="ground"))
    return {"obligations": obls, "functions": []}


# What the tag-hint pattern of `_looks_like_html` has to do (from the property: "the plain and HTML bodies"; an Outlook HTML body is a
# fragment of tags that nearly always carry attributes): an opening tag of the listed block / inline elements counts whether it is
# closed at once (`<p>`) or followed by white space and attributes (`<p class="MsoNormal">`), in any case; text that merely contains
# `<`, other elements, and the two characters backslash + `s` after a tag name do not.
HINT_MUST = ["<p>x</p>", "<p class=\"MsoNormal\">x</p>", "<div style=\"c\">x</div>", "<span\tid=x>y</span>", "<table border=\"1\"><tr><td>1</td></tr></table>",
             "<td\nclass=a>", "<P CLASS=\"A\">x</P>", "<BR>", "<br />", "text before <div class=\"WordSection1\">x</div>"]
HINT_MUST_NOT = ["a < b and c > d", "<pre>x</pre>", "<b>bold</b>", "<tdx>", "<paragraph>", "<p\\s", "", "1 <2 p>"]


def hint_pattern_obligations(repo, tier):
    """`_HTML_HINT_RE` (the literal of the real source, compiled here with the real `re`) on the two tables above: the contract of
    `_looks_like_html` is stated over "the module's hint pattern"; what that pattern matches is decided here."""
    import re
    obls = []
    name, _model, lit, icase = hint_pattern(repo)
    rx = re.compile(lit, re.IGNORECASE if icase else 0)
    G = lambda label, ok, why="": obls.append(ground_obligation(f"C16/msg_email_extractor.py::_HTML_HINT_RE/module-invariant#{label}", ok, why,
                                                                 MSG, kind="module-invariant", backend="ground"))
    bad = [x for x in HINT_MUST if rx.search(x) is None]
    G("opening-tags-with-or-without-attributes-are-html", not bad, f"{name} does not find a tag in {bad!r}")
    bad = [x for x in HINT_MUST_NOT if rx.search(x) is not None]
    G("text-without-a-listed-opening-tag-is-not-html", not bad, f"{name} finds a tag in {bad!r}")
    return {"obligations": obls, "functions": []}


def _guarded_extra(fn, oid):
    """an EXTRA never crashes the check: an exception inside pack code on a changed tree is an unrecognised shape -> `unknown`"""
    def run(repo, tier):
        try:
            return fn(repo, tier)
        except Exception as e:  # noqa
            return {"obligations": [ground_obligation(oid, False, f"shape not recognised: {type(e).__name__}: {e}"[:300], "pack", definite=False)], "functions": []}
    run.__name__ = fn.__name__
    return run


EXTRA = [_guarded_extra(pattern_obligations, "C16/mbox_email_extractor.py::MBOX_FROM_PATTERN/module-invariant#pattern-is-a-compiled-bytes-literal"),
         _guarded_extra(frame_obligations, "C16/data_types.py::FileMetadataInterface.populate_from_path/frame#assigns-only-file-metadata-fields"),
         _guarded_extra(mime_table_obligations, "C16/mime_types.py::MIME_TYPE_MAPPING/module-invariant#keys-are-type/subtype-names"),
         _guarded_extra(hint_pattern_obligations, "C16/msg_email_extractor.py::_HTML_HINT_RE/module-invariant#opening-tags-with-or-without-attributes-are-html"),
         _guarded_extra(pmr_coverage_obligations, "C16/msg_email_extractor.py::_parse_multi_recipients/bounded#native-table")]
REPLAY_UNKNOWN = True      # an obligation the solver leaves unknown is searched natively (replay/C16.py) before it is reported undecided


def known_findings(kf, violations, repo, tier):
    """Recorded genuine defects (known_findings.json): each witness is replayed natively; a finding that still fails prints
    KNOWN-FINDING and covers exactly its own obligation id(s)."""
    import json
    import os
    import subprocess
    out = []
    vio_ids = {v["id"] for v in violations}
    root = os.path.dirname(os.path.dirname(os.path.abspath(__file__)))
    for f in kf:
        req = {"property": "C16", "obligation": f["obligation"], "known_finding": f["id"], "witness": f.get("witness"), "repo": repo}
        try:
            p = subprocess.run(["/venv/bin/python", os.path.join(root, "replay", "run.py")], input=json.dumps(req), capture_output=True,
                               text=True, timeout=600, env=dict(os.environ, VERIF_REPO=repo))
            lines = [l for l in p.stdout.splitlines() if l.startswith("{")]
            res = json.loads(lines[-1]) if lines else {"reproduced": False}
        except Exception as e:  # noqa
            res = {"reproduced": False, "note": str(e)}
        still = bool(res.get("reproduced"))
        covers = [o for o in f.get("covers", [f["obligation"]]) if o in vio_ids] if still else []
        out.append({"finding": f["id"], "still_fails": still, "line": f"{f['id']}: {f['what']}", "covers": covers,
                    "witness_replay": res.get("observed", res.get("note", ""))})
    return out


TRUSTED = [
    "stdlib email: message_from_bytes / Message.get / walk / get_content_type / get_payload(decode=True) / get_content_charset / "
    "get_content_disposition, email.header.decode_header, email.utils.getaddresses / parseaddr / parsedate_to_datetime "
    "(decoding correctness of RFC 2047 / MIME lives there; uninterpreted here)",
    "mailparser.parse_from_bytes: mail.from_/to/cc/bcc/reply_to are lists of decoded (name, address) pairs that all carry an "
    "address; subject/message_id/in_reply_to str or None; date datetime or None; text_plain/text_html lists of str; attachments "
    "dicts {filename, mail_content_type, payload, binary} with binary => payload is the base64 text of the attachment's bytes",
    "msg_parser.MsOxMessage properties are functions of the file bytes",
    "re: finditer yields ordered, non-overlapping, non-empty matches inside the data (the pattern itself is checked by ground "
    "obligations on the compiled literal)",
    "router.get_extractor: verified by the C07 pack (used through the shape of its contract; table content enters through the lemmas "
    "mime-fallback-routes.*); mime_types.is_supported_mime_type is verified by this pack as well since round 7",
]
ASSUMED_MODELS = [
    "email.message_from_bytes (total)", "email.message.Message.get (str | None, case-insensitive)", "Message.walk() (finite, depth-first order)",
    "Message.is_multipart / get_content_type / get_content_charset / get_content_disposition / get_filename",
    "Message.get_payload(decode=True) (bytes | None)", "email.header.decode_header (list of (bytes|str, charset|None))",
    "email.utils.getaddresses / parseaddr (total)", "email.utils.parsedate_to_datetime (ValueError/TypeError when not a date)",
    "datetime.isoformat", "bytes.decode(cs, errors='replace') raises only LookupError, for an unknown codec; 'utf-8' is known",
    "str.encode('utf-8', errors='ignore') total", "bytes.rstrip(b'\\r\\n')", "base64.b64decode (may raise)",
    "re.Pattern.finditer / Match.start / Match.end; re.search / Pattern.search (total)",
    "re.split / Pattern.split on a constant pattern (total, at least one piece; pieces uninterpreted)",
    "re.compile(p, re.IGNORECASE) == re.compile('(?i)' + p)",
    "olefile: ole.openstream([storage, name]) / stream.read() may raise anything, else functions of (file, storage, name) (validated natively "
    "on a stub by replay check_read_ole_string)", "bytes.decode(cs, errors='ignore') / str.rstrip(<constant chars>) (uninterpreted)", "str.lower / str.lstrip (total, uninterpreted functions of the string)",
    "io.BytesIO(data) / seek / read / getvalue (content and position)",
    "mailparser.parse_from_bytes and the attribute shapes listed in TRUSTED", "msg_parser.MsOxMessage (may raise)",
    "str.strip (uninterpreted; ''.strip() == '')", "str.join over a symbolic sequence: depends only on separator, length and the elements below the length",
    "msg_email_extractor._extract_msg_attachments, _html_to_text: NOT verified, used as deterministic functions (dataflow of "
    "read_msg_format_mail only); the verified _read_ole_string is a helper of the unverified _extract_msg_attachments, so its contract "
    "has no verified caller yet",
    "msg_email_extractor._parse_multi_recipients at the call sites of read_msg_format_mail: the function is verified for a str and for "
    "a list[str] argument (round 7), but a MsOxMessage property is an opaque value there (str or list: msg_parser's business), so the "
    "call sites keep the summarised view -- a deterministic function of the property, which the verified contract implies",
    "FileMetadataInterface.populate_from_path: frame = four file-metadata fields (checked syntactically on the source)",
]
ASSUMPTIONS = [
    "bytes of symbolic length are modelled as strings of code points < 256 (latin-1 isomorphism); no operation of the verified code "
    "distinguishes the two except isinstance, which is modelled",
    "PY-RE, PY-STR, PY-EXC / EXC-ANY, PY-GEN, logger calls dropped (PY-LOG)",
    "DT-TYPED: fields of the content dataclasses hold values of their declared types",
    "CNT_SP / CNT_GA / CNT_PSR / FIRST_P / FIRST_H are defined by primitive recursion; their definitional equations are supplied as ground "
    "instances where an invariant is assumed (conservative extension)",
    "PSR_NONE / PSR_NAME / PSR_ADDR name the result of the verified, deterministic _parse_single_recipient at its call sites (conservative "
    "extension; constrained only by that contract's ensures clauses)",
    "Message.get returns str for every header (compat32 policy returns email.header.Header for raw 8-bit header bytes: not modelled)",
    "a generator's consumer may stop after any prefix",
]
NOT_CLAIMED = [
    "correct decoding of RFC 2047 words, charsets, base64/quoted-printable, header folding, MIME nesting: stdlib email / mailparser "
    "(exercised natively by replay/C16.py against the stdlib generator's ground truth, not proved)",
    "msg: totality (a .msg without Subject / sent date fails as a whole: msg.subject None -> AttributeError in __post_init__, "
    "parsedate_to_datetime(None) -> TypeError); _extract_msg_attachments (OLE storages: "
    "filtered comprehension + filter-map loop over olefile, outside the engine's reach), _html_to_text (C17); reply_to is stored unparsed",
    "mboxrd un-escaping: a body line '>From ' stays quoted in body_plain (mailbox.mbox does the same); boundaries are unaffected",
    "several inline text/plain parts: .mbox keeps the first, .eml (mailparser) joins all with a newline -- the two extractors disagree "
    "(natively: 'first part' vs 'first part\\nsecond part'); single-part non-text message: .mbox decodes it as body_plain, .eml gives ''",
    "iterate_supported_attachments skips an attachment whose MIME type is not in the table even when its file name is routable "
    "(e.g. report.pdf sent as application/octet-stream): `supported` is read as the is_supported_mime_type flag of the data model",
    "date strings of .eml (UTC, +00:00) and .mbox (original offset) denote the same instant but are not the same string",
]
BOUNDED = ["_parse_multi_recipients written with comprehensions / generator expressions instead of loops is not verified (summarised as before round 7): "
           "the native table bounded#native-table is then the only check of its body",
           "a regular expression used with re.sub is taken to implement RFC 5322 unfolding when it does so on the table c16_exec.UNFOLD_TABLE "
           "(evaluated with the real `re`); otherwise it stays an uninterpreted substitution"]
