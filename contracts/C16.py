"""C16 -- e-mail: headers, bodies, attachments and mailbox boundaries are exact (the GLUE).

Decoding correctness of RFC 2047 / MIME lives in the stdlib `email` package, `mailparser` and
`msg_parser`; their documented behaviour is ASSUMED (uninterpreted functions, listed in
ASSUMED_MODELS).  What is verified here, on the real source re-read on every run:

  mbox_email_extractor.py  _split_mbox_messages, decode_header_value, parse_email_address,
                           parse_email_addresses, get_body_content, parse_email_message,
                           read_mbox_format_mail
  eml_email_extractor.py   _read_eml_format, read_eml_format_mail
  msg_email_extractor.py   _parse_single_recipient, read_msg_format_mail (field mapping)
  data_types.py            EmailContent.iterate_supported_attachments
  (+ ground obligations on MBOX_FROM_PATTERN and on the frame of populate_from_path)

Top-level postconditions are written from the property statement; see contracts/c16_exec.py for
the spec functions (piece, CNT_SP, dhv_term, FIRST_P/FIRST_H, ...).
"""
import ast

import z3

from pyvc import loader, ops
from pyvc.contracts import FnContract, LoopSpec, Raises
from pyvc.flow import ground_obligation
from pyvc.ops import Unsupported
from pyvc.state import HeapObj
from pyvc.values import NONE, VBool, VExt, VInt, VRef, VSeq, VStr, VTuple, VUnk, ext_sort, fresh_name
from pyvc.verify import Maker, p_ext, p_opt, p_str

from contracts import c03_exec as X
from contracts import c16_exec as M
from contracts.c03_exec import B, Conj, I, JOIN, K, S, STRIP, fld, fun
from contracts.c16_exec import MBOX, EML, MSG, DT, MIME, VOpt, VDyn, opt_parts, absent, seq_of, built_list

EXECUTOR = M.MailExecutor
EXECUTOR_KW = {}
FAMILY = "ExtractionError"


def forall(n, body, name="k!q", pattern=None):
    k = z3.Int(name)
    b = body(k)
    pats = [pattern(k)] if pattern is not None else []
    return z3.ForAll([k], z3.Implies(z3.And(k >= 0, k < n), b), patterns=pats) if pats else \
        z3.ForAll([k], z3.Implies(z3.And(k >= 0, k < n), b))


def sval(v):
    """string term of a str-kinded element value"""
    return v.t


# =============================================================== (a) _split_mbox_messages ==
def split_contract():
    P = z3.Const("re:MBOX_FROM_PATTERN", M.PatS)

    def D_of(c):
        return c.args["data"].t

    def view(c):
        r = seq_of(c.st, c.result)
        if r is None:
            raise Unsupported("result of _split_mbox_messages is not a list")
        return r

    def hyp(c):
        return z3.And(M.match_axioms(P, D_of(c)), M.cnt_sp_def(P, D_of(c), z3.IntVal(0)))

    def e_count(c):
        n, _e = view(c)
        D = D_of(c)
        return n == M.CNT_SP(P, D, M.M_N(P, D))

    def e_items(c):
        n, el = view(c)
        D = D_of(c)
        return forall(M.M_N(P, D), lambda k: z3.Implies(z3.Length(M.piece(P, D, k)) > 0, el(M.CNT_SP(P, D, k)).t == M.piece(P, D, k)), "k!sp",
                      pattern=lambda k: M.CNT_SP(P, D, k))

    def e_index(c):
        n, el = view(c)
        D = D_of(c)
        return forall(M.M_N(P, D), lambda k: z3.Implies(z3.Length(M.piece(P, D, k)) > 0, z3.And(0 <= M.CNT_SP(P, D, k), M.CNT_SP(P, D, k) < n)), "k!sx",
                      pattern=lambda k: M.CNT_SP(P, D, k))

    def inv(lc):
        D = lc.entry.lookup("data").t
        n, el = built_list(lc, 0)
        i = lc.i
        return M.ConjA([
            ("count", n == M.CNT_SP(P, D, i)),
            ("order", forall(i, lambda k: z3.Implies(z3.Length(M.piece(P, D, k)) > 0,
                                                     z3.And(0 <= M.CNT_SP(P, D, k), M.CNT_SP(P, D, k) < M.CNT_SP(P, D, i))), "k!so",
                             pattern=lambda k: M.CNT_SP(P, D, k))),
            ("items", forall(i, lambda k: z3.Implies(z3.Length(M.piece(P, D, k)) > 0, el(M.CNT_SP(P, D, k)).t == M.piece(P, D, k)), "k!si",
                             pattern=lambda k: M.CNT_SP(P, D, k))),
        ], defs=[M.cnt_sp_def(P, D, i), M.cnt_sp_def(P, D, i + 1)])

    def result_maker(ex, st, ctx):
        D = M.bytes_term(ctx.args["data"])
        sq = X.fresh_seq_like("str", "pieces")
        st.assume(M.match_axioms(P, D))
        return VSeq(sq.length, sq.elem, "str", tag=("pieces", D))

    return FnContract(
        target=f"{MBOX}::_split_mbox_messages",
        params=[("data", p_str())],
        hyps=hyp,
        ensures=[("one-message-per-nonempty-slice-between-separators", e_count),
                 ("messages-are-the-eol-stripped-slices-in-order", e_items),
                 ("positions-are-in-range-and-increasing", e_index)],
        raises=[],
        loops={0: LoopSpec(inv=inv, label="separators")},
        result_maker=result_maker,
        note="result == [strip_eol(data[e_k : s_{k+1} | len(data)]) for k in range(n) if non-empty], for the match list [(s_k, e_k)] of the separator regex",
    )


# ================================================= (b) headers: decode_header_value, addresses ==
def p_optstr():
    return p_opt(p_str())


def dhv_contract():
    """decode_header_value: total (no charset can make it raise), '' for a missing/empty header, else the decoded chunks of
    email.header.decode_header concatenated in order."""
    def s_of(c):
        return opt_parts(c.args["value"])

    def inv(lc):
        v = lc.entry.lookup("value")
        _n, s = opt_parts(v)
        n, el = built_list(lc, 0)
        i = lc.i
        return Conj([("count", n == i),
                     ("chunks", forall(i, lambda k: el(k).t == M.dh_piece(s, k), "k!dh"))])

    def result_maker(ex, st, ctx):
        n, s = s_of(ctx)
        return VStr(M.dhv_term(n, s))

    def e_value(c):
        """result == dhv_term(value).  `"".join(xs)` is compared argument-wise: same separator, same length, same elements
        on [0, length) (str.join depends on nothing else)."""
        none, s = s_of(c)
        miss = z3.Or(none, z3.Length(s) == 0)
        r = c.result
        if not isinstance(r, VStr):
            return z3.BoolVal(False)
        j = join_parts(r.t)
        if j is None:
            return z3.And(miss, r.t == M.EMPTY)
        sep, arr, n = j
        return z3.And(z3.Not(miss), sep == M.EMPTY, n == M.DH_N(s), forall(n, lambda k: z3.Select(arr, k) == M.dh_piece(s, k), "k!dj"))

    return FnContract(
        target=f"{MBOX}::decode_header_value",
        params=[("value", p_optstr())],
        ensures=[("empty-for-missing-header-else-join-of-decoded-chunks", e_value)],
        raises=[],
        loops={0: LoopSpec(inv=inv, label="chunks")},
        result_maker=result_maker,
        note="never raises; == ''.join(decoded chunk k) with charset fallback utf-8 and errors replaced",
    )


def join_parts(t):
    """(sep, element array, length) when t is `sep.join(seq)` over a symbolic sequence, else None."""
    if z3.is_app(t) and t.decl().name() == "str_join" and t.num_args() == 3:
        return t.arg(0), t.arg(1), t.arg(2)
    return None


def addr_fields(st, v):
    """(name term, address term) of an EmailAddress value (heap instance or abstract instance)."""
    if isinstance(v, VRef):
        d = st.obj(v.ref).data
        return d["name"].t, d["address"].t
    if isinstance(v, VExt) and v.sort == "EmailAddress":
        return fld("EmailAddress", "name", S)(v.t), fld("EmailAddress", "address", S)(v.t)
    raise Unsupported(f"EmailAddress expected, got {v!r}")


def pea_contract():
    def spec(c):
        n, s = opt_parts(c.args["addr_string"])
        miss = z3.Or(n, z3.Length(s) == 0)
        return (z3.If(miss, M.EMPTY, M.dhv_term(z3.BoolVal(False), M.PA_NAME(s))), z3.If(miss, M.EMPTY, M.PA_ADDR(s)))

    def e_name(c):
        return addr_fields(c.st, c.result)[0] == spec(c)[0]

    def e_addr(c):
        return addr_fields(c.st, c.result)[1] == spec(c)[1]

    def result_maker(ex, st, ctx):
        nm, ad = spec(ctx)
        return ex.new_obj(st, "EmailAddress", {"name": VStr(nm), "address": VStr(ad)})

    return FnContract(
        target=f"{MBOX}::parse_email_address",
        params=[("addr_string", p_optstr())],
        ensures=[("name-is-the-decoded-display-name", e_name), ("address-is-the-parsed-address", e_addr)],
        raises=[],
        result_maker=result_maker,
        note="(decode_header_value(parseaddr(s)[0]), parseaddr(s)[1]); ('', '') for a missing header",
    )


def peas_contract():
    """parse_email_addresses: the entries of getaddresses([s]) that carry an address, in order, names decoded."""
    def s_of(c):
        return opt_parts(c.args["addr_string"])

    def view(c):
        r = seq_of(c.st, c.result, ("obj", "EmailAddress"))
        if r is None:
            raise Unsupported("result of parse_email_addresses is not a list")
        return r

    def keep(s, k):
        return z3.Length(M.GA_ADDR(s, k)) > 0

    def hyp(c):
        n, s = s_of(c)
        return M.cnt_ga_def(s, z3.IntVal(0))

    def e_count(c):
        none, s = s_of(c)
        n, _el = view(c)
        return n == z3.If(z3.Or(none, z3.Length(s) == 0), 0, M.CNT_GA(s, M.GA_N(s)))

    def e_items(c):
        none, s = s_of(c)
        n, el = view(c)
        def body(k):
            nm, ad = addr_fields(c.st, el(M.CNT_GA(s, k)))
            return z3.Implies(keep(s, k), z3.And(nm == M.dhv_term(z3.BoolVal(False), M.GA_NAME(s, k)), ad == M.GA_ADDR(s, k)))
        return z3.Implies(z3.Not(z3.Or(none, z3.Length(s) == 0)), forall(M.GA_N(s), body, "k!pa"))

    def inv(lc):
        none, s = opt_parts(lc.entry.lookup("addr_string"))
        n, el = built_list(lc, 0, ("obj", "EmailAddress"))
        i = lc.i

        def body(k):
            nm, ad = addr_fields(lc.st, el(M.CNT_GA(s, k)))
            return z3.Implies(keep(s, k), z3.And(nm == M.dhv_term(z3.BoolVal(False), M.GA_NAME(s, k)), ad == M.GA_ADDR(s, k)))
        return M.ConjA([
            ("count", n == M.CNT_GA(s, i)),
            ("order", forall(i, lambda k: z3.Implies(keep(s, k), M.CNT_GA(s, k) < M.CNT_GA(s, i)), "k!po", pattern=lambda k: M.CNT_GA(s, k))),
            ("items", forall(i, body, "k!pi", pattern=lambda k: M.CNT_GA(s, k))),
        ], defs=[M.cnt_ga_def(s, i), M.cnt_ga_def(s, i + 1)])

    def result_maker(ex, st, ctx):
        return addr_list_value(st, ctx.args["addr_string"])

    return FnContract(
        target=f"{MBOX}::parse_email_addresses",
        params=[("addr_string", p_optstr())],
        hyps=hyp,
        ensures=[("one-entry-per-address-of-getaddresses", e_count), ("entries-are-(decoded-name,address)-in-order", e_items)],
        raises=[],
        loops={0: LoopSpec(inv=inv, label="addresses")},
        result_maker=result_maker,
        note="[EmailAddress(decode_header_value(n), a) for (n, a) in getaddresses([s]) if a]; [] for a missing header",
    )


def addr_list_value(st, v):
    """The specified address list of an optional header value as an abstract sequence (call sites): AL_*(s), related to
    getaddresses by the verified ensures of parse_email_addresses (al_facts)."""
    none, s = opt_parts(v)
    miss = z3.Or(none, z3.Length(s) == 0)
    st.assume(M.al_facts(s))
    ea = fun("address_list_entry", S, I, ext_sort("EmailAddress"))
    k = z3.Int("k!ale")
    st.assume(z3.ForAll([k], z3.And(fld("EmailAddress", "name", S)(ea(s, k)) == M.AL_NAME(s, k),
                                    fld("EmailAddress", "address", S)(ea(s, k)) == M.AL_ADDR(s, k)), patterns=[ea(s, k)]))
    return VSeq(z3.If(miss, 0, M.AL_N(s)), lambda k: VExt("EmailAddress", ea(s, k)), ("obj", "EmailAddress"), tag=("addrs", miss, s))


# =========================================================== (c) get_body_content ==
def returned_names(fnode):
    """Names of the tuple returned by the last `return a, b` of the real function."""
    rets = [n for n in ast.walk(fnode) if isinstance(n, ast.Return) and isinstance(n.value, ast.Tuple)]
    rets.sort(key=lambda n: n.lineno)
    if not rets or not all(isinstance(e, ast.Name) for e in rets[-1].value.elts):
        raise Unsupported("return of a tuple of names expected")
    return [e.id for e in rets[-1].value.elts]


def body_contract():
    def m_of(c):
        return c.args["message"].t

    def hyp(c):
        return M.first_def(m_of(c), z3.IntVal(0))

    def inv(lc):
        m = lc.entry.lookup("message").t
        pn, hn = returned_names(lc.st.frame.fnode)
        i = lc.i
        return M.ConjA([("plain", lc[pn].t == M.FIRST_P(m, i)), ("html", lc[hn].t == M.FIRST_H(m, i))],
                       defs=[M.first_def(m, i), M.first_def(m, i + 1)])

    def e_plain(c):
        return c.result.items[0].t == M.body_plain_spec(m_of(c))

    def e_html(c):
        return c.result.items[1].t == M.body_html_spec(m_of(c))

    def result_maker(ex, st, ctx):
        m = ctx.args["message"].t
        return VTuple([VStr(M.body_plain_spec(m)), VStr(M.body_html_spec(m))])

    return FnContract(
        target=f"{MBOX}::get_body_content",
        params=[("message", p_ext("Message"))],
        hyps=hyp,
        ensures=[("plain-body-is-first-text/plain-non-attachment-part-in-walk-order", e_plain),
                 ("html-body-is-first-text/html-non-attachment-part-in-walk-order", e_html)],
        raises=[],
        loops={0: LoopSpec(inv=inv, label="walk")},
        result_maker=result_maker,
        note="multipart: first non-attachment text/plain and text/html part with content, in walk() order; single part: its text "
             "(html when text/html, else plain); charset fallback utf-8, never raises",
    )


# ======================================================== (b) parse_email_message ==
HEADER_FIELDS = {"to_emails": "To", "to_cc": "Cc", "to_bcc": "Bcc", "reply_to": "Reply-To"}
PEM_SNAPSHOT = [("subject",), ("from_email",), ("in_reply_to",), ("reply_to",), ("to_emails",), ("to_cc",), ("to_bcc",), ("body_plain",),
                ("body_html",), ("attachments",), ("metadata",), ("metadata", "date"), ("metadata", "message_id")]


def addr_list_matches(st, v, hv):
    """Bool: list value v is the specified address list of the optional header value hv."""
    none, s = opt_parts(hv)
    miss = z3.Or(none, z3.Length(s) == 0)
    r = seq_of(st, v, ("obj", "EmailAddress"))
    if r is None:
        return z3.BoolVal(False)
    n, el = r

    def body(k):
        e = el(k)
        if isinstance(e, VUnk):
            return z3.BoolVal(False)
        nm, ad = addr_fields(st, e)
        return z3.And(nm == M.AL_NAME(s, k), ad == M.AL_ADDR(s, k))
    return z3.And(n == z3.If(miss, 0, M.AL_N(s)), forall(n, body, "k!alm"))


def pem_spec(m):
    """Field values of the result for message m, from the property statement."""
    h = lambda name: M.hdr_opt(m, name)
    frm = h("From")
    fn, fs = opt_parts(frm)
    fmiss = z3.Or(fn, z3.Length(fs) == 0)
    return {
        "subject": STRIP(M.dhv(h("Subject"))),
        "in_reply_to": M.dhv(h("In-Reply-To")),
        "from_name": z3.If(fmiss, M.EMPTY, M.dhv_term(z3.BoolVal(False), M.PA_NAME(fs))),
        "from_addr": z3.If(fmiss, M.EMPTY, M.PA_ADDR(fs)),
        "date": M.date_spec(m),
        "message_id": M.dhv(h("Message-ID")),
        "body_plain": STRIP(M.body_plain_spec(m)),
        "body_html": M.body_html_spec(m),
    }


def pem_contract():
    def m_of(c):
        return c.args["message"].t

    def data(c):
        if not isinstance(c.result, VRef) or c.st.obj(c.result.ref).kind != "obj":
            raise Unsupported("parse_email_message result is not an object")
        return c.st.obj(c.result.ref).data

    def meta(c):
        md = data(c)["metadata"]
        return c.st.obj(md.ref).data

    def f_str(getter, key):
        def e(c):
            v = getter(c)
            if not isinstance(v, VStr):
                return z3.BoolVal(False)
            return v.t == pem_spec(m_of(c))[key]
        return e

    def e_from(c):
        nm, ad = addr_fields(c.st, data(c)["from_email"])
        sp = pem_spec(m_of(c))
        return z3.And(nm == sp["from_name"], ad == sp["from_addr"])

    def e_list(field):
        def e(c):
            return addr_list_matches(c.st, data(c)[field], M.hdr_opt(m_of(c), HEADER_FIELDS[field]))
        return e

    def e_atts(c):
        r = seq_of(c.st, data(c)["attachments"], ("obj", "EmailAttachment"))
        if r is None:
            return z3.BoolVal(False)
        return r[0] == M.ATT_N(m_of(c))

    def result_maker(ex, st, ctx):
        m = ctx.args["message"].t
        sp = pem_spec(m)
        st.assume(M.ATT_N(m) >= 0)
        md = ex.new_obj(st, "EmailMetadata", {"date": VStr(sp["date"]), "message_id": VStr(sp["message_id"]), "filename": NONE,
                                              "file_extension": NONE, "file_path": NONE, "folder_path": NONE})
        frm = ex.new_obj(st, "EmailAddress", {"name": VStr(sp["from_name"]), "address": VStr(sp["from_addr"])})
        atts = X.fresh_seq_like(("obj", "EmailAttachment"), "attachments")
        st.assume(atts.length == M.ATT_N(m))
        d = {"from_email": frm, "subject": VStr(sp["subject"]), "in_reply_to": VStr(sp["in_reply_to"]),
             "body_plain": VStr(sp["body_plain"]), "body_html": VStr(sp["body_html"]), "attachments": ex.new_alist(st, atts), "metadata": md}
        for f, hname in HEADER_FIELDS.items():
            d[f] = ex.new_alist(st, addr_list_value(st, M.hdr_opt(m, hname)))
        obj = ex.new_obj(st, "EmailContent", d)
        st.ghost[("result_of", obj.ref)] = (m, M.snapshot(st, obj, PEM_SNAPSHOT))
        return obj

    def hyp(c):
        return M.ATT_N(m_of(c)) >= 0          # a count

    return FnContract(
        target=f"{MBOX}::parse_email_message",
        params=[("message", p_ext("Message"))],
        hyps=hyp,
        ensures=[("subject-is-the-decoded-Subject", f_str(lambda c: data(c)["subject"], "subject")),
                 ("from_email-is-(decoded-name,address)-of-From", e_from),
                 ("to_emails-is-the-address-list-of-To", e_list("to_emails")),
                 ("to_cc-is-the-address-list-of-Cc", e_list("to_cc")),
                 ("to_bcc-is-the-address-list-of-Bcc", e_list("to_bcc")),
                 ("reply_to-is-the-address-list-of-Reply-To", e_list("reply_to")),
                 ("in_reply_to-is-the-decoded-In-Reply-To", f_str(lambda c: data(c)["in_reply_to"], "in_reply_to")),
                 ("date-is-the-ISO-form-of-Date-or-empty", f_str(lambda c: meta(c)["date"], "date")),
                 ("message_id-is-the-decoded-Message-ID", f_str(lambda c: meta(c)["message_id"], "message_id")),
                 ("body_plain-is-the-plain-body", f_str(lambda c: data(c)["body_plain"], "body_plain")),
                 ("body_html-is-the-html-body", f_str(lambda c: data(c)["body_html"], "body_html")),
                 ("every-attachment-is-returned", e_atts)],
        raises=[],
        result_maker=result_maker,
        note="every message yields a result (no header is mandatory); fields mapped from the headers / parts named in the labels",
    )


# ======================================================= (d) read_mbox_format_mail ==
def populate_contract():
    """FileMetadataInterface.populate_from_path as called on an EmailMetadata: ASSUMED to touch only the four file-metadata
    fields (its frame is checked syntactically on the real source by the EXTRA obligation `populate_from_path/frame`)."""
    def result_maker(ex, st, ctx):
        me = ctx.args["self"]
        if isinstance(me, VRef) and st.obj(me.ref).kind == "obj":
            w = st.wobj(me.ref)
            for f in ("filename", "file_extension", "file_path", "folder_path"):
                w.data[f] = VUnk(f)
        return NONE

    return FnContract(target=f"{DT}::EmailMetadata.populate_from_path", params=[("self", Maker(lambda ex, st, n: VUnk(n))), ("path", Maker(lambda ex, st, n: VUnk(n)))],
                      assumed=True, result_maker=result_maker, note="frame: filename, file_extension, file_path, folder_path only")


def mbox_contract():
    P = z3.Const("re:MBOX_FROM_PATTERN", M.PatS)

    def D_of(c):
        return M.CONTENT(c.args["file_like"].t)

    def hyp(c):
        return M.cnt_sp_def(P, D_of(c), z3.IntVal(0))

    def inv(lc):
        n, src, ok = lc.ex.yc_get(lc.st)
        el = lc.seq.elem if isinstance(lc.seq, VSeq) else seq_of(lc.st, lc.seq)[1]
        i = lc.i
        return Conj([("count", n == i),
                     ("order", forall(i, lambda k: z3.Select(src, k) == M.MFB(el(k).t), "k!mo")),
                     ("intact", forall(i, lambda k: z3.Select(ok, k), "k!mi"))])

    def e_count(c):
        n, _src, _ok = c.ex.yc_get(c.st)
        D = D_of(c)
        return n == M.CNT_SP(P, D, M.M_N(P, D))

    def e_order(c):
        n, src, ok = c.ex.yc_get(c.st)
        D = D_of(c)
        return forall(M.M_N(P, D), lambda k: z3.Implies(z3.Length(M.piece(P, D, k)) > 0, z3.And(
            z3.Select(src, M.CNT_SP(P, D, k)) == M.MFB(M.piece(P, D, k)), z3.Select(ok, M.CNT_SP(P, D, k)))), "k!me")

    return FnContract(
        target=f"{MBOX}::read_mbox_format_mail",
        params=[("file_like", p_ext("BytesIO")), ("path", p_opt(p_str()))],
        hyps=hyp,
        generator=True,
        ensures=[("one-result-per-message", e_count), ("results-are-the-parsed-messages-in-order", e_order)],
        raises=[],
        loops={0: LoopSpec(inv=inv, label="messages")},
        note="yields parse_email_message(message_from_bytes(piece k)) for every non-empty piece k of the mailbox, in order; nothing escapes",
    )


def contracts(reg):
    M.install(reg)
    out = []
    out.append(split_contract())
    out.append(body_contract())
    out.append(pem_contract())
    out.append(populate_contract())
    out.append(mbox_contract())
    out.append(dhv_contract())
    out.append(pea_contract())
    out.append(peas_contract())
    return out


TRUSTED = []
ASSUMED_MODELS = []
ASSUMPTIONS = []
