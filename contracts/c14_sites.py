"""C14 (c) numbering discipline, (d) bytes / content-type / pixel-size dataflow: AST obligations on the real
image-construction sites (back end `dataflow`).  A shape that is not recognised is `unknown`
(UNDECIDED, definite=False); a recognised shape that breaks the discipline is refuted.

Numbering discipline (=> numbers 1..n in append order, by the loop invariant
`counter == number of images appended so far`):
  start   the counter is initialised to 0 exactly once per document, before the image loops;
  step    on every path through one iteration of the loop that appends images:
          (#increments, #appends of a numbered image) is (0,0) or (1,1), and no unnumbered image is appended;
  use     the number stored in the image is the counter value right after the increment.
"""
from __future__ import annotations

import ast

from pyvc import loader
from pyvc.flow import dotted, ground_obligation

from contracts.c03_flow import iteration_paths, MANY
from contracts.c14_inline import line_of as LN, inlined as inline_helpers
from contracts.c14_flow import parent_map, ancestors, reaching, pos, bindings_of, method_calls, enclosing_stmt

EX = "sharepoint2text/parsing/extractors/"


def kwv(call, name):
    for k in call.keywords:
        if k.arg == name:
            return k.value
    return None


def ctor_calls(fn, ctor):
    out = [n for n in ast.walk(fn) if isinstance(n, ast.Call) and isinstance(n.func, ast.Name) and n.func.id == ctor]
    out.sort(key=pos)
    return out


def loops_around(pm, node):
    return [a for a in ancestors(pm, node) if isinstance(a, (ast.For, ast.While))]


def is_inc(n, name):
    """`name += 1`, `name = name + 1`, `name = 1 + name`"""
    if isinstance(n, ast.AugAssign) and isinstance(n.op, ast.Add) and isinstance(n.target, ast.Name) and n.target.id == name \
            and isinstance(n.value, ast.Constant) and n.value.value == 1:
        return True
    if isinstance(n, ast.Assign) and len(n.targets) == 1 and isinstance(n.targets[0], ast.Name) and n.targets[0].id == name \
            and isinstance(n.value, ast.BinOp) and isinstance(n.value.op, ast.Add):
        l, r = n.value.left, n.value.right
        one = lambda e: isinstance(e, ast.Constant) and e.value == 1 and not isinstance(e.value, bool)
        me = lambda e: isinstance(e, ast.Name) and e.id == name
        return (me(l) and one(r)) or (one(l) and me(r))
    return False


def is_other_write(n, name):
    if isinstance(n, ast.AugAssign) and isinstance(n.target, ast.Name) and n.target.id == name and not is_inc(n, name):
        return True
    if isinstance(n, ast.Assign) and any(isinstance(t, ast.Name) and t.id == name for t in n.targets) and not is_inc(n, name):
        return True
    return False


class Checker:
    def __init__(self, prop, rel, fname, repo, inline=True, real=None):
        self.rel, self.fname = rel, fname           # fname: the name used in obligation ids; real: the function found by role after a rename
        self.mod = loader.module(rel, repo)
        real = real or fname
        self.real = real
        self.raw_fn = self.mod.functions.get(real)
        # small private helpers of the module are inlined (AST level), so that the analyses follow the data flow through them
        self.fn, self.inlined_helpers = inline_helpers(self.mod, real) if (inline and self.raw_fn is not None) else (self.raw_fn, [])
        self.short = rel.split("/")[-1]
        self.obls = []
        self.total = set()      # names of repo functions proved not to raise (sniffers) / dataclass constructors
        self.pm = parent_map(self.fn) if self.fn is not None else {}

    def oid(self, kind, label):
        return f"C14/{self.short}::{self.fname}/{kind}#{label}"

    def add(self, kind, label, ok, detail="", definite=True):
        self.obls.append(ground_obligation(self.oid(kind, label), bool(ok), detail, self.rel, kind=kind, definite=definite))

    def unknown(self, kind, label, detail):
        self.add(kind, label, False, detail, definite=False)

    # ---------------------------------------------------------------- numbering --
    def step_discipline(self, counter, numbered, unnumbered, label="one-increment-per-numbered-image", loop=None, unfollowed=None):
        """numbered / unnumbered: predicates on AST nodes marking the append events; `unfollowed`: mutations of the image list that the
        analysis does not follow (then the obligation is `unknown`: the native replayer decides)."""
        if unfollowed is not None:
            uf = [n for n in ast.walk(self.fn) if unfollowed(n)]
            if uf:
                return self.unknown("numbering", label, f"the image list is also changed in a way the analysis does not follow (line {LN(uf[0])}: "
                                                        f"{ast.unparse(uf[0])[:60]})")
        sites = [n for n in ast.walk(self.fn) if numbered(n)]
        if not sites:
            return self.unknown("numbering", label, "no numbered image append found")
        loops = loops_around(self.pm, sites[0])
        if loop is None:
            if not loops:
                return self.unknown("numbering", label, "image append is not inside a loop")
            loop = loops[0]            # innermost loop around the append
        for s in sites[1:]:
            if loop not in loops_around(self.pm, s):
                loop = None
                break
        if loop is None:
            # several image loops (e.g. ODT: captioned frames, then simple frames): check each innermost loop
            todo = []
            for s in sites:
                l = loops_around(self.pm, s)
                if not l:
                    return self.unknown("numbering", label, "image append is not inside a loop")
                if l[0] not in todo:
                    todo.append(l[0])
        else:
            todo = [loop]
        events = [lambda n: is_inc(n, counter), numbered, unnumbered, lambda n: is_other_write(n, counter)]
        bad = []
        for lp in todo:
            for (vec, status) in paths2(lp.body, events, self.total):
                inc, num, unn, other = vec
                if other:
                    bad.append(f"counter re-assigned inside the image loop (line {LN(lp)})")
                elif unn:
                    bad.append(f"a path appends an image without a number (loop at line {LN(lp)}, path ends with {status})")
                elif (inc, num) not in ((0, 0), (1, 1)):
                    bad.append(f"a path through the loop at line {LN(lp)} has {inc if inc < MANY else 'several'} increment(s) and "
                               f"{num if num < MANY else 'several'} numbered append(s) (path ends with {status})")
        self.add("numbering", label, not bad, "; ".join(sorted(set(bad)))[:600])

    def number_is_counter_after_increment(self, counter, ctor_sites, num_kw, label="number-is-the-counter-after-its-increment"):
        """The number stored is (images appended so far) + 1: either the counter right after its increment, or `counter + 1` evaluated
        before the increment of this iteration (the number may travel through plain local names / helper parameters)."""
        bad = []
        for c in ctor_sites:
            v = kwv(c, num_kw)
            if v is None:
                continue
            at = c
            for _ in range(4):            # follow `n = <expr>` chains
                if isinstance(v, ast.Name) and v.id != counter:
                    b = reaching(self.fn, self.pm, v.id, at)
                    if b is None or b.kind != "assign":
                        break
                    v, at = b.value, b.node
                else:
                    break
            loops = loops_around(self.pm, c)
            in_loop = set(id(x) for x in ast.walk(loops[0])) if loops else set()
            if isinstance(v, ast.Name) and v.id == counter:
                b = reaching(self.fn, self.pm, counter, at)
                if b is None or not is_inc(b.node, counter):
                    bad.append(f"line {LN(c)}: the value of {counter} used is not the one right after its increment")
                continue
            plus1 = isinstance(v, ast.BinOp) and isinstance(v.op, ast.Add) and \
                ((isinstance(v.left, ast.Name) and v.left.id == counter and isinstance(v.right, ast.Constant) and v.right.value == 1) or
                 (isinstance(v.right, ast.Name) and v.right.id == counter and isinstance(v.left, ast.Constant) and v.left.value == 1))
            if plus1:
                b = reaching(self.fn, self.pm, counter, at)
                if b is not None and not (is_inc(b.node, counter) and id(b.node) in in_loop):
                    continue              # counter not yet incremented in this iteration: counter + 1 is the next number
                bad.append(f"line {LN(c)}: `{ast.unparse(v)}` is evaluated after the increment of this iteration")
                continue
            bad.append(f"line {LN(c)}: {num_kw}={ast.unparse(v)[:60]}")
        self.add("numbering", label, not bad, "; ".join(bad))

    def starts_at_zero_once(self, counter, fn=None, label="counter-starts-at-zero-once-per-document", unit_loop_ok=None):
        """`counter = 0` exactly once in `fn`, outside every loop, and fn is the per-document function."""
        fn = fn or self.fn
        pm = parent_map(fn)
        inits = [n for n in ast.walk(fn) if isinstance(n, (ast.Assign, ast.AnnAssign)) and not is_inc(n, counter) and
                 any(isinstance(t, ast.Name) and t.id == counter for t in (n.targets if isinstance(n, ast.Assign) else [n.target]))]
        zero = [n for n in inits if isinstance(n.value, ast.Constant) and n.value.value == 0]
        if len(zero) != 1 or len(inits) != len(zero) + len([n for n in inits if n not in zero and self._threaded(n, counter)]):
            return self.add("numbering", label, False, f"{len(zero)} zero-initialisations, {len(inits)} assignments of {counter} in {fn.name}")
        if loops_around(pm, zero[0]):
            return self.add("numbering", label, False, f"{counter} = 0 sits inside a loop (line {LN(zero[0])})")
        return zero[0]

    def _threaded(self, n, counter):
        """`x, counter = f(..., counter)`: the counter is handed through a helper and taken back."""
        if isinstance(n, ast.Assign) and isinstance(n.value, ast.Call) and any(isinstance(a, ast.Name) and a.id == counter for a in n.value.args):
            return True
        return False

    def called_once_per_document(self, fname=None):
        """Call sites of the function inside loops of other module functions (per-unit calls)."""
        fname = fname or self.fname
        per_unit = []
        for q, f in self.mod.functions.items():
            if q == fname:
                continue
            pm = parent_map(f)
            for n in ast.walk(f):
                if isinstance(n, ast.Call) and isinstance(n.func, ast.Name) and n.func.id == fname and loops_around(pm, n):
                    per_unit.append((q, n.lineno))
        return per_unit


# ---------------------------------------------------------------------- dataflow helpers --
def payload_source(ck: Checker, call, payload_kw, wrap=None):
    """The Name X stored as payload (`payload_kw=X` or `payload_kw=io.BytesIO(X)`), or (None, why)."""
    v = kwv(call, payload_kw)
    if v is None:
        return None, f"no {payload_kw}= argument"
    if isinstance(v, ast.Call) and dotted(v.func) in ("io.BytesIO", "BytesIO") and len(v.args) == 1 and not v.keywords:
        v = v.args[0]
    if isinstance(v, ast.Name):
        return v, ""
    return None, f"{payload_kw}={ast.unparse(v)} is not the plain value read from the container"


def read_def(ck: Checker, name_node, at, reads):
    """The container read `X = <obj>.<read>(P)` reaching `at`, or (None, why)."""
    b = reaching(ck.fn, ck.pm, name_node.id, at)
    for _ in range(4):          # follow plain renamings `a = b`
        if b is not None and b.kind == "assign" and isinstance(b.value, ast.Name):
            b = reaching(ck.fn, ck.pm, b.value.id, b.node)
        else:
            break
    if b is None:
        return None, f"no unique reaching definition of {name_node.id}"
    if b.kind != "assign":
        return None, f"{name_node.id} is bound by {b.kind}"
    v = b.value
    if isinstance(v, ast.Call) and isinstance(v.func, ast.Attribute) and v.func.attr in reads and len(v.args) == 1:
        return v, ""
    return None, f"{name_node.id} = {ast.unparse(v)[:80]} is not a plain container read ({'/'.join(reads)})"


# ------------------------------------------------------- path enumeration with raise points --
TOTAL_CALLS = {"len", "str", "int", "bool", "sorted", "list", "set", "tuple", "dict", "min", "max", "abs", "isinstance", "enumerate",
               "rsplit", "split", "lower", "upper", "strip", "startswith", "endswith", "get", "append", "add", "setdefault", "join",
               "BytesIO", "items", "values", "keys", "debug", "info", "warning", "format", "replace", "rpartition", "partition",
               # pure string functions of os.path / posixpath (total on str)
               "basename", "dirname", "splitext"}


def may_raise(s, total=()):
    """A simple statement can raise only through a call that is not known to be total."""
    for n in ast.walk(s):
        if isinstance(n, ast.Call):
            f = n.func
            name = f.id if isinstance(f, ast.Name) else (f.attr if isinstance(f, ast.Attribute) else "")
            if name in TOTAL_CALLS or name in total:
                continue
            return True
    return False


def paths2(stmts, events, total=()):
    """Like c03_flow.iteration_paths, but a `try` body contributes every event prefix that ends at a statement which may
    raise (any call that is not known to be total), so `counter += 1; x = read(); append(...)` has the handler path (1, 0)."""
    from contracts.c03_flow import _vec, _add
    zero = tuple(0 for _ in events)

    def block(stmts):
        cur = {(zero, "fall")}
        for s in stmts:
            nxt = set()
            for (vec, status) in cur:
                if status != "fall":
                    nxt.add((vec, status))
                    continue
                for (v2, st2) in stmt(s):
                    nxt.add((_add(vec, v2), st2))
            cur = nxt
        return cur

    def header(s):
        if isinstance(s, (ast.If, ast.While)):
            return [s.test]
        if isinstance(s, ast.For):
            return [s.iter]
        if isinstance(s, ast.With):
            return [i.context_expr for i in s.items]
        return []

    def raise_prefixes(stmts):
        """event vectors accumulated at the moment an exception leaves the statement list"""
        out = set()
        cur = {zero}
        for s in stmts:
            if isinstance(s, (ast.If, ast.For, ast.While, ast.With)):
                own = _vec(s, events)
                if any(may_raise(ast.Expr(value=h), total) for h in header(s)):
                    out |= cur
                for b in ([s.body, s.orelse] if isinstance(s, ast.If) else [s.body]):
                    for p in raise_prefixes(b):
                        for c in cur:
                            out.add(_add(c, _add(own, p)))
            elif isinstance(s, ast.Try):
                pass            # a nested try handles its own exceptions (handlers at these sites do not re-raise)
            elif isinstance(s, ast.Raise):
                out |= cur
            elif may_raise(s, total):
                out |= cur
            nxt = set()
            for c in cur:
                for (v2, st2) in stmt(s):
                    if st2 == "fall":
                        nxt.add(_add(c, v2))
            cur = nxt
            if not cur:
                break
        return out

    def stmt(s):
        own = _vec(s, events)
        if isinstance(s, ast.If):
            res = set()
            for branch in (s.body, s.orelse):
                for (v, stt) in block(branch):
                    res.add((_add(own, v), stt))
            return res
        if isinstance(s, (ast.For, ast.While)):
            inner = block(s.body)
            anyev = tuple(MANY if any(v[i] for (v, _s) in inner) else 0 for i in range(len(events)))
            res = {(own, "fall")}
            if any(anyev):
                res.add((_add(own, anyev), "fall"))
            for (v, stt) in inner:
                if stt in ("return", "raise"):
                    res.add((_add(own, _add(anyev, v)), stt))
            return res
        if isinstance(s, ast.With):
            return {(_add(own, v), stt) for (v, stt) in block(s.body)}
        if isinstance(s, ast.Try):
            res = set(block(s.body + s.orelse))
            pre = raise_prefixes(s.body)
            for h in s.handlers:
                for (v, stt) in block(h.body):
                    for p in pre:
                        res.add((_add(p, v), stt))
            if s.finalbody:
                out = set()
                for (v, stt) in res:
                    for (v2, st2) in block(s.finalbody):
                        out.add((_add(v, v2), stt if st2 == "fall" else st2))
                res = out
            return res
        if isinstance(s, ast.Return):
            return {(own, "return")}
        if isinstance(s, ast.Raise):
            return {(own, "raise")}
        if isinstance(s, ast.Continue):
            return {(own, "continue")}
        if isinstance(s, ast.Break):
            return {(own, "break")}
        return {(own, "fall")}

    return block(stmts)


# ------------------------------------------------------------------ completeness: no package-wide shortcut --
CONTAINER_QUERIES = {"exists", "read_bytes", "get_image_data", "read_xml_root", "read_text", "open_stream", "get_slide_root", "get_slide_relationships",
                     "get_comment_root", "resolve_href", "get_object", "get", "get_data"}
NAME_TABLES = {"namelist", "_namelist"}


def container_names(fn):
    """Names that hold the package: receivers of member reads / existence tests, and names bound to their list of member names."""
    cs = set()
    for n in ast.walk(fn):
        if isinstance(n, ast.Call) and isinstance(n.func, ast.Attribute) and n.func.attr in ("exists", "read_bytes", "get_image_data", "read_xml_root", "open_stream") \
                and isinstance(n.func.value, ast.Name):
            cs.add(n.func.value.id)
    tabs = set()
    for n in ast.walk(fn):
        if isinstance(n, ast.Assign) and len(n.targets) == 1 and isinstance(n.targets[0], ast.Name) and isinstance(n.value, ast.Attribute) \
                and isinstance(n.value.value, ast.Name) and n.value.value.id in cs and n.value.attr in NAME_TABLES:
            tabs.add(n.targets[0].id)
    return cs, tabs


def package_wide_reasons(ck, expr, at, depth=0):
    """Why `expr` (a guard) depends on the package as a whole rather than on the picture / part at hand: [] when it does not.
    Allowed uses of the package: `c.exists(x)`, `x in c.namelist`, `c.read...(x)`, `c.get...(x)` -- queries about one named part."""
    cs, tabs = ck._containers
    why = []
    allowed_nodes = set()
    for n in ast.walk(expr):
        if isinstance(n, ast.Compare) and len(n.ops) == 1 and isinstance(n.ops[0], (ast.In, ast.NotIn)):
            c = n.comparators[0]
            if (isinstance(c, ast.Name) and c.id in tabs) or (isinstance(c, ast.Attribute) and c.attr in NAME_TABLES and isinstance(c.value, ast.Name) and c.value.id in cs):
                for x in ast.walk(c):
                    allowed_nodes.add(id(x))
        if isinstance(n, ast.Call) and isinstance(n.func, ast.Attribute) and isinstance(n.func.value, ast.Name) and n.func.value.id in cs \
                and n.func.attr in CONTAINER_QUERIES and (n.args or n.keywords) and not all(isinstance(a, ast.Constant) for a in n.args):
            allowed_nodes.add(id(n.func.value))
            allowed_nodes.add(id(n.func))
    # emptiness of the member list: an empty package has no part to read (sound shortcut)
    for n in ast.walk(expr):
        if isinstance(n, ast.UnaryOp) and isinstance(n.op, ast.Not) and isinstance(n.operand, ast.Name) and n.operand.id in tabs:
            allowed_nodes.add(id(n.operand))
        if isinstance(n, ast.Compare) and isinstance(n.left, ast.Call) and isinstance(n.left.func, ast.Name) and n.left.func.id == "len" and n.left.args \
                and isinstance(n.left.args[0], ast.Name) and n.left.args[0].id in tabs and len(n.comparators) == 1 \
                and isinstance(n.comparators[0], ast.Constant) and n.comparators[0].value == 0:
            allowed_nodes.add(id(n.left.args[0]))
    for n in ast.walk(expr):
        if isinstance(n, ast.Name) and id(n) not in allowed_nodes:
            if n.id in cs:
                why.append(f"`{ast.unparse(expr)[:70]}` asks the package object `{n.id}` something that is not about one named part")
            elif n.id in tabs:
                why.append(f"`{ast.unparse(expr)[:70]}` looks at the whole list of member names `{n.id}`")
            elif n.id == "self":
                why.append(f"`{ast.unparse(expr)[:70]}` depends on object state")
            elif depth < 3 and n.id in ck._locals and isinstance(n.ctx, ast.Load):
                # a local flag: follow it to its definitions
                for b in bindings_of(ck.fn, n.id):
                    if b.kind == "assign" and b.value is not None and pos(b.node) < pos(at) and not isinstance(b.value, ast.Constant):
                        if any(isinstance(x, ast.Name) and (x.id in cs or x.id in tabs) for x in ast.walk(b.value)):
                            why.extend(package_wide_reasons(ck, b.value, b.node, depth + 1))
    return why


def _leaves(stmt):
    """the statement can silently skip what follows: a return anywhere, a continue / break that is not caught by a loop of its own"""
    def rec(n, in_loop):
        if isinstance(n, ast.Return):      # (a `raise` refuses the document as a whole: nothing is returned, nothing is silently dropped)
            return True
        if isinstance(n, (ast.Continue, ast.Break)):
            return not in_loop
        if isinstance(n, (ast.FunctionDef, ast.Lambda, ast.ClassDef)):
            return False
        inner = in_loop or isinstance(n, (ast.For, ast.While))
        return any(rec(c, inner) for c in ast.iter_child_nodes(n))
    return rec(stmt, False)


def _scan_guards(ck, targets):
    why, seen = [], set()
    for tnode in targets:
        chain = [tnode] + ancestors(ck.pm, tnode)
        for child, a in zip(chain, chain[1:]):
            tests = []
            if isinstance(a, (ast.If, ast.While)) and id(a) not in seen:
                seen.add(id(a))
                tests.append((a.test, a))
            for fld in ("body", "orelse", "finalbody"):
                lst = getattr(a, fld, None)
                if isinstance(lst, list) and any(child is x for x in lst):
                    k = [i for i, x in enumerate(lst) if child is x][0]
                    for prev in lst[:k]:
                        if isinstance(prev, ast.If) and id(prev) not in seen and _leaves(prev):
                            seen.add(id(prev))
                            for x in ast.walk(prev):
                                if isinstance(x, ast.If):
                                    tests.append((x.test, x))
            for (t, at) in tests:
                why.extend(package_wide_reasons(ck, t, at))
    return why


def completeness(ck, label="every-placed-picture-is-considered"):
    """No guard on the way to an image depends on the package as a whole (a folder name, a count of members, a flag of the context):
    such a shortcut drops pictures of documents that are laid out differently.  Guards may ask the package about ONE named part.
    Checked in the function that builds the images and at the calls of that function in the same module."""
    from contracts.c14_flow import local_names
    ck._containers = container_names(ck.fn)
    ck._locals = local_names(ck.fn)
    if not ck._containers[0]:
        return ck.unknown("completeness", label, "no package object found in the function: shape not recognised")
    targets = [n for n in ast.walk(ck.fn) if isinstance(n, ast.Call) and (
        (isinstance(n.func, ast.Name) and n.func.id[:1].isupper() and n.func.id.endswith("Image")) or
        (isinstance(n.func, ast.Attribute) and n.func.attr in ("read_bytes", "get_image_data")))]
    if not targets:
        return ck.unknown("completeness", label, "no image construction / member read found: shape not recognised")
    why = _scan_guards(ck, targets)
    # callers in the same module (two levels): guards on the way to the call
    cparams = [k for k, a in enumerate(ck.raw_fn.args.args) if a.arg in ck._containers[0]] if ck.raw_fn is not None else []
    todo, done_ = [(ck.real, cparams)], set()
    for _level in range(2):
        nxt = []
        for (callee, cpos) in todo:
            for q, f in ck.mod.functions.items():
                if q == callee or (q, callee) in done_ or not isinstance(f, ast.FunctionDef):
                    continue
                calls = [n for n in ast.walk(f) if isinstance(n, ast.Call) and dotted(n.func).split(".")[-1] == callee.split(".")[-1]]
                if not calls:
                    continue
                done_.add((q, callee))
                sub = Checker("C14", ck.rel, q, ck.mod.repo, inline=False)
                cs, tabs = container_names(sub.fn)
                for c in calls:
                    for k in cpos:
                        if k < len(c.args) and isinstance(c.args[k], ast.Name):
                            cs.add(c.args[k].id)
                sub._containers = (cs, tabs)
                sub._locals = local_names(sub.fn)
                why.extend(f"in {q}: {w}" for w in _scan_guards(sub, calls))
                nxt.append((q, [k for k, a in enumerate(f.args.args) if a.arg in cs]))
        todo = nxt
    why = sorted(set(why))
    ck.add("completeness", label, not why, "; ".join(why)[:500], definite=False)
