"""C05 round 8: the four base64 helpers of serialization.py located BY ROLE (stdlib only: imported by contracts/C05.py and by
replay/C05.py, which runs without z3).

A private helper may be renamed; what identifies it is its place in the wire format:
  * encoder of a marker  = the function called for the value of a one-entry dict display `{<marker>: f(x)}`;
  * decoder of a marker  = the function called on the subscript `f(x[<marker>])`;
with <marker> a string literal or a module-level name bound to one (`_bytes`, `_bytesio`).  A role is reported only when exactly one
function of the module fills it at every site; otherwise the canonical name is kept if the module still defines it; otherwise the
role is absent (None) and the caller must do without the helper (never report the lookup failure as the library's failure).
"""
import ast

CANONICAL = {("enc", "_bytes"): "_bytes_to_base64", ("dec", "_bytes"): "_base64_to_bytes",
             ("enc", "_bytesio"): "_bytesio_to_base64", ("dec", "_bytesio"): "_base64_to_bytesio"}


def _const_strings(tree):
    """module-level NAME = "literal" (assigned once)."""
    seen, out = {}, {}
    for st in tree.body:
        tgt, val = None, None
        if isinstance(st, ast.Assign) and len(st.targets) == 1 and isinstance(st.targets[0], ast.Name):
            tgt, val = st.targets[0].id, st.value
        elif isinstance(st, ast.AnnAssign) and isinstance(st.target, ast.Name) and st.value is not None:
            tgt, val = st.target.id, st.value
        if tgt is None:
            continue
        seen[tgt] = seen.get(tgt, 0) + 1
        if isinstance(val, ast.Constant) and isinstance(val.value, str):
            out[tgt] = val.value
    return {k: v for k, v in out.items() if seen.get(k) == 1}


def _callee(call, aliases):
    f = call.func
    if isinstance(f, ast.Name):
        return aliases.get(f.id, f.id)
    return None


def b64_roles(source):
    """{canonical helper name: actual name or None} for the module text `source`."""
    try:
        tree = ast.parse(source)
    except SyntaxError:
        return {v: v for v in CANONICAL.values()}
    consts = _const_strings(tree)
    defined = {n.name for n in tree.body if isinstance(n, (ast.FunctionDef, ast.AsyncFunctionDef))}
    # module-level aliases `g = f` of a defined function
    aliases = {}
    for st in tree.body:
        if isinstance(st, ast.Assign) and len(st.targets) == 1 and isinstance(st.targets[0], ast.Name) \
                and isinstance(st.value, ast.Name) and st.value.id in defined:
            aliases[st.targets[0].id] = st.value.id

    def marker_of(e):
        if isinstance(e, ast.Constant) and isinstance(e.value, str):
            return e.value
        if isinstance(e, ast.Name):
            return consts.get(e.id)
        return None

    found = {k: set() for k in CANONICAL}
    for n in ast.walk(tree):
        if isinstance(n, ast.Dict) and len(n.keys) == 1 and n.keys[0] is not None and isinstance(n.values[0], ast.Call):
            m = marker_of(n.keys[0])
            if ("enc", m) in found and len(n.values[0].args) == 1 and not n.values[0].keywords:
                found[("enc", m)].add(_callee(n.values[0], aliases))
        if isinstance(n, ast.Call) and len(n.args) == 1 and not n.keywords and isinstance(n.args[0], ast.Subscript):
            sl = n.args[0].slice
            m = marker_of(sl)
            if ("dec", m) in found:
                found[("dec", m)].add(_callee(n, aliases))
    out = {}
    for key, canon in CANONICAL.items():
        names = {x for x in found[key]}
        if len(names) == 1 and None not in names and next(iter(names)) in defined:
            out[canon] = next(iter(names))
        elif canon in defined:
            out[canon] = canon
        else:
            out[canon] = None
    # two roles must not resolve to one function unless it is what the canonical names say
    vals = [v for v in out.values() if v is not None]
    if len(set(vals)) != len(vals):
        return {canon: (canon if canon in defined else None) for canon in CANONICAL.values()}
    return out
