"""C01 termination inside `re`: no regular expression of the package backtracks exponentially.

CPython's `re` is a backtracking matcher: on a failing suffix it enumerates every path of the pattern's automaton over the
consumed text.  The number of paths over a word is polynomial in its length iff the automaton has no EDA (exponential degree of
ambiguity, Weber & Seidl 1991): no state q with two DIFFERENT paths q -> q over the same word.  With EDA a few dozen bytes keep
the extractor inside one `re` call for hours -- a hang the loop-variant rules of pyvc/term.py cannot see.

Static obligation per file (`decreases#regex-backtracking-polynomial`): every pattern that reaches `re.compile / search /
match / fullmatch / sub / subn / split / findall / finditer` (literal, concatenation / f-string of literals, module constants,
loop variables over literal tables, parameters of local helpers bound at their call sites) is parsed with CPython's own parser
(`re._parser`), turned into its position (Glushkov) automaton WITH MULTIPLICITIES -- nested quantifiers such as `(a+)+`, `(a*)*`
yield two parallel follow edges, which a plain position automaton would merge -- and tested EXACTLY for EDA on the product
automaton (a strongly connected component that contains a diagonal pair and either an off-diagonal pair or a doubled edge).
Over-approximations (all add paths, so "no EDA" stays sound): anchors and look-around are epsilon (their bodies are analysed as
patterns of their own), atomic / possessive constructs backtrack like ordinary ones, a back-reference and an unresolvable
`re.escape(..)` argument match anything, counted repeats above 12 copies continue as a star.

EDA found -> `unknown` with a pumping witness (prefix, pump) as replay hint: replay/C01.py pumps the REAL compiled pattern, the
functions that use it and the extractors of the module in child processes with a hard timeout; only a reproduced hang is a
VIOLATION.  A pattern the resolver cannot read -> `unknown` as well (nothing to pump: UNDECIDED).
Not decided: polynomial backtracking of high degree (`.*.*.*x`)."""
import ast
import re

_P = re._parser
_C = re._constants

RE_FUNCS = {"compile", "search", "match", "fullmatch", "sub", "subn", "split", "findall", "finditer"}
MAXCOPIES = 12
MAXPOS = 900


class Unreadable(Exception):
    pass


# --------------------------------------------------------------------------- character universe --
_REPR = [0x0370, 0x0400, 0x0416, 0x05D0, 0x0660, 0x0966, 0x1680, 0x2000, 0x200B, 0x2028, 0x2029, 0x202F, 0x3000, 0x3042, 0x4E00,
         0xAC00, 0xD7FF, 0xE000, 0xFB01, 0xFEFF, 0xFF10, 0xFF21, 0xFFFD, 0x10000, 0x1D7CE, 0x1F600, 0x10FFFF]


def _mentioned(sub, acc):
    for op, av in sub:
        if op in (_C.LITERAL, _C.NOT_LITERAL):
            acc.update((av - 1, av, av + 1))
        elif op is _C.IN:
            for o2, a2 in av:
                if o2 is _C.LITERAL:
                    acc.update((a2 - 1, a2, a2 + 1))
                elif o2 is _C.RANGE:
                    acc.update((a2[0] - 1, a2[0], a2[1], a2[1] + 1))
        elif op is _C.BRANCH:
            for s in av[1]:
                _mentioned(s, acc)
        elif op in (_C.MAX_REPEAT, _C.MIN_REPEAT) or op is getattr(_C, "POSSESSIVE_REPEAT", None):
            _mentioned(av[2], acc)
        elif op is _C.SUBPATTERN:
            _mentioned(av[3], acc)
        elif op in (_C.ASSERT, _C.ASSERT_NOT):
            _mentioned(av[1], acc)
        elif op is getattr(_C, "ATOMIC_GROUP", None):
            _mentioned(av, acc)
        elif op is _C.GROUPREF_EXISTS:
            _mentioned(av[1], acc)
            if av[2] is not None:
                _mentioned(av[2], acc)


class Universe:
    def __init__(self, tree, is_bytes, ascii_only):
        if is_bytes:
            pts = list(range(256))
        else:
            acc = set(range(0x300)) | set(_REPR)
            _mentioned(tree, acc)
            extra = set()
            for c in acc:
                if 0 <= c <= 0x10FFFF:
                    for v in _case_variants(c):
                        extra.add(v)
            pts = sorted(c for c in acc | extra if 0 <= c <= 0x10FFFF and not 0xD800 <= c <= 0xDFFF)
        self.pts = pts
        self.idx = {c: i for i, c in enumerate(pts)}
        self.all = (1 << len(pts)) - 1
        self.is_bytes = is_bytes
        self._cat = {}
        self.ascii_only = ascii_only or is_bytes

    def mask(self, cps):
        m = 0
        for c in cps:
            i = self.idx.get(c)
            if i is not None:
                m |= 1 << i
        return m

    def rng(self, lo, hi):
        m = 0
        for c in self.pts:
            if lo <= c <= hi:
                m |= 1 << self.idx[c]
        return m

    def category(self, cat):
        if cat in self._cat:
            return self._cat[cat]
        src = {_C.CATEGORY_DIGIT: r"\d", _C.CATEGORY_NOT_DIGIT: r"\D", _C.CATEGORY_SPACE: r"\s", _C.CATEGORY_NOT_SPACE: r"\S",
               _C.CATEGORY_WORD: r"\w", _C.CATEGORY_NOT_WORD: r"\W"}.get(cat)
        if src is None:
            m = self.all            # unknown category: anything (over-approximation)
        elif self.is_bytes:
            rx = re.compile(src.encode())
            m = self.mask(c for c in self.pts if rx.fullmatch(bytes([c])))
        else:
            rx = re.compile(src, re.ASCII if self.ascii_only else 0)
            m = self.mask(c for c in self.pts if rx.fullmatch(chr(c)))
        self._cat[cat] = m
        return m

    def pick(self, m):
        """a representative character of a non-empty mask, preferring letters / digits / printable ASCII"""
        best = None
        for c in self.pts:
            if m >> self.idx[c] & 1:
                score = 0 if (48 <= c <= 57 or 65 <= c <= 90 or 97 <= c <= 122) else 1 if 33 <= c <= 126 else 2 if c == 32 else 3
                if best is None or score < best[0]:
                    best = (score, c)
                    if score == 0:
                        break
        return best[1]


def _case_variants(c):
    ch = chr(c)
    out = {c}
    for v in (ch.lower(), ch.upper(), ch.swapcase()):
        if len(v) == 1:
            out.add(ord(v))
    return out


# ------------------------------------------------------------------------ position automaton --
class Automaton:
    """positions 1..n (0 = start); label[p] = bit mask over the universe; follow[p] = {q: multiplicity (1 or 2)}"""

    def __init__(self, uni, flags):
        self.uni = uni
        self.label = [0]
        self.follow = [{}]
        self.flags = flags
        self.side = []          # look-around bodies (analysed separately)

    def new_pos(self, mask):
        if len(self.label) > MAXPOS:
            raise Unreadable(f"more than {MAXPOS} positions")
        self.label.append(mask)
        self.follow.append({})
        return len(self.label) - 1

    def link(self, last, first):
        for p, a in last.items():
            fp = self.follow[p]
            for q, b in first.items():
                fp[q] = min(2, fp.get(q, 0) + a * b)

    # each builder returns (nullable multiplicity, first {pos: mult}, last {pos: mult})
    def seq(self, sub, flags):
        res = (1, {}, {})
        for op, av in sub:
            res = self.concat(res, self.item(op, av, flags))
        return res

    def concat(self, a, b):
        n1, f1, l1 = a
        n2, f2, l2 = b
        self.link(l1, f2)
        first = dict(f1)
        if n1:
            for q, m in f2.items():
                first[q] = min(2, first.get(q, 0) + n1 * m)
        last = dict(l2)
        if n2:
            for p, m in l1.items():
                last[p] = min(2, last.get(p, 0) + n2 * m)
        return (min(2, n1 * n2), first, last)

    def alt(self, parts):
        n, f, l = 0, {}, {}
        for (n1, f1, l1) in parts:
            n = min(2, n + n1)
            for q, m in f1.items():
                f[q] = min(2, f.get(q, 0) + m)
            for q, m in l1.items():
                l[q] = min(2, l.get(q, 0) + m)
        return (n, f, l)

    def charset(self, op, av, flags):
        u = self.uni
        ic = bool(flags & re.IGNORECASE)

        def fold(m):
            if not ic or not m:
                return m
            extra = set()
            for c in u.pts:
                if m >> u.idx[c] & 1:
                    extra |= _case_variants(c)
            return m | u.mask(extra)
        if op is _C.LITERAL:
            return fold(u.mask([av]))
        if op is _C.NOT_LITERAL:
            return u.all & ~fold(u.mask([av]))
        if op is _C.ANY:
            return u.all if flags & re.DOTALL else u.all & ~u.mask([10])
        if op is _C.IN:
            neg = False
            m = 0
            for o2, a2 in av:
                if o2 is _C.NEGATE:
                    neg = True
                elif o2 is _C.LITERAL:
                    m |= u.mask([a2])
                elif o2 is _C.RANGE:
                    m |= u.rng(a2[0], a2[1])
                elif o2 is _C.CATEGORY:
                    m |= u.category(a2)
                else:
                    m = u.all
            m = fold(m)
            return (u.all & ~m) if neg else m
        raise Unreadable(f"character item {op}")

    def star_of(self, body):
        n, f, l = body
        self.link(l, f)
        return (1, f, l)

    def plus_of(self, body):
        n, f, l = body
        self.link(l, f)
        return (n, f, l)

    def opt_of(self, body):
        n, f, l = body
        return (min(2, n + 1) if n == 0 else n, f, l)      # an empty alternative that the body can already produce is the same path

    def item(self, op, av, flags):
        if op in (_C.LITERAL, _C.NOT_LITERAL, _C.ANY, _C.IN):
            p = self.new_pos(self.charset(op, av, flags))
            return (0, {p: 1}, {p: 1})
        if op is _C.CATEGORY:
            p = self.new_pos(self.uni.category(av))
            return (0, {p: 1}, {p: 1})
        if op is _C.AT:
            return (1, {}, {})
        if op is _C.BRANCH:
            return self.alt([self.seq(s, flags) for s in av[1]])
        if op is _C.SUBPATTERN:
            _g, add, dele, body = av
            return self.seq(body, (flags | add) & ~dele)
        if op is getattr(_C, "ATOMIC_GROUP", None):
            return self.seq(av, flags)
        if op in (_C.ASSERT, _C.ASSERT_NOT):
            self.side.append((av[1], flags))
            return (1, {}, {})
        if op is _C.GROUPREF:
            p = self.new_pos(self.uni.all)
            return self.star_of((0, {p: 1}, {p: 1}))
        if op is _C.GROUPREF_EXISTS:
            yes = self.seq(av[1], flags)
            no = self.seq(av[2], flags) if av[2] is not None else (1, {}, {})
            return self.alt([yes, no])
        if op in (_C.MAX_REPEAT, _C.MIN_REPEAT) or op is getattr(_C, "POSSESSIVE_REPEAT", None):
            lo, hi, body = av
            unbounded = hi is _C.MAXREPEAT or hi >= _C.MAXREPEAT
            copies = min(lo, MAXCOPIES)
            tail_star = unbounded or hi > copies + 4 or lo > MAXCOPIES
            res = (1, {}, {})
            n_fixed = copies - 1 if (tail_star and copies >= 1) else copies
            for _ in range(n_fixed):
                res = self.concat(res, self.seq(body, flags))
            if tail_star:
                if copies >= 1:
                    res = self.concat(res, self.plus_of(self.seq(body, flags)))
                else:
                    res = self.concat(res, self.star_of(self.seq(body, flags)))
            else:
                # e{lo,hi} = e^lo (e (e ...)?)?
                def opt_chain(k):
                    if k == 0:
                        return (1, {}, {})
                    inner = self.seq(body, flags)
                    rest = opt_chain(k - 1)
                    return self.opt_of(self.concat(inner, rest))
                res = self.concat(res, opt_chain(hi - copies))
            return res
        raise Unreadable(f"regex construct {op}")


def _eda(aut, max_witnesses=6):
    """-> [] | [(q, cycle word as tuple of masks)]: exact EDA test on the product of the position automaton with itself"""
    label, follow = aut.label, aut.follow
    n = len(label)
    succ_cache = {}

    def succ(pair):
        r = succ_cache.get(pair)
        if r is None:
            a, b = pair
            r = []
            fb = follow[b]
            for q1 in follow[a]:
                l1 = label[q1]
                for q2 in fb:
                    if q1 <= q2 or a != b:          # from a diagonal pair (x, y) and (y, x) are mirror images
                        if l1 & label[q2]:
                            r.append((q1, q2) if q1 <= q2 else (q2, q1))
            succ_cache[pair] = r
        return r

    def doubled(a, q):
        return follow[a].get(q, 0) >= 2

    # Tarjan (iterative) over the pairs reachable from the diagonal
    index, low, onstack, stack, comp = {}, {}, set(), [], {}
    counter = [0]
    ncomp = [0]
    for root in range(1, n):
        start = (root, root)
        if start in index:
            continue
        work = [(start, iter(succ(start)))]
        index[start] = low[start] = counter[0]
        counter[0] += 1
        stack.append(start)
        onstack.add(start)
        while work:
            v, it = work[-1]
            advanced = False
            for w in it:
                if w not in index:
                    index[w] = low[w] = counter[0]
                    counter[0] += 1
                    stack.append(w)
                    onstack.add(w)
                    work.append((w, iter(succ(w))))
                    advanced = True
                    break
                if w in onstack:
                    low[v] = min(low[v], index[w])
            if advanced:
                continue
            work.pop()
            if work:
                u = work[-1][0]
                low[u] = min(low[u], low[v])
            if low[v] == index[v]:
                while True:
                    w = stack.pop()
                    onstack.discard(w)
                    comp[w] = ncomp[0]
                    if w == v:
                        break
                ncomp[0] += 1
        if len(index) > 400000:
            raise Unreadable("product automaton too large")
    members = {}
    for v, c in comp.items():
        members.setdefault(c, []).append(v)
    found = []
    for c, vs in sorted(members.items()):
        diag = [v for v in vs if v[0] == v[1]]
        if not diag:
            continue
        vset = set(vs)
        cyclic = len(vs) > 1 or any(v in succ(v) for v in vs)
        if not cyclic:
            continue
        off = [v for v in vs if v[0] != v[1]]
        dbl = [(v, w) for v in diag for w in succ(v) if w in vset and w[0] == w[1] and doubled(v[0], w[0])]
        if not off and not dbl:
            continue
        choices = [(diag[0], off[i]) for i in sorted({0, len(off) // 2, len(off) - 1})] if off else []
        choices += [(v, w) for (v, w) in dbl[:2]]
        for (q, via) in choices:
            w_ = _witness(q, via, via[0] != via[1], vset, succ, label)
            if w_ is not None and w_ not in found:
                found.append(w_)
            if len(found) >= max_witnesses:
                return found
    return found


def _witness(q, via, is_off, vset, succ, label):
    if True:

        def path(src, dst):
            if src == dst:
                return []
            prev = {src: None}
            todo = [src]
            while todo:
                nxt = []
                for v in todo:
                    for w in succ(v):
                        if w in vset and w not in prev:
                            prev[w] = v
                            if w == dst:
                                out = []
                                while w != src:
                                    out.append(w)
                                    w = prev[w]
                                return out[::-1]
                            nxt.append(w)
                todo = nxt
            return None
        p1 = path(q, via)
        p2 = path(via, q)
        if is_off:
            if p1 is None or p2 is None:
                return None
            cyc = p1 + p2
        else:
            if p2 is None:
                return None
            cyc = [via] + p2
        word = tuple(label[a] & label[b] for (a, b) in cyc)
        if not word:
            return None
        return q[0], word


def _prefix(aut, q):
    prev = {0: None}
    todo = [0]
    while todo and q not in prev:
        nxt = []
        for v in todo:
            for w in aut.follow[v]:
                if w not in prev and aut.label[w]:
                    prev[w] = v
                    nxt.append(w)
        todo = nxt
    if q not in prev:
        return None
    out = []
    w = q
    while w != 0:
        out.append(aut.label[w])
        w = prev[w]
    return out[::-1]


def analyse(pattern, flags=0):
    """-> {"eda": False} | {"eda": True, "prefix": str|bytes, "pump": str|bytes, "where": note}; raises Unreadable"""
    is_bytes = isinstance(pattern, (bytes, bytearray))
    try:
        tree = _P.parse(pattern, flags)
    except Exception as e:  # noqa
        raise Unreadable(f"re cannot parse it: {e}")
    fl = tree.state.flags if hasattr(tree, "state") else flags
    todo = [(tree, fl)]
    seen = 0
    while todo:
        sub, f = todo.pop()
        seen += 1
        if seen > 40:
            raise Unreadable("too many look-around bodies")
        uni = Universe(sub, is_bytes, bool(f & re.ASCII))
        aut = Automaton(uni, f)
        whole = aut.seq(sub, f)
        aut.follow[0] = dict(whole[1])
        todo.extend(aut.side)
        hits = _eda(aut)
        if hits:
            conv = (lambda ms: bytes(uni.pick(m) for m in ms)) if is_bytes else (lambda ms: "".join(chr(uni.pick(m)) for m in ms))
            ws = []
            for (q, word) in hits:
                pre = _prefix(aut, q) or []
                w = (conv(pre), conv(word))
                if w not in ws:
                    ws.append(w)
            return {"eda": True, "prefix": ws[0][0], "pump": ws[0][1], "witnesses": ws, "positions": len(aut.label) - 1}
    return {"eda": False}


# ------------------------------------------------------------------------- pattern sites --
def _flags_value(node):
    """int value of a flags expression (re.I | re.M ...) or None"""
    if node is None:
        return 0
    if isinstance(node, ast.Constant) and isinstance(node.value, int):
        return node.value
    if isinstance(node, ast.Attribute) and isinstance(node.value, ast.Name):
        v = getattr(re, node.attr, None)
        return int(v) if isinstance(v, (int, re.RegexFlag)) else None
    if isinstance(node, ast.Name):
        v = getattr(re, node.id, None)
        return int(v) if isinstance(v, re.RegexFlag) else None
    if isinstance(node, ast.BinOp) and isinstance(node.op, ast.BitOr):
        a, b = _flags_value(node.left), _flags_value(node.right)
        return None if a is None or b is None else a | b
    return None


ANYTHING = "\ue000ANY\ue000"     # placeholder for an unresolvable re.escape(...) argument: replaced by (?s:.)* before analysis


class Resolver:
    """constant values a pattern expression can take (dataflow over literals, module constants, loop variables over literal
    tables, parameters bound at the call sites of local helpers)"""

    def __init__(self, tree):
        self.tree = tree
        self.parents = {}
        for n in ast.walk(tree):
            for ch in ast.iter_child_nodes(n):
                self.parents[ch] = n
        self.module_assigns = {}
        for s in tree.body:
            if isinstance(s, ast.Assign) and len(s.targets) == 1 and isinstance(s.targets[0], ast.Name):
                self.module_assigns.setdefault(s.targets[0].id, []).append(s.value)
            elif isinstance(s, ast.AnnAssign) and isinstance(s.target, ast.Name) and s.value is not None:
                self.module_assigns.setdefault(s.target.id, []).append(s.value)
        self.re_names = set()
        self.re_funcs = {}
        for n in ast.walk(tree):
            if isinstance(n, ast.Import):
                for a in n.names:
                    if a.name == "re":
                        self.re_names.add(a.asname or "re")
            elif isinstance(n, ast.ImportFrom) and n.module == "re":
                for a in n.names:
                    self.re_funcs[a.asname or a.name] = a.name

    def re_call(self, n):
        """name of the `re` function a Call node invokes (`re.search`, `from re import search`), else None"""
        f = n.func
        if isinstance(f, ast.Attribute) and isinstance(f.value, ast.Name) and f.value.id in self.re_names:
            return f.attr
        if isinstance(f, ast.Name) and f.id in self.re_funcs:
            return self.re_funcs[f.id]
        return None

    def scope_of(self, node):
        n = self.parents.get(node)
        while n is not None and not isinstance(n, (ast.FunctionDef, ast.AsyncFunctionDef, ast.Lambda, ast.Module)):
            n = self.parents.get(n)
        return n

    def values(self, e, depth=0):
        """list of str/bytes values, or None when not resolvable"""
        if depth > 6:
            return None
        if isinstance(e, ast.Constant) and isinstance(e.value, (str, bytes)):
            return [e.value]
        if isinstance(e, ast.BinOp) and isinstance(e.op, ast.Add):
            a, b = self.values(e.left, depth + 1), self.values(e.right, depth + 1)
            if a is None or b is None or len(a) * len(b) > 400:
                return None
            try:
                return [x + y for x in a for y in b]
            except TypeError:
                return None
        if isinstance(e, ast.JoinedStr):
            acc = [""]
            for part in e.values:
                if isinstance(part, ast.Constant):
                    vs = [part.value]
                elif isinstance(part, ast.FormattedValue) and part.format_spec is None and part.conversion == -1:
                    vs = self.values(part.value, depth + 1)
                else:
                    vs = None
                if vs is None or len(acc) * len(vs) > 400 or any(not isinstance(v, str) for v in vs):
                    return None
                acc = [x + y for x in acc for y in vs]
            return acc
        if isinstance(e, ast.Call) and self.re_call(e) == "escape" and len(e.args) == 1:
            vs = self.values(e.args[0], depth + 1)
            if vs is None:
                return [ANYTHING]
            return [re.escape(v) for v in vs]
        if isinstance(e, ast.Call) and isinstance(e.func, ast.Attribute) and e.func.attr == "join" and len(e.args) == 1:
            sep = self.values(e.func.value, depth + 1)
            items = self.elements(e.args[0], depth + 1)
            if sep is not None and len(sep) == 1 and items is not None and all(len(v) == 1 for v in items):
                try:
                    return [sep[0].join(v[0] for v in items)]
                except TypeError:
                    return None
            return None
        if isinstance(e, ast.Name):
            return self.name_values(e, depth)
        if isinstance(e, ast.IfExp):
            a, b = self.values(e.body, depth + 1), self.values(e.orelse, depth + 1)
            return None if a is None or b is None else a + b
        return None

    def elements(self, e, depth):
        """values of the elements of a literal sequence / generator of resolvable items: list of value lists"""
        if isinstance(e, (ast.List, ast.Tuple, ast.Set)):
            out = []
            for x in e.elts:
                v = self.values(x, depth + 1)
                if v is None:
                    return None
                out.append(v)
            return out
        if isinstance(e, ast.Name) and e.id in self.module_assigns and len(self.module_assigns[e.id]) == 1:
            return self.elements(self.module_assigns[e.id][0], depth + 1)
        if isinstance(e, (ast.GeneratorExp, ast.ListComp)) and len(e.generators) == 1 and not e.generators[0].ifs:
            g = e.generators[0]
            if isinstance(e.elt, ast.Call) and self.re_call(e.elt) == "escape" and len(e.elt.args) == 1 and isinstance(e.elt.args[0], ast.Name) \
                    and isinstance(g.target, ast.Name) and g.target.id == e.elt.args[0].id:
                items = self.iter_items(g.iter, depth + 1)
                if items is None:
                    return [[ANYTHING]]
                out = []
                for it in items:
                    v = self.values(it, depth + 1)
                    out.append([re.escape(x) for x in v] if v is not None else [ANYTHING])
                return out
        return None

    def iter_items(self, it, depth):
        """element AST nodes of a literal iterable (list / tuple / set / dict keys, module constant, .items()/.keys())"""
        if isinstance(it, (ast.List, ast.Tuple, ast.Set)):
            return list(it.elts)
        if isinstance(it, ast.Dict):
            return [k for k in it.keys if k is not None]
        if isinstance(it, ast.Name) and it.id in self.module_assigns and len(self.module_assigns[it.id]) == 1 and depth < 6:
            return self.iter_items(self.module_assigns[it.id][0], depth + 1)
        if isinstance(it, ast.Call) and isinstance(it.func, ast.Attribute) and not it.args:
            base = it.func.value
            d = None
            if isinstance(base, ast.Dict):
                d = base
            elif isinstance(base, ast.Name) and base.id in self.module_assigns and len(self.module_assigns[base.id]) == 1 \
                    and isinstance(self.module_assigns[base.id][0], ast.Dict):
                d = self.module_assigns[base.id][0]
            if d is not None:
                if it.func.attr == "keys":
                    return [k for k in d.keys if k is not None]
                if it.func.attr == "values":
                    return list(d.values)
                if it.func.attr == "items":
                    return [ast.Tuple(elts=[k, v], ctx=ast.Load()) for k, v in zip(d.keys, d.values) if k is not None]
        if isinstance(it, ast.Call) and isinstance(it.func, ast.Name) and it.func.id in ("list", "tuple", "sorted", "set", "reversed") and len(it.args) == 1:
            return self.iter_items(it.args[0], depth + 1)
        if isinstance(it, ast.Call) and isinstance(it.func, ast.Name) and it.func.id == "enumerate" and it.args:
            inner = self.iter_items(it.args[0], depth + 1)
            return None if inner is None else [ast.Tuple(elts=[ast.Constant(value=0), x], ctx=ast.Load()) for x in inner]
        return None

    def _target_component(self, target, name):
        """index path of `name` inside an unpacking target, or None"""
        if isinstance(target, ast.Name):
            return [] if target.id == name else None
        if isinstance(target, (ast.Tuple, ast.List)):
            for i, t in enumerate(target.elts):
                p = self._target_component(t, name)
                if p is not None:
                    return [i] + p
        return None

    def _component(self, item, path):
        for i in path:
            if isinstance(item, (ast.Tuple, ast.List)) and i < len(item.elts):
                item = item.elts[i]
            else:
                return None
        return item

    def name_values(self, e, depth):
        name = e.id
        scope = self.scope_of(e)
        # enclosing comprehensions bind first
        n = self.parents.get(e)
        while n is not None and n is not scope:
            if isinstance(n, (ast.ListComp, ast.SetComp, ast.GeneratorExp, ast.DictComp)):
                for g in n.generators:
                    path = self._target_component(g.target, name)
                    if path is not None:
                        return self._from_iter(g.iter, path, depth)
            n = self.parents.get(n)
        if isinstance(scope, (ast.FunctionDef, ast.AsyncFunctionDef, ast.Lambda)):
            binds = []
            for x in ast.walk(scope):
                if x is not scope and isinstance(x, (ast.FunctionDef, ast.AsyncFunctionDef, ast.Lambda)) and not self._inside(e, x):
                    continue
                if isinstance(x, ast.Assign):
                    for t in x.targets:
                        path = self._target_component(t, name)
                        if path is not None:
                            binds.append(("assign", x.value, path))
                elif isinstance(x, (ast.AnnAssign,)) and isinstance(x.target, ast.Name) and x.target.id == name and x.value is not None:
                    binds.append(("assign", x.value, []))
                elif isinstance(x, ast.AugAssign) and isinstance(x.target, ast.Name) and x.target.id == name:
                    return None
                elif isinstance(x, (ast.For, ast.AsyncFor)):
                    path = self._target_component(x.target, name)
                    if path is not None:
                        binds.append(("for", x.iter, path))
                elif isinstance(x, ast.NamedExpr) and x.target.id == name:
                    binds.append(("assign", x.value, []))
                elif isinstance(x, (ast.With, ast.AsyncWith)):
                    for it in x.items:
                        if it.optional_vars is not None and self._target_component(it.optional_vars, name) is not None:
                            return None
            args = scope.args
            params = [a.arg for a in args.posonlyargs + args.args + args.kwonlyargs]
            if name in params:
                if binds:
                    return None
                return self.param_values(scope, name, depth)
            if binds:
                out = []
                for kind, val, path in binds:
                    if kind == "for":
                        vs = self._from_iter(val, path, depth)
                    else:
                        item = self._component(val, path) if path else val
                        vs = self.values(item, depth + 1) if item is not None else None
                    if vs is None:
                        return None
                    out += vs
                return out
            # free variable: enclosing function scope, then module
            outer = self.scope_of(scope)
            if isinstance(outer, (ast.FunctionDef, ast.AsyncFunctionDef)):
                fake = ast.Name(id=name, ctx=ast.Load())
                self.parents[fake] = outer
                return self.name_values(fake, depth + 1)
        vals = self.module_assigns.get(name)
        if vals and len(vals) == 1:
            return self.values(vals[0], depth + 1)
        return None

    def _inside(self, node, anc):
        n = node
        while n is not None:
            if n is anc:
                return True
            n = self.parents.get(n)
        return False

    def _from_iter(self, it, path, depth):
        items = self.iter_items(it, depth + 1)
        if items is None:
            return None
        out = []
        for item in items:
            comp = self._component(item, path)
            if comp is None:
                return None
            vs = self.values(comp, depth + 1)
            if vs is None:
                return None
            out += vs
        return out

    def param_values(self, fn, name, depth):
        if isinstance(fn, ast.Lambda) or depth > 4:
            return None
        args = fn.args
        pos = [a.arg for a in args.posonlyargs + args.args]
        is_method = isinstance(self.parents.get(fn), ast.ClassDef) and pos and pos[0] in ("self", "cls")
        default = None
        defaults = dict(zip(pos[len(pos) - len(args.defaults):], args.defaults))
        for a, d in zip(args.kwonlyargs, args.kw_defaults):
            if d is not None:
                defaults[a.arg] = d
        out = []
        if name in defaults:
            default = self.values(defaults[name], depth + 1)
            if default is None:
                return None
            out += default
        sites = 0
        for c in ast.walk(self.tree):
            if not isinstance(c, ast.Call):
                continue
            f = c.func
            called = (isinstance(f, ast.Name) and f.id == fn.name) or \
                     (isinstance(f, ast.Attribute) and f.attr == fn.name and isinstance(f.value, ast.Name) and f.value.id in ("self", "cls"))
            if not called:
                continue
            sites += 1
            arg = None
            idx = pos.index(name) - (1 if is_method and isinstance(f, ast.Attribute) else 0) if name in pos else None
            if any(isinstance(a, ast.Starred) for a in c.args) or any(k.arg is None for k in c.keywords):
                return None
            if idx is not None and 0 <= idx < len(c.args):
                arg = c.args[idx]
            for k in c.keywords:
                if k.arg == name:
                    arg = k.value
            if arg is None:
                if name in defaults:
                    continue
                return None
            vs = self.values(arg, depth + 1)
            if vs is None:
                return None
            out += vs
        # the helper may also be handed around as a value (callback): then its arguments are unknown
        for n in ast.walk(self.tree):
            if isinstance(n, ast.Name) and n.id == fn.name and isinstance(n.ctx, ast.Load):
                par = self.parents.get(n)
                if not (isinstance(par, ast.Call) and par.func is n):
                    return None
        if sites == 0 and name not in defaults:
            return None
        if not fn.name.startswith("_") and not isinstance(self.scope_of(fn), (ast.FunctionDef, ast.AsyncFunctionDef)):
            return None     # a public function: callers outside the module are unknown
        return out


MODES = {"search": "search", "finditer": "search", "findall": "search", "sub": "search", "subn": "search", "split": "search",
         "match": "match", "fullmatch": "fullmatch"}


def sites(tree):
    """[{line, fn, values | None, flags | None, scope, text, name, modes}] for every call of an `re` function with a pattern"""
    rs = Resolver(tree)
    uses = {}
    for n in ast.walk(tree):
        if isinstance(n, ast.Call) and isinstance(n.func, ast.Attribute) and n.func.attr in MODES:
            v = n.func.value
            key = v.id if isinstance(v, ast.Name) else v.attr if isinstance(v, ast.Attribute) else None
            if key:
                uses.setdefault(key, set()).add(MODES[n.func.attr])
    out = []
    for n in ast.walk(tree):
        if not isinstance(n, ast.Call):
            continue
        fn = rs.re_call(n)
        if fn not in RE_FUNCS:
            continue
        pat = n.args[0] if n.args else next((k.value for k in n.keywords if k.arg == "pattern"), None)
        if pat is None:
            continue
        fpos = {"compile": 1, "search": 2, "match": 2, "fullmatch": 2, "split": 3, "findall": 2, "finditer": 2, "sub": 4, "subn": 4}[fn]
        fnode = n.args[fpos] if len(n.args) > fpos else next((k.value for k in n.keywords if k.arg == "flags"), None)
        flags = _flags_value(fnode)
        vals = rs.values(pat)
        sc = rs.scope_of(n)
        name = None
        par = rs.parents.get(n)
        if isinstance(par, ast.Assign) and len(par.targets) == 1:
            t = par.targets[0]
            name = t.id if isinstance(t, ast.Name) else t.attr if isinstance(t, ast.Attribute) else None
        elif isinstance(par, ast.AnnAssign):
            t = par.target
            name = t.id if isinstance(t, ast.Name) else t.attr if isinstance(t, ast.Attribute) else None
        if fn == "compile":
            modes = sorted(uses.get(name, ())) if name else []
            if not modes:
                modes = ["search"]
        else:
            modes = [MODES[fn]]
        out.append({"line": n.lineno, "fn": fn, "values": vals, "flags": flags, "scope": getattr(sc, "name", "<module>"),
                    "text": ast.unparse(pat)[:100], "name": name if isinstance(sc, ast.Module) else None, "modes": modes})
    return out


def _materialise(v):
    if isinstance(v, str):
        return v.replace(ANYTHING, "(?s:.)*")
    return v


def check_module(tree):
    """-> (number of sites, number of distinct patterns, problems [{line, pattern, flags, witnesses...}], unreadable [str])"""
    problems, unreadable = [], []
    ss = sites(tree)
    cache = {}
    for site in ss:
        line, fn, vals, flags, text = site["line"], site["fn"], site["values"], site["flags"], site["text"]
        if vals is None:
            unreadable.append(f"line {line}: re.{fn}({text}) -- pattern not resolvable to constants")
            continue
        if flags is None:
            unreadable.append(f"line {line}: re.{fn}({text}) -- flags not resolvable")
            continue
        for v in vals:
            v = _materialise(v)
            key = (v, flags)
            if key not in cache:
                try:
                    cache[key] = analyse(v, flags)
                except Unreadable as e:
                    cache[key] = {"eda": None, "why": str(e)}
                cache[key]["first"] = True
            r = cache[key]
            if r["eda"] is None:
                unreadable.append(f"line {line}: {v!r:.80} -- {r['why']}")
            elif r["eda"]:
                is_b = isinstance(v, bytes)
                enc = (lambda x: x.decode("latin-1")) if is_b else (lambda x: x)
                prev = next((p_ for p_ in problems if p_["pattern"] == enc(v) and p_["flags"] == flags and p_["bytes"] == is_b), None)
                if prev is not None:
                    prev["modes"] = sorted(set(prev["modes"]) | set(site["modes"]))
                    prev["lines"].append(line)
                    continue
                problems.append({"line": line, "lines": [line], "function": site["scope"], "re_function": fn, "name": site["name"], "modes": list(site["modes"]),
                                 "pattern": enc(v), "bytes": is_b, "flags": flags,
                                 "witnesses": [[enc(a), enc(b)] for (a, b) in r["witnesses"]]})
    return len(ss), len(cache), problems, unreadable


# --------------------------------------------------------------------- bounded pumping experiment --
SUFFIXES = ["", "\x00", "\n", "!", "~", "}", " ", "\xe9", "0", "a", "\t", ";", "\r\n"]
PUMP_KS = (4, 8, 12, 14, 16, 18, 20, 22, 24, 27, 30, 35, 40, 50, 60, 80, 100)
_CHILD = r"""
import json, re, sys, time
req = json.load(sys.stdin)
pat = req["pattern"].encode("latin-1") if req["bytes"] else req["pattern"]
rx = re.compile(pat, req["flags"])
def run(mode, text):
    if mode == "search":
        for _ in rx.finditer(text):
            pass
    elif mode == "match":
        rx.match(text)
    else:
        rx.fullmatch(text)
def timed(mode, pre, pump, k, suf):
    text = pre + pump * k + suf
    t = text.encode("latin-1", "replace") if req["bytes"] else text
    t0 = time.time()
    run(mode, t)
    return time.time() - t0
for wi, (pre, pump) in enumerate(req["witnesses"]):
    for suf in req["suffixes"]:
        for mode in req["modes"]:
            for k in req["ks"]:
                if len(pre) + len(pump) * k > 700:
                    break
                print(json.dumps({"start": [wi, suf, mode, k]}), flush=True)
                dt = timed(mode, pre, pump, k, suf)
                if dt > req["slow"]:
                    # exponential or merely polynomial?  two more pumps multiply an exponential by base**2 (>= 2.5 here), a polynomial by (1+2/k)**d
                    print(json.dumps({"start": [wi, suf, mode, k + 2]}), flush=True)
                    dt2 = timed(mode, pre, pump, k + 2, suf)
                    if dt2 > 2.5 * dt:
                        print(json.dumps({"slow": [wi, suf, mode, k], "seconds": dt, "next": dt2}), flush=True)
                        sys.exit(0)
                    break
print(json.dumps({"done": True}), flush=True)
"""


def pump_experiment(problem, timeout=15.0, slow=0.15):
    """BOUNDED: prefix + pump^k + suffix for k in PUMP_KS, every witness / suffix / mode the package uses, on CPython's `re`
    in a child process.  -> None (no super-polynomial growth seen) | {"prefix", "pump", "suffix", "mode", "k", "seconds"}"""
    import json
    import subprocess
    import sys
    req = {"pattern": problem["pattern"], "bytes": problem["bytes"], "flags": problem["flags"], "witnesses": problem["witnesses"],
           "suffixes": list(SUFFIXES), "modes": problem["modes"], "ks": list(PUMP_KS), "slow": slow}
    last = None
    try:
        p = subprocess.run([sys.executable, "-c", _CHILD], input=json.dumps(req), capture_output=True, text=True, timeout=timeout)
        out = p.stdout
        timed_out = False
    except subprocess.TimeoutExpired as e:
        out = e.stdout.decode() if isinstance(e.stdout, bytes) else (e.stdout or "")
        timed_out = True
    hit = None
    for line in out.splitlines():
        try:
            d = json.loads(line)
        except ValueError:
            continue
        if "start" in d:
            last = d["start"]
        if "slow" in d:
            hit = (d["slow"], d["seconds"])
    if hit is None and timed_out and last is not None:
        hit = (last, timeout)
    if hit is None:
        if not timed_out and '"done"' not in out:
            return {"error": (p.stderr or "")[-300:]}
        return None
    (wi, suf, mode, k), secs = hit
    pre, pump = problem["witnesses"][wi]
    return {"prefix": pre, "pump": pump, "suffix": suf, "mode": mode, "k": k, "seconds": round(secs, 2)}
