"""C11 -- ZIP-container bomb guard decides exactly and runs before any read.

Contracts on sharepoint2text/parsing/extractors/util/zip_bomb.py.  The spec
predicate `spec_reject` is written from the property statement, not from the
code: entry count, single size, total size, per-entry ratio, total ratio,
non-empty entry with zero compressed size; directory entries ignored.

Round 5: (1) "the configured limits" are under contract -- EXTRA `configuration` (C11_flow): field defaults of ZipBombLimits
evaluated from the real class body == the documented configuration, the DEFAULT object, the `limits` parameter defaults, every
guard call site forwards the configured limits; `limits_param(fn)` binds an omitted `limits` to what the real signature default
denotes (C11Executor.config_object: module-level frozen-dataclass instance, field values evaluated; it may alias a caller's
argument).  (2) C11Executor._filter_loop: an entry loop over a lazily filtered sequence (generator expression, one-line filter
helper, filter / itertools.filterfalse) is executed as the loop-with-continue it is, under the LoopSpec of the original statement.
Whatever is read off a code shape and not recognised is `unknown` (native replay decides), never a definite verdict.

Round 7: the consumers of the guard are under deductive contracts too (contracts/C11_ctx.py): ZipContext.__init__ and every method
that touches the handle (class invariant: the kept handle is an open container ACCEPTED under the configured limits), the zip_utils
readers, encryption.is_odf_encrypted.  Member accesses (ZipFile.read / open / namelist ...) are assumed library calls whose
precondition `accepted and open` is a proved call-pre obligation.  `limits_param(fn).default` now also serves calls from other
modules of the package (evaluated in the guard module).
"""
import z3

from pyvc.contracts import FnContract, LoopSpec, Raises
from pyvc.values import VBool, VExt, VFunc, VInt, VSeq, VUnk, ext_sort
from pyvc.verify import p_ext, p_obj, p_int, p_real, p_opt, p_str
from pyvc import ops
from pyvc.values import NONE, VNoneT, fresh_name
from contracts import common

ZB = "sharepoint2text/parsing/extractors/util/zip_bomb.py"

ZipFile = ext_sort("ZipFile")
ZipInfo = ext_sort("ZipInfo")
I, R, B = z3.IntSort(), z3.RealSort(), z3.BoolSort()

# abstract container view (assumed contract of zipfile): infolist() is a finite
# sequence of ZipInfo; each has integer sizes and a directory flag.
n_of = z3.Function("zip_n", ZipFile, I)
info_at = z3.Function("zip_info", ZipFile, I, ZipInfo)
fs = z3.Function("file_size", ZipInfo, I)
cs = z3.Function("compress_size", ZipInfo, I)
isdir = z3.Function("is_dir", ZipInfo, B)

SU = z3.RecFunction("SU", ZipFile, I, I)   # uncompressed total of non-directory entries [0, i)
SC = z3.RecFunction("SC", ZipFile, I, I)
_z, _i = z3.Const("z", ZipFile), z3.Int("i")
z3.RecAddDefinition(SU, [_z, _i], z3.If(_i <= 0, 0, SU(_z, _i - 1) + z3.If(isdir(info_at(_z, _i - 1)), 0, fs(info_at(_z, _i - 1)))))
z3.RecAddDefinition(SC, [_z, _i], z3.If(_i <= 0, 0, SC(_z, _i - 1) + z3.If(isdir(info_at(_z, _i - 1)), 0, cs(info_at(_z, _i - 1)))))


def entry_bad(e, L):
    """Property statement, per non-directory entry."""
    f, c = fs(e), cs(e)
    return z3.And(z3.Not(isdir(e)),
                  z3.Or(f > L["single"],
                        z3.And(f > 0, z3.Or(c <= 0, z3.ToReal(f) / z3.ToReal(c) > L["entry_ratio"]))))


def spec_reject(zf, L):
    n = n_of(zf)
    j = z3.Int("j!spec")
    tu, tc = SU(zf, n), SC(zf, n)
    return z3.Or(
        n > L["max_entries"],
        z3.Exists([j], z3.And(j >= 0, j < n, entry_bad(info_at(zf, j), L))),
        tu > L["total"],
        z3.And(tu > 0, z3.Or(tc <= 0, z3.ToReal(tu) / z3.ToReal(tc) > L["total_ratio"])),
    )


def limits_of(c, st=None):
    st = st or c.st
    d = st.obj(c.args["limits"].ref).data
    return {"max_entries": d["max_entries"].t, "total": d["max_total_uncompressed_bytes"].t,
            "single": d["max_single_uncompressed_bytes"].t,
            "total_ratio": d["max_total_compression_ratio"].t, "entry_ratio": d["max_entry_compression_ratio"].t}


def contrib(zf, a):
    e = info_at(zf, a)
    return z3.If(isdir(e), 0, fs(e))


def mono_lemma(zf, upto=None):
    """Every prefix total is at most the grand total: SU(a+1) <= SU(n) for
    0 <= a < n (needs file sizes >= 0).  Stated with SU(a+1) unfolded so that
    the trigger SU(zf, a) fires on the loop invariant's term.  Proved by the
    induction schema in `lemmas()`, then used as a hypothesis."""
    a = z3.Int("a!m")
    b = n_of(zf) if upto is None else upto
    return z3.ForAll([a], z3.Implies(z3.And(0 <= a, a < b), SU(zf, a) + contrib(zf, a) <= SU(zf, b)),
                     patterns=[SU(zf, a)])


def sizes_nonneg(zf):
    j = z3.Int("j!nn")
    return z3.ForAll([j], z3.Implies(z3.And(j >= 0, j < n_of(zf)), fs(info_at(zf, j)) >= 0),
                     patterns=[info_at(zf, j)])


def requires(c):
    zf = c.args["zf"].t
    L = limits_of(c, c.entry)
    return z3.And(n_of(zf) >= 0, sizes_nonneg(zf), L["total"] >= 0)


def entry_loop_roles():
    """(engine loop ordinal, {"file_size": local, "compress_size": local}) of the entry loop of the REAL validate_zipfile, the
    accumulators bound by role from the data flow (contracts/C11_roles.py); (0, reason) when the roles cannot be read off."""
    import ast as _ast
    from pyvc import loader
    from contracts import C11_roles
    try:
        m = loader.module(ZB)
        _k, lp, roles = C11_roles.loop_ordinal_and_roles(m, "validate_zipfile")
        fnode = m.functions["validate_zipfile"]
        loops = sorted((n for n in _ast.walk(fnode) if isinstance(n, (_ast.For, _ast.While))), key=lambda n: (n.lineno, n.col_offset))
        return loops.index(lp), roles
    except LookupError as e:
        try:
            up = _upfront_totals(m, "validate_zipfile")
        except Exception:  # noqa -- not a shape read here
            up = None
        if up is not None:
            return up
        return 0, str(e)
    except (OSError, SyntaxError, KeyError) as e:
        return 0, f"{type(e).__name__}: {e}"


def _upfront_totals(m, qual):
    """Round 6: the container-wide totals are not accumulated in the entry loop but taken before it as `t = sum(<comprehension
    over SEQ>)` (top-level statements of the function) and the entry loop is the `for` over the same SEQ: (loop ordinal, {}) --
    the invariant then speaks about the entries only; the totals are tied to the spec totals by the fold lemma the executor
    emits where the `sum` is evaluated (C11Executor._upfront_sum).  None when this is not the shape."""
    import ast as _ast
    from contracts import C11_roles
    fn = m.functions[qual]
    sums = {}
    for stmt in fn.body:
        if isinstance(stmt, _ast.Assign) and len(stmt.targets) == 1 and isinstance(stmt.targets[0], _ast.Name):
            v = stmt.value
            if isinstance(v, _ast.Call) and isinstance(v.func, _ast.Name) and v.func.id == "sum" and len(v.args) == 1 and not v.keywords \
                    and isinstance(v.args[0], (_ast.GeneratorExp, _ast.ListComp)) and len(v.args[0].generators) == 1 \
                    and isinstance(v.args[0].generators[0].iter, _ast.Name):
                sums.setdefault(v.args[0].generators[0].iter.id, []).append(stmt.targets[0].id)
    loops = C11_roles.loops_of(fn)
    for k, lp in enumerate(loops):
        if isinstance(lp, _ast.For) and isinstance(lp.iter, _ast.Name) and len(sums.get(lp.iter.id, [])) >= 2 and lp in fn.body:
            assigned = {n.id for b in lp.body for n in _ast.walk(b) if isinstance(n, _ast.Name) and isinstance(n.ctx, _ast.Store)}
            if not assigned & set(sums[lp.iter.id]):
                return k, {}
    return None


def make_loop_inv(roles):
    def inv(lc):
        if not isinstance(roles, dict):
            from pyvc.symex import Unsupported
            raise Unsupported(f"running totals of the entry loop not identified: {roles}")
        return loop_inv(lc, roles)
    return inv


def loop_inv(lc, roles):
    zf = lc.entry.lookup("zf").t
    Ld = lc.entry.obj(lc.entry.lookup("limits").ref).data
    L = {"total": Ld["max_total_uncompressed_bytes"].t, "single": Ld["max_single_uncompressed_bytes"].t,
         "entry_ratio": Ld["max_entry_compression_ratio"].t}
    i = lc.i
    j = z3.Int("j!inv")
    entries_ok = z3.ForAll([j], z3.Implies(z3.And(j >= 0, j < i), z3.Not(entry_bad(info_at(zf, j), L))),
                           patterns=[info_at(zf, j)])
    if not roles:           # totals taken up front (see _upfront_totals): the loop only judges the entries
        return entries_ok
    return z3.And(
        ops.int_term(lc[roles["file_size"]]) == SU(zf, i),          # the local that accumulates file_size (bound by role)
        ops.int_term(lc[roles["compress_size"]]) == SC(zf, i),     # the local that accumulates compress_size
        SU(zf, i) <= L["total"],
        entries_ok,
    )


# ------------------------------------------------------ assumed library view --
def m_infolist(ex, st, obj, args, kwargs, node):
    """zipfile.ZipFile.infolist(): ASSUMED to return the finite entry sequence,
    or to raise anything (EXC-ANY) -- ghost `infolist_failed` marks that path."""
    bad = st.fork()
    bad.ghost["infolist_failed"] = True
    ex.exc_any(bad, f"{ex.loc(node)} ZipFile.infolist")
    zf = obj.t
    return [(st, VSeq(n_of(zf), lambda i: VExt("ZipInfo", info_at(zf, i)), "ZipInfo"))]


def new_zipfile(ex, st, args, kwargs, node):
    """zipfile.ZipFile(file_like, 'r'): ASSUMED -- raises anything or returns a
    container view with n >= 0 entries of non-negative sizes; moves the stream."""
    ex.exc_any(st.fork(), f"{ex.loc(node)} zipfile.ZipFile()")
    zf = VExt("ZipFile")
    st.assume(z3.And(n_of(zf.t) >= 0, sizes_nonneg(zf.t)))
    src = args[0] if args else None
    if isinstance(src, VExt) and src.sort == "BytesIO":
        t = z3.Int(fresh_name("pos"))
        st.assume(t >= 0)
        st.ghost[common.pos_key(src)] = t
    st.ghost["open_zips"] = st.ghost.get("open_zips", frozenset()) | {zf.t.get_id()}
    _note_opened(st, zf, src)
    return [(st, zf)]


def _note_opened(st, zf, src):
    """ghost: the container views opened on this path and the stream each was opened from (terms kept alive here)."""
    st.ghost["c11!opened"] = st.ghost.get("c11!opened", ()) + ((zf.t, src.t if isinstance(src, VExt) and src.sort == "BytesIO" else None),)


def _fresh_open_zip(ex, st, ctx):
    zf = VExt("ZipFile")
    st.assume(z3.And(n_of(zf.t) >= 0, sizes_nonneg(zf.t)))
    st.ghost["open_zips"] = st.ghost.get("open_zips", frozenset()) | {zf.t.get_id()}
    src = ctx.args.get("file_like")
    if isinstance(src, VExt) and src.sort == "BytesIO":
        t = z3.Int(fresh_name("pos"))
        st.assume(t >= 0)
        st.ghost[common.pos_key(src)] = t
    _note_opened(st, zf, src)
    return zf


def m_close(ex, st, obj, args, kwargs, node):
    st.ghost["open_zips"] = st.ghost.get("open_zips", frozenset()) - {obj.t.get_id()}
    return [(st, NONE)]


def with_zip(ex, st, cm, phase):
    if phase == "enter":
        return [(st, cm)]
    st.ghost["open_zips"] = st.ghost.get("open_zips", frozenset()) - {cm.t.get_id()}


def install_models(reg):
    common.install_bytesio(reg)
    reg.ext_models[("new", "zipfile.ZipFile")] = new_zipfile
    reg.ext_models[("with", "ZipFile")] = with_zip
    reg.method_models[("ZipFile", "close")] = m_close
    reg.method_models[("ZipFile", "infolist")] = m_infolist
    reg.attr_models[("ZipInfo", "file_size")] = lambda ex, st, o: VInt(fs(o.t))
    reg.attr_models[("ZipInfo", "compress_size")] = lambda ex, st, o: VInt(cs(o.t))
    reg.attr_models[("ZipInfo", "is_dir")] = lambda ex, st, o: VFunc("bound", o, "is_dir")
    reg.method_models[("ZipInfo", "is_dir")] = lambda ex, st, o, a, k, n: [(st, VBool(isdir(o.t)))]


LIMITS = p_obj("ZipBombLimits", {
    "max_entries": p_int(), "max_total_uncompressed_bytes": p_int(), "max_single_uncompressed_bytes": p_int(),
    "max_total_compression_ratio": p_real(), "max_entry_compression_ratio": p_real()})


def limits_param(fn_name):
    """The `limits` parameter of a guard function.  A call that omits it gets what the REAL signature says: the default
    expression of that parameter is read from the source and evaluated in the guard module (the module-level default
    configuration object, field values from the real class body).  Anything else -> the call is OUT-OF-SUBSET."""
    mk = p_obj("ZipBombLimits", {
        "max_entries": p_int(), "max_total_uncompressed_bytes": p_int(), "max_single_uncompressed_bytes": p_int(),
        "max_total_compression_ratio": p_real(), "max_entry_compression_ratio": p_real()})

    def default(ex, st):
        from pyvc.ops import Unsupported
        import ast as _ast
        gex = ex
        if ex.module.rel != ZB:
            # round 7: a call from another module of the package (ZipContext, the ODF probe) -- the default is still what the
            # guard module's own signature says, evaluated in the guard module (one configuration object per path)
            from contracts import C11_ctx
            gex = C11_ctx.guard_executor(ex)
        node = gex.module.functions.get(fn_name)
        if node is None:
            raise Unsupported(f"default of `limits` of {fn_name}: the guard module has no such function")
        a = node.args
        dflt = None
        for arg, d in list(zip(a.kwonlyargs, a.kw_defaults)) + list(zip((a.posonlyargs + a.args)[::-1], a.defaults[::-1])):
            if arg.arg == "limits":
                dflt = d
        v = None
        if isinstance(dflt, _ast.Name) and hasattr(gex, "config_object"):
            v = gex.config_object(dflt.id, st)
        if v is None:
            raise Unsupported(f"call of {fn_name} without `limits`: its default "
                              f"`{_ast.unparse(dflt) if dflt is not None else '<none>'}` is not a readable configuration object")
        return v
    mk.default = default
    return mk


def G(fn):
    """Contract clause guarded against shapes it was not written for: a Python exception inside a clause on changed code is a
    failure of the sidecar to line up with the code (OUT-OF-SUBSET -> native replay decides), never an engine error."""
    from pyvc.ops import Unsupported

    def guarded(*a, **k):
        try:
            return fn(*a, **k)
        except Unsupported:
            raise
        except (TypeError, KeyError, AttributeError, IndexError, ValueError, z3.Z3Exception) as e:
            raise Unsupported(f"contract clause `{getattr(fn, '__name__', 'clause')}` does not fit this shape of the code "
                              f"({type(e).__name__}: {str(e)[:120]})")
    guarded.__name__ = getattr(fn, "__name__", "clause")
    return guarded


def _guard_contract(c):
    for attr in ("requires", "hyps", "returns"):
        f = getattr(c, attr, None)
        if callable(f):
            setattr(c, attr, G(f))
    c.ensures = [(lab, G(f)) for (lab, f) in (c.ensures or [])]
    for r in (c.raises or []):
        if callable(getattr(r, "when", None)):
            r.when = G(r.when)
    for k, ls in (c.loops or {}).items():
        if callable(getattr(ls, "inv", None)):
            ls.inv = G(ls.inv)
    if callable(getattr(c, "result_maker", None)):
        c.result_maker = G(c.result_maker)
    return c


def contracts(reg):
    return [_guard_contract(c) for c in _contracts(reg)]


def _contracts(reg):
    install_models(reg)
    out = []
    loop_k, roles = entry_loop_roles()
    out.append(FnContract(
        target=f"{ZB}::_is_directory",
        params=[("info", p_ext("ZipInfo"))],
        returns=lambda c: VBool(isdir(c.args["info"].t)),
        note="directory flag of the entry (ZipInfo.is_dir() assumed to exist: Python >= 3.6)",
    ))
    out.append(FnContract(
        target=f"{ZB}::validate_zipfile",
        params=[("zf", p_ext("ZipFile")), ("limits", limits_param("validate_zipfile")), ("source", p_opt(p_str()))],
        requires=requires,
        hyps=lambda c: mono_lemma(c.args["zf"].t),
        ensures=[("accepts-only-if-not-spec_reject", lambda c: z3.Not(spec_reject(c.args["zf"].t, limits_of(c))))],
        raises=[Raises("ExtractionZipBombError",
                       when=lambda c: z3.Or(z3.BoolVal(bool(c.st.ghost.get("infolist_failed"))),
                                            spec_reject(c.args["zf"].t, limits_of(c))))],
        loops={loop_k: LoopSpec(inv=make_loop_inv(roles), label="entries")},
    ))
    def pos_restored(c):
        return common.bytesio_pos(c.st, c.args["file_like"]) == common.bytesio_pos(c.entry, c.args["file_like"])

    def lim_req(c):
        return limits_of(c, c.entry)["total"] >= 0

    def pos_entry(c):
        # materialise the ghost stream position (>= 0) in the current state and share it with the entry snapshot
        t = common.bytesio_pos(c.st, c.args["file_like"])
        c.entry.ghost[common.pos_key(c.args["file_like"])] = t
        return lim_req(c)

    def accepted_only(c):
        # round 6: a normal return means a container view opened FROM THIS STREAM on this path was accepted by the guard
        # (through validate_zipfile or open_zipfile): a wrapper that swallows the rejection, or validates something else,
        # returns on a path where no such fact exists.
        L = limits_of(c)
        mine = [z for (z, src) in c.st.ghost.get("c11!opened", ()) if src is not None and z3.eq(src, c.args["file_like"].t)]
        return z3.Or([z3.Not(spec_reject(z, L)) for z in mine] + [z3.BoolVal(False)])

    out.append(FnContract(
        target=f"{ZB}::validate_zip_bytesio",
        params=[("file_like", p_ext("BytesIO")), ("limits", limits_param("validate_zip_bytesio")), ("source", p_opt(p_str()))],
        requires=pos_entry,
        ensures=[("position-restored", pos_restored),
                 ("returns-only-for-an-accepted-container", accepted_only),
                 ("no-container-left-open", lambda c: z3.BoolVal(not c.st.ghost.get("open_zips")))],
        raises=[Raises("Exception", sub=True, label="any failure, position restored, container closed",
                       when=lambda c: z3.And(pos_restored(c), z3.BoolVal(not c.st.ghost.get("open_zips"))))],
        modifies=("file_like",),
    ))
    out.append(FnContract(
        target=f"{ZB}::open_zipfile",
        params=[("file_like", p_ext("BytesIO")), ("limits", limits_param("open_zipfile")), ("source", p_opt(p_str()))],
        requires=lim_req,
        ensures=[("returned-container-validated", lambda c: z3.Not(spec_reject(c.result.t, limits_of(c)))),
                 ("returned-container-open", lambda c: z3.BoolVal(c.st.ghost.get("open_zips") == frozenset({c.result.t.get_id()})))],
        raises=[Raises("Exception", sub=True, label="closed on failure",
                       when=lambda c: z3.BoolVal(not c.st.ghost.get("open_zips")))],
        result_maker=_fresh_open_zip,
        modifies=("file_like",),
    ))
    # round 7: the consumers of the guard under deductive contracts (ZipContext and its methods, the zip_utils readers, the ODF
    # encryption probe): contracts/C11_ctx.py
    try:
        from contracts import C11_ctx
        out.extend(C11_ctx.contracts(reg))
    except Exception as e:  # noqa -- the sidecar does not line up with the code: the dataflow typestate + replay still decide
        import sys
        print(f"C11_ctx: contracts not registered ({type(e).__name__}: {e})", file=sys.stderr)
    return out


def lemmas():
    """Induction schema for mono_lemma: P(b) := forall a in [0,b). SU(a)+contrib(a) <= SU(b).
    Base P(0) and step P(b) => P(b+1) (0 <= b < n), under sizes_nonneg."""
    zf = z3.Const("zf!lemma", ZipFile)
    b = z3.Int("b!lemma")
    hyp = [n_of(zf) >= 0, sizes_nonneg(zf)]
    return [
        ("C11/zip_bomb.py::spec/lemma#prefix-total-monotone.base", hyp, mono_lemma(zf, z3.IntVal(0))),
        ("C11/zip_bomb.py::spec/lemma#prefix-total-monotone.step", hyp + [b >= 0, b < n_of(zf), mono_lemma(zf, b)],
         mono_lemma(zf, b + 1)),
    ]


# ------------------------------------- policy / typestate / error propagation --
# Interprocedural dataflow obligations over the real package AST: contracts/C11_flow.py
from contracts.C11_flow import policy, propagation, configuration  # noqa: E402


# --------------------------------------------------------------- executor --
from pyvc import verify as _verify  # noqa: E402


import ast as _ast_mod  # noqa: E402


class _C11Body(_ast_mod.stmt):
    """Marker statement: "the body of the `with` statement runs here" (stands where the `yield` of a generator-based context
    manager stood; executed by C11Executor.s__C11Body)."""
    _fields = ("value",)


class C11Executor(_verify.Executor):
    """Instances of a `@dataclass(frozen=True)` class of the module (read from the real decorator list) are immutable:
    handing one to a helper inside a loop (`_check_entry(info, limits, source)`) does not havoc it at the loop cut."""

    def _frozen_classes(self):
        import ast as _ast
        out = getattr(self, "_frozen", None)
        if out is None:
            out = set()
            for name, c in self.module.classes.items():
                for d in c.decorator_list:
                    if isinstance(d, _ast.Call) and _ast.unparse(d.func).split(".")[-1] == "dataclass" and any(
                            k.arg == "frozen" and isinstance(k.value, _ast.Constant) and k.value.value is True for k in d.keywords):
                        if not any(isinstance(n, _ast.FunctionDef) and n.name in ("__setattr__", "__post_init__") for n in c.body):
                            out.add(name)
            self._frozen = out
        return out

    # -- `for x in (y for y in SRC if C)` / `for x in _helper(SRC)` where the helper returns such a filter: executed as the loop
    #    it is -- `for y' in SRC: if not C: continue; x = y'; body` (a generator expression is lazy: same interleaving of filter
    #    and body; a list comprehension is accepted when its filter only calls functions under a verified contract).  The loop
    #    keeps the LoopSpec of the original `for` statement, so invariants stay indexed by the position in SRC.
    def _filter_loop(self, s, st):
        import ast as _ast
        import copy
        it = s.iter
        subst = {}
        comp = None
        if isinstance(it, (_ast.GeneratorExp, _ast.ListComp)):
            comp = it
        elif isinstance(it, _ast.Call) and isinstance(it.func, _ast.Name) and it.func.id in self.module.functions and not it.keywords \
                and all(isinstance(a, _ast.Name) for a in it.args) and st.lookup(it.func.id) is None:
            callee = self.module.functions[it.func.id]
            body = [b for b in callee.body if not (isinstance(b, _ast.Expr) and isinstance(b.value, _ast.Constant))]
            a = callee.args
            if len(body) == 1 and isinstance(body[0], _ast.Return) and isinstance(body[0].value, (_ast.GeneratorExp, _ast.ListComp)) \
                    and not (a.vararg or a.kwarg or a.kwonlyargs or a.posonlyargs) and len(a.args) == len(it.args) and not callee.decorator_list:
                comp = body[0].value
                subst = {p.arg: arg.id for p, arg in zip(a.args, it.args)}
        if comp is None and isinstance(it, _ast.Name):
            v = st.lookup(it.id)
            if isinstance(v, VSeq) and isinstance(v.tag, tuple) and v.tag and v.tag[0] == "c11!filtered":
                comp = v.tag[1]          # the comprehension that built the list, its source re-pointed at the hidden local
        if comp is None:
            comp = self._filter_call_as_genexp(it, st)
        if comp is None or len(comp.generators) != 1:
            return None
        g = comp.generators[0]
        if g.is_async or not isinstance(g.target, _ast.Name) or not isinstance(comp.elt, _ast.Name) or comp.elt.id != g.target.id:
            return None
        if isinstance(comp, _ast.ListComp):
            for c in g.ifs:
                for n in _ast.walk(c):
                    if isinstance(n, _ast.Call) and not (isinstance(n.func, _ast.Name) and self.reg.get(f"{self.module.rel}::{n.func.id}") is not None):
                        return None
        fresh = f"__c11_item_{s.lineno}"
        free = set()
        for c in list(g.ifs) + [g.iter]:
            free |= {n.id for n in _ast.walk(c) if isinstance(n, _ast.Name)}
        free -= {g.target.id} | set(subst)
        if subst and any(nm in st.frame.env for nm in free):
            return None           # a name of the helper's scope is shadowed by a local of the caller

        class Ren(_ast.NodeTransformer):
            def visit_Name(self, n):
                if n.id == g.target.id:
                    return _ast.copy_location(_ast.Name(id=fresh, ctx=n.ctx), n)
                if n.id in subst:
                    return _ast.copy_location(_ast.Name(id=subst[n.id], ctx=n.ctx), n)
                return n
        src = Ren().visit(copy.deepcopy(g.iter))
        conds = [Ren().visit(copy.deepcopy(c)) for c in g.ifs]
        pre = []
        if conds:
            test = conds[0] if len(conds) == 1 else _ast.BoolOp(op=_ast.And(), values=conds)
            pre.append(_ast.If(test=_ast.UnaryOp(op=_ast.Not(), operand=test), body=[_ast.Continue()], orelse=[]))
        pre.append(_ast.Assign(targets=[copy.deepcopy(s.target)], value=_ast.Name(id=fresh, ctx=_ast.Load())))
        new = _ast.For(target=_ast.Name(id=fresh, ctx=_ast.Store()), iter=src, body=pre + list(s.body), orelse=list(s.orelse), type_comment=None)
        _ast.copy_location(new, s)
        for n in pre + [new.target, src]:
            for x in _ast.walk(n):
                _ast.copy_location(x, s) if not hasattr(x, "lineno") else None
        _ast.fix_missing_locations(new)
        if not hasattr(self, "_desugared"):
            self._desugared = {}
        self._desugared[id(new)] = (s, new)
        return new

    def _filter_call_as_genexp(self, it, st):
        """`filter(P, SRC)` / `itertools.filterfalse(P, SRC)` (both lazy) read as `(y for y in SRC if [not] P(y))`; P is a
        one-parameter lambda (its body becomes the test) or a plain name (the call P(y) is the test; `None` = truthiness).
        The builtin / itertools function is recognised through the real import table, not by spelling alone."""
        import ast as _ast
        import copy
        if not (isinstance(it, _ast.Call) and len(it.args) == 2 and not it.keywords and not any(isinstance(a, _ast.Starred) for a in it.args)):
            return None
        f = it.func
        neg = None
        if isinstance(f, _ast.Name) and st.lookup(f.id) is None and f.id not in self.module.functions and f.id not in self.module.assigns:
            imp = self.module.imports.get(f.id)
            if f.id == "filter" and imp is None:
                neg = False
            elif imp == "itertools.filterfalse":
                neg = True
        elif isinstance(f, _ast.Attribute) and isinstance(f.value, _ast.Name) and f.attr == "filterfalse" \
                and st.lookup(f.value.id) is None and self.module.imports.get(f.value.id) == "itertools":
            neg = True
        if neg is None:
            return None
        pred, src = it.args
        item = "__c11_f"
        if isinstance(pred, _ast.Lambda):
            a = pred.args
            if len(a.args) != 1 or a.vararg or a.kwarg or a.kwonlyargs or a.posonlyargs or a.defaults:
                return None
            par = a.args[0].arg

            class R(_ast.NodeTransformer):
                def visit_Name(self, n):
                    return _ast.copy_location(_ast.Name(id=item, ctx=n.ctx), n) if n.id == par else n

                def visit_Lambda(self, n):       # an inner lambda may rebind the name: not a shape read here
                    raise LookupError("nested lambda")
            try:
                test = R().visit(copy.deepcopy(pred.body))
            except LookupError:
                return None
        elif isinstance(pred, _ast.Name):
            test = _ast.Call(func=_ast.Name(id=pred.id, ctx=_ast.Load()), args=[_ast.Name(id=item, ctx=_ast.Load())], keywords=[])
        elif isinstance(pred, _ast.Constant) and pred.value is None:
            test = _ast.Name(id=item, ctx=_ast.Load())
        else:
            return None
        if neg:
            test = _ast.UnaryOp(op=_ast.Not(), operand=test)
        comp = _ast.GeneratorExp(elt=_ast.Name(id=item, ctx=_ast.Load()),
                                 generators=[_ast.comprehension(target=_ast.Name(id=item, ctx=_ast.Store()), iter=copy.deepcopy(src),
                                                                ifs=[test], is_async=0)])
        _ast.copy_location(comp, it)
        _ast.fix_missing_locations(comp)
        return comp

    def s_For(self, s, st):
        try:
            new = self._filter_loop(s, st)
        except Exception:  # noqa -- not a shape this desugaring knows: the engine decides
            new = None
        return super().s_For(new if new is not None else s, st)

    def loop_spec(self, node):
        hit = getattr(self, "_desugared", {}).get(id(node))
        return super().loop_spec(hit[0] if hit is not None else node)

    # -- the module-level default configuration: a name bound exactly once at module level to `FrozenDataclass(**consts)` is an
    #    immutable object whose fields are the constants the REAL class body / keywords give (evaluated, not assumed); one heap
    #    object per path.  Any other shape stays what the engine makes of it (unknown value).
    def config_object(self, name, st):
        import ast as _ast
        from pyvc.state import HeapObj
        from pyvc.values import VRef
        from contracts.C11_flow import const_value
        m = self.module
        e = m.assigns.get(name)
        if not (isinstance(e, _ast.Call) and isinstance(e.func, _ast.Name) and e.func.id in self._frozen_classes() and not e.args
                and all(k.arg for k in e.keywords)):
            return None
        stores = [n for n in _ast.walk(m.tree) if (isinstance(n, _ast.Name) and n.id == name and isinstance(n.ctx, (_ast.Store, _ast.Del)))
                  or (isinstance(n, _ast.Global) and name in n.names)]
        if len(stores) != 1:
            return None
        key = f"c11!config:{name}"
        ref = st.ghost.get(key)
        if ref is not None and ref in st.heap:
            return VRef(ref)
        cls = m.classes[e.func.id]
        if any(isinstance(n, _ast.FunctionDef) and n.name in ("__init__", "__new__", "__getattribute__", "__getattr__") for n in cls.body) or \
                [b for b in cls.bases if not (isinstance(b, _ast.Name) and b.id == "object")]:
            return None
        fields = {}
        try:
            for n in cls.body:
                if isinstance(n, _ast.AnnAssign) and isinstance(n.target, _ast.Name):
                    if n.value is None:
                        fields[n.target.id] = None
                    else:
                        fields[n.target.id] = const_value(m, n.value)
            for k in e.keywords:
                if k.arg not in fields:
                    return None
                fields[k.arg] = const_value(m, k.value)
        except LookupError:
            return None
        if not fields or any(v is None for v in fields.values()):
            return None
        data = {}
        for f, v in fields.items():
            ann = next((_ast.unparse(n.annotation) for n in cls.body if isinstance(n, _ast.AnnAssign) and getattr(n.target, "id", None) == f), "")
            data[f] = ops.lift(float(v) if ann == "float" and isinstance(v, int) else v)
        ref = st.alloc(HeapObj("obj", data, e.func.id, fresh=False), self.refs)
        st.ghost[key] = ref
        return VRef(ref)

    # -- a configuration handed in by the caller MAY be the module-level default object itself (that is what every in-library
    #    caller passes): `param is DEFAULT` is neither true nor false -- a fresh Boolean that, when true, makes the two objects
    #    agree on every field.  `==` of two instances is the dataclass field-tuple equality.
    def compare(self, st, op, a, b, node):
        from pyvc.values import VRef
        if op in ("Is", "IsNot", "Eq", "NotEq") and isinstance(a, VRef) and isinstance(b, VRef) and a.ref != b.ref:
            try:
                cfg = {v for k, v in st.ghost.items() if isinstance(k, str) and k.startswith("c11!config:")}
                oa, ob = st.heap.get(a.ref), st.heap.get(b.ref)
                if len({a.ref, b.ref} & cfg) == 1 and oa is not None and ob is not None and oa.kind == ob.kind == "obj" and oa.cls == ob.cls \
                        and oa.cls in self._frozen_classes() and set(oa.data) == set(ob.data):
                    other = ob if a.ref in cfg else oa
                    same = z3.And([ops.eq_term(oa.data[f], ob.data[f]) for f in sorted(oa.data)])
                    cls = self.module.classes[oa.cls]
                    import ast as _ast
                    own_eq = any(isinstance(n, _ast.FunctionDef) and n.name in ("__eq__", "__ne__") for n in cls.body) or any(
                        isinstance(d, _ast.Call) and any(k.arg == "eq" for k in d.keywords) for d in cls.decorator_list)
                    if op in ("Eq", "NotEq") and not own_eq:
                        return [(st, VBool(same if op == "Eq" else z3.Not(same)))]
                    if op in ("Is", "IsNot") and not other.fresh:
                        alias = z3.Bool(fresh_name("is_default_object"))
                        st.assume(z3.Implies(alias, same))
                        return [(st, VBool(alias if op == "Is" else z3.Not(alias)))]
            except (ops.Unsupported, KeyError, AttributeError, TypeError):
                pass
        return super().compare(st, op, a, b, node)

    def e_Name(self, n, st):
        if st.lookup(n.id) is None and n.id in self.module.assigns:
            try:
                v = self.config_object(n.id, st)
            except Exception:  # noqa -- not a shape read here: the engine decides
                v = None
            if v is not None:
                return [(st, v)]
        return super().e_Name(n, st)

    # -- round 6: a plain class of the guard module (no decorators, no bases but `object`, no metaclass, no `__new__` /
    #    attribute hooks, class body = docstring, methods and constant attributes) is instantiated as the heap object it is:
    #    class-level constants, then the REAL `__init__` body inlined.  Used as a context manager (`__enter__` and `__exit__`
    #    both defined in the class body) the `with` statement runs the real protocol: `__enter__()`, body, `__exit__(type, exc,
    #    tb)` on every way out of the body (None x 3 on the non-exceptional ones), an exception of the body is swallowed iff
    #    the value `__exit__` returned is true, an exception of `__exit__` replaces it.  Any other shape: the engine decides.
    def _plain_class(self, name):
        import ast as _ast
        cls = self.module.classes.get(name)
        if cls is None or cls.decorator_list or cls.keywords or self.uni.known(name) or ("new", name) in self.reg.ext_models:
            return None
        if any(not (isinstance(b, _ast.Name) and b.id == "object") for b in cls.bases):
            return None
        consts = {}
        for n in cls.body:
            if isinstance(n, _ast.Expr) and isinstance(n.value, _ast.Constant):
                continue
            if isinstance(n, _ast.Pass):
                continue
            if isinstance(n, _ast.FunctionDef):
                if n.decorator_list or n.name in ("__new__", "__setattr__", "__getattr__", "__getattribute__", "__delattr__",
                                                  "__init_subclass__", "__set_name__", "__class_getitem__", "__bool__", "__len__", "__eq__"):
                    return None
                if n.name in consts:
                    return None
                continue
            if isinstance(n, _ast.AnnAssign) and isinstance(n.target, _ast.Name) and n.value is None:
                continue
            tgt = n.targets[0] if isinstance(n, _ast.Assign) and len(n.targets) == 1 else getattr(n, "target", None) if isinstance(n, _ast.AnnAssign) else None
            if isinstance(tgt, _ast.Name) and isinstance(n.value, _ast.Constant) and tgt.id != "__slots__":
                consts[tgt.id] = n.value.value
                continue
            if isinstance(tgt, _ast.Name) and tgt.id == "__slots__":
                continue
            return None
        names = [n.name for n in cls.body if isinstance(n, _ast.FunctionDef)]
        if len(set(names)) != len(names) or set(names) & set(consts):
            return None
        return cls, consts

    def construct(self, st, t, args, kwargs, node):
        try:
            pc = self._plain_class(t.name)
        except Exception:  # noqa -- not a shape read here: the engine decides
            pc = None
        if pc is None:
            return super().construct(st, t, args, kwargs, node)
        cls, consts = pc
        obj = self.new_obj(st, t.name, {k: ops.lift(v) for k, v in consts.items()})
        if f"{t.name}.__init__" not in self.module.functions:
            if args or kwargs:
                self.raise_in(st, self.mk_exc("TypeError"))
                return []
            return [(st, obj)]
        out = []
        for (s2, rv) in self.obj_method(st, obj, "__init__", list(args), dict(kwargs), node):
            if isinstance(rv, VNoneT):
                out.append((s2, obj))
            else:
                self.raise_in(s2, self.mk_exc("TypeError"))       # __init__() should return None
        return out

    def _class_cm(self, item, st):
        """The with-item's manager is an instance of a plain class of this module that defines the protocol itself: decided
        before anything is evaluated (constructor call by name, or a local bound to such an object)."""
        import ast as _ast
        from pyvc.values import VRef
        e = item.context_expr
        name = None
        if isinstance(e, _ast.Call) and isinstance(e.func, _ast.Name) and st.lookup(e.func.id) is None:
            name = e.func.id
        elif isinstance(e, _ast.Name):
            v = st.lookup(e.id)
            if isinstance(v, VRef) and v.ref in st.heap and st.obj(v.ref).kind == "obj":
                name = st.obj(v.ref).cls
        if name is None or self._plain_class(name) is None:
            return None
        fns = self.module.functions
        if f"{name}.__enter__" not in fns or f"{name}.__exit__" not in fns:
            return None
        if self.reg.get(f"{self.module.rel}::{name}.__enter__") is not None or self.reg.get(f"{self.module.rel}::{name}.__exit__") is not None:
            return None
        return name

    # -- a function is its body only when nothing decorates it: the inliner refuses any other decorated function (the call is
    #    then out of the subset: native replay decides) ...
    def run_body(self, st, fnode, env, static=None):
        import ast as _ast
        if isinstance(fnode, (_ast.FunctionDef, _ast.AsyncFunctionDef)):
            decos = [_ast.unparse(d) for d in fnode.decorator_list]
            if isinstance(fnode, _ast.AsyncFunctionDef) or any(d != "staticmethod" for d in decos):
                raise ops.Unsupported(f"{self.module.rel}:{fnode.lineno} decorated function `{fnode.name}` "
                                      f"(@{', @'.join(decos)[:60]}) is not its body")
        return super().run_body(st, fnode, env, static)

    # -- ... except a generator under exactly `@contextlib.contextmanager` (resolved through the import table) used as the manager
    #    of a `with`: the body of the `with` runs where the single `yield` statement stands (same frame discipline as the real
    #    thing: the generator's locals in its own frame, the body in the caller's), so try / except / finally around the yield
    #    see the body's exceptions exactly as `gen.throw` delivers them.  Recognised only when the yield is one expression
    #    statement reached unconditionally (through `try:` bodies and `with` bodies only), there is no other yield and no
    #    `return` in the generator; a body that leaves by return / break / continue is not read this way (`unknown`).
    def _generator_cm(self, item, st):
        import ast as _ast
        import copy
        e = item.context_expr
        if not (isinstance(e, _ast.Call) and isinstance(e.func, _ast.Name) and st.lookup(e.func.id) is None
                and not any(isinstance(a, _ast.Starred) for a in e.args) and all(k.arg for k in e.keywords)):
            return None
        fnode = self.module.functions.get(e.func.id)
        if not isinstance(fnode, _ast.FunctionDef) or len(fnode.decorator_list) != 1 or self.reg.get(f"{self.module.rel}::{e.func.id}") is not None:
            return None
        d = fnode.decorator_list[0]
        imps = self.module.imports
        dotted = imps.get(d.id) if isinstance(d, _ast.Name) else \
            f"{imps.get(d.value.id)}.{d.attr}" if isinstance(d, _ast.Attribute) and isinstance(d.value, _ast.Name) and d.value.id in imps else None
        if dotted != "contextlib.contextmanager" or (isinstance(d, _ast.Name) and (d.id in self.module.functions or d.id in self.module.assigns)):
            return None
        cache = self.__dict__.setdefault("_gencm", {})
        if id(fnode) in cache:
            return cache[id(fnode)][1]
        g2 = None
        inner = [n for n in _ast.walk(fnode) if n is not fnode]
        ys = [n for n in inner if isinstance(n, (_ast.Yield, _ast.YieldFrom, _ast.Await))]
        bad = [n for n in inner if isinstance(n, (_ast.Return, _ast.FunctionDef, _ast.AsyncFunctionDef, _ast.Lambda, _ast.ClassDef,
                                                  _ast.Global, _ast.Nonlocal))]
        if len(ys) == 1 and isinstance(ys[0], _ast.Yield) and not bad:
            g2 = copy.deepcopy(fnode)
            g2.decorator_list = []

            def place(stmts):
                for k, x in enumerate(stmts):
                    if isinstance(x, _ast.Expr) and isinstance(x.value, _ast.Yield):
                        m = _C11Body(value=x.value.value)
                        _ast.copy_location(m, x)
                        stmts[k] = m
                        return m
                    if isinstance(x, (_ast.Try, _ast.With)):
                        m = place(x.body)
                        if m is not None:
                            return m
                    if any(isinstance(y, _ast.Yield) for y in _ast.walk(x)):
                        return None
                return None
            if place(g2.body) is None:
                g2 = None
        cache[id(fnode)] = (fnode, g2)
        return g2

    def s__C11Body(self, s, st):
        from pyvc.symex import Outcome
        w, item = self._gencm_with[-1]
        outs = []
        for (s2, val) in (self.ev(s.value, st) if s.value is not None else [(st, NONE)]):
            gen_fr = s2.frames.pop()
            fn_top = self.cur_fn_stack.pop()
            self.inline_depth -= 1
            hid = self._gencm_with.pop()
            try:
                starts = self.assign(item.optional_vars, val, s2) if item.optional_vars is not None else [s2]
                res = [o for s3 in starts for o in self.exec_block(w.body, s3)]
            finally:
                self._gencm_with.append(hid)
                self.inline_depth += 1
                self.cur_fn_stack.append(fn_top)
                s2.frames.append(gen_fr)
            for o in res:
                if o.st is not s2:
                    o.st.frames.append(gen_fr.copy())
                if o.kind not in ("fall", "raise"):
                    self.unsupported(w, f"`with` body leaves a generator-based context manager by {o.kind}")
                outs.append(o)
        return outs

    # -- round 8: `with contextlib.ExitStack() as K: K.callback(f, a..); ...; <rest>` where the registrations are the FIRST
    #    statements of the body, K is used nowhere else, f / a.. are names, constants or attribute chains of names that <rest> never
    #    rebinds, is by the documented semantics of ExitStack (callbacks run last-in first-out on every exit, their result never
    #    suppresses, an exception they raise replaces the one in flight) `try: <rest> finally: f(a..)` -- executed as that.
    def _exitstack_try(self, s, st):
        import ast as _ast
        if isinstance(s, _ast.AsyncWith) or len(s.items) != 1:
            return None
        item = s.items[0]
        c = item.context_expr
        if not (isinstance(c, _ast.Call) and not c.args and not c.keywords and isinstance(item.optional_vars, _ast.Name)):
            return None
        f = c.func
        imp = self.module.imports
        if isinstance(f, _ast.Attribute) and isinstance(f.value, _ast.Name):
            ok = f.attr == "ExitStack" and imp.get(f.value.id) == "contextlib" and st.lookup(f.value.id) is None
        elif isinstance(f, _ast.Name):
            ok = imp.get(f.id) == "contextlib.ExitStack" and st.lookup(f.id) is None
        else:
            ok = False
        if not ok:
            return None
        k = item.optional_vars.id
        regs, rest = [], list(s.body)
        while rest:
            x = rest[0]
            if (isinstance(x, _ast.Expr) and isinstance(x.value, _ast.Call) and isinstance(x.value.func, _ast.Attribute)
                    and isinstance(x.value.func.value, _ast.Name) and x.value.func.value.id == k and x.value.func.attr == "callback"
                    and x.value.args and not any(isinstance(y, _ast.Starred) for y in x.value.args)
                    and all(kw.arg is not None for kw in x.value.keywords)):
                regs.append(x.value)
                rest.pop(0)
            else:
                break
        if not regs or not rest:
            return None
        used = set()

        def plain(e):
            if isinstance(e, _ast.Constant):
                return True
            while isinstance(e, _ast.Attribute):
                e = e.value
            if isinstance(e, _ast.Name) and e.id != k:
                used.add(e.id)
                return True
            return False
        for r in regs:
            if not all(plain(e) for e in list(r.args) + [kw.value for kw in r.keywords]):
                return None
        for x in rest:
            for y in _ast.walk(x):
                if isinstance(y, _ast.Name) and (y.id == k or (y.id in used and not isinstance(y.ctx, _ast.Load))):
                    return None
                if isinstance(y, (_ast.Global, _ast.Nonlocal, _ast.Yield, _ast.YieldFrom, _ast.Await)):
                    return None
                if isinstance(y, _ast.arg) and y.arg in used | {k}:
                    return None
        final = []
        for r in reversed(regs):
            call = _ast.Call(func=r.args[0], args=list(r.args[1:]), keywords=list(r.keywords))
            e = _ast.Expr(value=call)
            _ast.copy_location(call, r)
            _ast.copy_location(e, r)
            final.append(e)
        t = _ast.Try(body=rest, handlers=[], orelse=[], finalbody=final)
        _ast.copy_location(t, s)
        return t

    def s_With(self, s, st):
        import ast as _ast
        from pyvc.symex import Outcome
        from pyvc.values import VRef, VExc
        try:
            t = self._exitstack_try(s, st)
        except Exception:  # noqa -- not a shape read here: the engine decides
            t = None
        if t is not None:
            return self.exec_stmt(t, st)
        try:
            gen = [self._generator_cm(it, st) for it in s.items] if not isinstance(s, _ast.AsyncWith) else []
        except Exception:  # noqa -- not a shape read here: the engine decides
            gen = []
        if any(g is not None for g in gen):
            if len(s.items) > 1:          # `with A, B: body` is `with A: with B: body`
                inner = _ast.With(items=list(s.items[1:]), body=list(s.body), type_comment=None)
                _ast.copy_location(inner, s)
                outer = _ast.With(items=[s.items[0]], body=[inner], type_comment=None)
                _ast.copy_location(outer, s)
                return self.s_With(outer, st)
            item, g2 = s.items[0], gen[0]
            call = item.context_expr
            stack = self.__dict__.setdefault("_gencm_with", [])
            outs = []
            for (s2, args) in self.ev_list(call.args, st):
                for (s3, kwvals) in self.ev_list([k.value for k in call.keywords], s2):
                    env = self.bind_params(g2, args, {k.arg: v for k, v in zip(call.keywords, kwvals)}, call)
                    stack.append((s, item))
                    try:
                        res = self.run_body(s3, g2, env, None)
                    finally:
                        stack.pop()
                    outs.extend(Outcome("fall", s4) for (s4, _v) in res)
            return outs
        try:
            hit = [self._class_cm(it, st) for it in s.items]
        except Exception:  # noqa -- not a shape read here: the engine decides
            hit = [None]
        if not any(hit) or any(getattr(it, "is_async", False) for it in s.items):
            return super().s_With(s, st)
        if len(s.items) > 1:          # `with A, B: body` is `with A: with B: body`
            inner = _ast.With(items=list(s.items[1:]), body=list(s.body), type_comment=None)
            _ast.copy_location(inner, s)
            outer = _ast.With(items=[s.items[0]], body=[inner], type_comment=None)
            _ast.copy_location(outer, s)
            return self.s_With(outer, st)
        item = s.items[0]
        outs = []
        for (s2, cm) in self.ev(item.context_expr, st):
            if not (isinstance(cm, VRef) and s2.obj(cm.ref).kind == "obj" and s2.obj(cm.ref).cls == hit[0]):
                self.unsupported(item.context_expr, "context manager is not the instance its constructor call announced")
            for (s3, val) in self.obj_method(s2, cm, "__enter__", [], {}, item.context_expr):
                starts = self.assign(item.optional_vars, val, s3) if item.optional_vars is not None else [s3]
                for s4 in starts:
                    for o in self.exec_block(s.body, s4):
                        prev = o.st.cur_exc
                        if o.kind == "raise" and isinstance(o.val, VExc):
                            eargs = [VExt("ExcType"), o.val, VExt("Traceback")]
                            o.st.cur_exc = o.val
                        elif o.kind == "raise":
                            self.unsupported(s, "exception value of the with body is not an exception object")
                        else:
                            eargs = [NONE, NONE, NONE]
                        for (s5, rv) in self.obj_method(o.st, cm, "__exit__", eargs, {}, item.context_expr):
                            if o.kind != "raise":
                                outs.append(Outcome(o.kind, s5, o.val))
                                continue
                            s5.cur_exc = prev
                            for (s6, swallowed) in self.fork_truth(s5, rv):
                                outs.append(Outcome("fall", s6) if swallowed else Outcome("raise", s6, o.val))
        return outs

    # -- round 6: `sum(<comprehension over the entry sequence>)` is a fold over the central directory: a spec function
    #    FOLD(z, i) = FOLD(z, i-1) + contribution(entry i-1), the contribution read by executing the REAL element expression (and
    #    filters) on the symbolic entry.  The fold is tied to the spec total it stands for (SU / SC: the field it agrees with on
    #    non-directory entries) by an induction schema emitted as obligations of the function (`lemma#upfront-total-of-<field>-
    #    equals-spec-total.base/.step`), then assumed at i = n.  A fold that counts directory records fails the step.
    def _upfront_sum(self, n, st):
        import ast as _ast
        if not (isinstance(n.func, _ast.Name) and n.func.id == "sum" and len(n.args) == 1 and not n.keywords
                and isinstance(n.args[0], (_ast.GeneratorExp, _ast.ListComp)) and st.lookup("sum") is None
                and "sum" not in self.module.functions and "sum" not in self.module.assigns and "sum" not in self.module.imports):
            return None
        comp = n.args[0]
        if len(comp.generators) != 1:
            return None
        g = comp.generators[0]
        if g.is_async or not isinstance(g.target, _ast.Name) or not isinstance(g.iter, _ast.Name):
            return None
        seq = st.lookup(g.iter.id)
        if not (isinstance(seq, VSeq) and seq.ekind == "ZipInfo" and z3.is_app(seq.length) and seq.length.decl().name() == "zip_n"):
            return None
        zf = seq.length.arg(0)
        k = z3.Int(fresh_name("k!fold"))
        probe = st.fork()
        base = len(probe.pc)
        probe.assume(z3.And(k >= 0, k < n_of(zf)))
        probe.frames.append(type(probe.frames[-1])({g.target.id: VExt("ZipInfo", info_at(zf, k))}, len(probe.frames) - 1, None))
        self.sinks.append([])
        try:
            outs = []
            live = [(probe, z3.BoolVal(True))]
            for c in g.ifs:
                nxt = []
                for (s1, cond) in live:
                    for (s2, v) in self.ev(c, s1):
                        nxt.append((s2, z3.And(cond, self.truth(s2, v).t)))
                live = nxt
            for (s1, cond) in live:
                for (s2, v) in self.ev(comp.elt, s1):
                    if not isinstance(v, (VInt, VBool)):
                        self.unsupported(n, "sum over the entry sequence: element is not an integer")
                    outs.append((z3.And(s2.pc[base + 1:] + [z3.BoolVal(True)]), cond, ops.int_term(v)))
        finally:
            raised = self.sinks.pop()
        if raised or not outs:
            self.unsupported(n, "sum over the entry sequence: the element expression may raise / has no value")
        contrib_k = z3.IntVal(0)
        for (path, cond, t) in reversed(outs):
            contrib_k = z3.If(path, z3.If(cond, t, 0), contrib_k)
        contrib_k = z3.simplify(contrib_k)
        e = info_at(zf, k)
        nn = [k >= 0, k < n_of(zf), fs(e) >= 0]
        field = None
        for name, F in (("file_size", fs), ("compress_size", cs)):
            if not self.feasible(nn + [z3.Not(isdir(e))], contrib_k != F(e)):
                field = name
                break
        if field is None:
            self.unsupported(n, "sum over the entry sequence: not the total of file_size or compress_size of the entries")
        S = SU if field == "file_size" else SC
        FOLD = z3.RecFunction(fresh_name(f"FOLD_{field}"), ZipFile, I, I)
        zv, iv = z3.Const("z!fold", ZipFile), z3.Int("i!fold")
        z3.RecAddDefinition(FOLD, [zv, iv], z3.If(iv <= 0, 0, FOLD(zv, iv - 1) + z3.substitute(contrib_k, (k, iv - 1), (zf, zv))))
        b = z3.Int(fresh_name("b!fold"))
        eb = info_at(zf, b)
        label = f"upfront-total-of-{field}-equals-spec-total"
        self.add_vc("lemma", label + ".base", [], FOLD(zf, 0) == S(zf, 0), loc=self.loc(n))
        self.add_vc("lemma", label + ".step", [b >= 0, b < n_of(zf), fs(eb) >= 0, FOLD(zf, b) == S(zf, b)],
                    FOLD(zf, b + 1) == S(zf, b + 1), loc=self.loc(n))
        st.ghost.setdefault("c11!folds", ())
        st.ghost["c11!folds"] = st.ghost["c11!folds"] + (FOLD,)          # keeps the declaration alive
        st.assume(FOLD(zf, n_of(zf)) == S(zf, n_of(zf)))
        return [(st, VInt(FOLD(zf, n_of(zf))))]

    # -- round 6: `[x for x in ENTRIES if C(x)]` bound to a name is the filtered view of the entry sequence: its length is the
    #    spec count CNT(z, n) of the entries that pass the REAL filter (executed on the symbolic entry; 0 <= CNT(z, i) <= i by an
    #    induction schema emitted as obligations), a `for` over it runs as the loop-with-continue over the source (_filter_loop),
    #    anything else done with it (indexing, mutation) is not read.  The filter may only call functions under a verified contract.
    def e_ListComp(self, n, st):
        try:
            r = self._filtered_view(n, st)
        except ops.Unsupported:
            raise
        except Exception:  # noqa -- not a shape read here: the engine decides
            r = None
        if r is not None:
            return r
        return super().e_ListComp(n, st)

    def _filtered_view(self, n, st):
        import ast as _ast
        import copy
        if len(n.generators) != 1:
            return None
        g = n.generators[0]
        if g.is_async or not g.ifs or not isinstance(g.target, _ast.Name) or not isinstance(n.elt, _ast.Name) or n.elt.id != g.target.id \
                or not isinstance(g.iter, _ast.Name):
            return None
        seq = st.lookup(g.iter.id)
        if not (isinstance(seq, VSeq) and seq.ekind == "ZipInfo" and seq.tag is None and z3.is_app(seq.length) and seq.length.decl().name() == "zip_n"):
            return None
        for c in g.ifs:
            for x in _ast.walk(c):
                if isinstance(x, _ast.Call) and not (isinstance(x.func, _ast.Name) and self.reg.get(f"{self.module.rel}::{x.func.id}") is not None):
                    return None
        zf = seq.length.arg(0)
        k = z3.Int(fresh_name("k!cnt"))
        probe = st.fork()
        base = len(probe.pc)
        probe.assume(z3.And(k >= 0, k < n_of(zf)))
        probe.frames.append(type(probe.frames[-1])({g.target.id: VExt("ZipInfo", info_at(zf, k))}, len(probe.frames) - 1, None))
        self.sinks.append([])
        try:
            live = [(probe, z3.BoolVal(True))]
            for c in g.ifs:
                nxt = []
                for (s1, cond) in live:
                    for (s2, v) in self.ev(c, s1):
                        nxt.append((s2, z3.And(cond, self.truth(s2, v).t)))
                live = nxt
        finally:
            raised = self.sinks.pop()
        if raised or not live:
            self.unsupported(n, "filter over the entry sequence may raise / has no value")
        keep_k = z3.BoolVal(False)
        for (s2, cond) in live:
            keep_k = z3.Or(keep_k, z3.And(s2.pc[base + 1:] + [cond]))
        keep_k = z3.simplify(keep_k)
        CNT = z3.RecFunction(fresh_name("CNT"), ZipFile, I, I)
        zv, iv = z3.Const("z!cnt", ZipFile), z3.Int("i!cnt")
        z3.RecAddDefinition(CNT, [zv, iv], z3.If(iv <= 0, 0, CNT(zv, iv - 1) + z3.If(z3.substitute(keep_k, (k, iv - 1), (zf, zv)), 1, 0)))
        b = z3.Int(fresh_name("b!cnt"))
        self.add_vc("lemma", "filtered-entry-count-within-record-count.base", [], CNT(zf, 0) == 0, loc=self.loc(n))
        self.add_vc("lemma", "filtered-entry-count-within-record-count.step", [b >= 0, CNT(zf, b) >= 0, CNT(zf, b) <= b],
                    z3.And(CNT(zf, b + 1) >= 0, CNT(zf, b + 1) <= b + 1), loc=self.loc(n))
        nz = n_of(zf)
        st.assume(z3.And(CNT(zf, nz) >= 0, CNT(zf, nz) <= nz))
        hidden = f"__c11_src_{n.lineno}_{n.col_offset}"
        st.bind(hidden, seq)
        comp = copy.deepcopy(n)
        comp.generators[0].iter = _ast.copy_location(_ast.Name(id=hidden, ctx=_ast.Load()), g.iter)

        def elem(_i):
            raise ops.Unsupported(f"{self.loc(n)} element access on a filtered entry list")
        st.ghost["c11!folds"] = st.ghost.get("c11!folds", ()) + (CNT,)
        return [(st, VSeq(CNT(zf, nz), elem, "ZipInfo", tag=("c11!filtered", comp)))]

    # -- round 7: `type(<object>).__name__` (the `source` label ZipContext hands to the guard: the name of the dynamic class, a
    #    subclass as a rule) is SOME string -- it only ever reaches messages; `type` resolved as the builtin (not shadowed).
    def e_Attribute(self, n, st):
        import ast as _ast
        from pyvc.values import VStr
        v = n.value
        if n.attr == "__name__" and isinstance(v, _ast.Call) and isinstance(v.func, _ast.Name) and v.func.id == "type" and len(v.args) == 1 \
                and not v.keywords and not isinstance(v.args[0], _ast.Starred) and st.lookup("type") is None \
                and "type" not in self.module.functions and "type" not in self.module.assigns and "type" not in self.module.imports \
                and "type" not in self.module.classes:
            return [(s2, VStr(z3.String(fresh_name("clsname")))) for (s2, _obj) in self.ev(v.args[0], st)]
        return super().e_Attribute(n, st)

    # -- round 7: a collection built from the entry-name list of a container (`set(zf.namelist())`) is total (a list of str): an
    #    abstract name collection again, not an arbitrary library call.
    def b_collection(self, st, name, args, node):
        if len(args) == 1 and isinstance(args[0], VExt) and args[0].sort == "ZipNames" and name in ("set", "frozenset", "list", "tuple"):
            return [(st, VExt("ZipNames"))]
        return super().b_collection(st, name, args, node)

    # -- round 7: `any(<comprehension over an UNKNOWN library value>)` / `all(...)` (the ODF probe scanning the parsed manifest:
    #    `any(e.tag... for e in root.iter())`) is an arbitrary library computation: some Boolean, may raise anything -- provided
    #    the comprehension cannot touch a container, a stream or any heap object: every name it loads is its own target or a
    #    local holding an unknown / scalar value, and it calls no function of the package.
    def _opaque_any(self, n, st):
        import ast as _ast
        from pyvc.values import VStr, VReal
        if not (isinstance(n.func, _ast.Name) and n.func.id in ("any", "all") and len(n.args) == 1 and not n.keywords
                and isinstance(n.args[0], (_ast.GeneratorExp, _ast.ListComp)) and st.lookup(n.func.id) is None
                and n.func.id not in self.module.functions and n.func.id not in self.module.assigns and n.func.id not in self.module.imports):
            return None
        comp = n.args[0]
        if len(comp.generators) != 1 or comp.generators[0].is_async:
            return None
        g = comp.generators[0]
        root = g.iter
        while isinstance(root, (_ast.Attribute, _ast.Call)):
            if isinstance(root, _ast.Call):
                if root.args or root.keywords:
                    return None
                root = root.func
            else:
                root = root.value
        if not (isinstance(root, _ast.Name) and isinstance(st.lookup(root.id), VUnk)):
            return None
        own = {x.id for x in _ast.walk(g.target) if isinstance(x, _ast.Name)}
        for part in [comp.elt] + list(g.ifs):
            for x in _ast.walk(part):
                if isinstance(x, (_ast.Lambda, _ast.NamedExpr, _ast.Await, _ast.Yield, _ast.YieldFrom, _ast.GeneratorExp, _ast.ListComp,
                                  _ast.SetComp, _ast.DictComp)):
                    return None
                if isinstance(x, _ast.Name) and x.id not in own:
                    v = st.lookup(x.id)
                    if v is None and self._immutable_module_literal(x.id):
                        continue       # round 8: a literal hoisted into a module constant (`_TAG = "encryption-data"`)
                    if not isinstance(v, (VUnk, VInt, VBool, VStr, VReal, VNoneT)):
                        return None
        outs = []
        for (s2, it) in self.ev(g.iter, st):
            if not isinstance(it, VUnk):
                self.unsupported(n, "any()/all() over a library value that is not unknown")
            self.exc_any(s2.fork(), f"{self.loc(n)} {n.func.id}(<scan of an unknown library value>)")
            outs.append((s2, VBool(z3.Bool(fresh_name(n.func.id)))))
        return outs

    # -- round 8: a module-level name of the module under execution whose ONLY binding is `NAME = <literal>` with an immutable
    #    literal value (str / bytes / number / bool / None, tuples of those): not a parameter or local, not a function / class /
    #    import, never declared `global` in a function, no `globals()` / `setattr` / `exec` reflection in the module.  Loading it
    #    cannot touch a container, a stream or a heap object, whatever its value.
    def _immutable_module_literal(self, name):
        import ast as _ast
        mod = self.module
        if name in mod.functions or name in mod.classes or name in mod.imports or name not in mod.assigns:
            return False
        if (mod.rel, name) in self.reg.module_consts:
            return False
        if self.global_writers(name) or getattr(mod, "_greflect", False):
            return False
        stores = 0
        for x in _ast.walk(mod.tree):
            if isinstance(x, _ast.Name) and x.id == name and not isinstance(x.ctx, _ast.Load):
                stores += 1
            elif isinstance(x, (_ast.arg,)) and x.arg == name:
                return False
            elif isinstance(x, _ast.alias) and (x.asname or x.name.split(".")[0]) == name:
                return False
        if stores != 1:
            return False
        try:
            pyv = _ast.literal_eval(mod.assigns[name])
        except (ValueError, SyntaxError, TypeError, MemoryError, RecursionError):
            return False

        def flat(v, depth=0):
            if v is None or isinstance(v, (str, bytes, bool, int, float)):
                return True
            return isinstance(v, tuple) and depth < 3 and all(flat(y, depth + 1) for y in v)
        return flat(pyv)

    # -- round 8: the builtin `format(x)` with ONE argument is by definition what the f-string field `{x}` evaluates
    #    (`format(x, "")`): it gets the engine's f-string semantics instead of "unmodelled call, may raise anything", so a message
    #    written as `"[" + format(source) + "]"` reads like the f-string it replaces.
    def _format_one(self, n, st):
        import ast as _ast
        if not (isinstance(n.func, _ast.Name) and n.func.id == "format" and len(n.args) == 1 and not n.keywords
                and not isinstance(n.args[0], _ast.Starred) and st.lookup("format") is None
                and "format" not in self.module.functions and "format" not in self.module.assigns
                and "format" not in self.module.imports and "format" not in self.module.classes):
            return None
        js = _ast.JoinedStr(values=[_ast.FormattedValue(value=n.args[0], conversion=-1, format_spec=None)])
        _ast.copy_location(js, n)
        _ast.copy_location(js.values[0], n)
        return self.ev(js, st)

    def e_Call(self, n, st):
        try:
            r = self._upfront_sum(n, st)
            if r is None:
                r = self._opaque_any(n, st)
            if r is None:
                r = self._format_one(n, st)
        except ops.Unsupported:
            raise
        except Exception as e:  # noqa -- not a shape read here: the engine decides
            r = None
        if r is not None:
            return r
        return super().e_Call(n, st)

    # -- round 7: vacuity guard.  A contract of the consumer modules (C11_ctx) applied at a call site that leaves NO normal outcome
    #    (its assumed postcondition is infeasible there: e.g. a helper called before the class invariant holds) would make
    #    everything after the call vacuously true: the caller is OUT-OF-SUBSET instead (native replay decides).
    def apply_contract(self, st, c, args, kwargs, node, cl_frame=None):
        r = super().apply_contract(st, c, args, kwargs, node, cl_frame)
        if not r:
            from contracts import C11_ctx
            if c.target.split("::")[0] in (C11_ctx.ZC, C11_ctx.ZU, C11_ctx.ENC):
                raise ops.Unsupported(f"{self.loc(node)} contract of {c.target.split('::')[-1]} leaves no normal outcome at this call")
        return r

    def mutated_refs(self, stmts, st):
        refs = super().mutated_refs(stmts, st)
        frozen = self._frozen_classes()
        keep = set()
        for r in refs:
            o = st.heap.get(r)
            if o is not None and o.kind == "obj" and o.cls in frozen:
                continue
            keep.add(r)
        return keep


EXECUTOR = C11Executor

EXTRA = [policy, propagation, configuration]

TRUSTED = ["zipfile.ZipFile.infolist()/ZipInfo fields present the central directory (assumed view)"]
ASSUMED_MODELS = ["zipfile.ZipFile (constructor, infolist, close, context manager)", "zipfile.ZipInfo.file_size/compress_size/is_dir",
                  "io.BytesIO.tell/seek",
                  "zipfile.ZipFile.read/open/getinfo/extract/extractall/testzip (member access: result unknown, KeyError for a missing "
                  "member, may raise anything; its PRECONDITION `container accepted under the configured limits and open` is proved at "
                  "every call: call-pre#member-access-on-accepted-open-container)",
                  "zipfile.ZipFile.namelist (total on an open container, abstract name collection; same proved precondition)",
                  "zipfile.is_zipfile (total, some Boolean, moves the stream)"]
ASSUMPTIONS = ["PY-INT", "PY-FLOAT-REAL: size ratios compared over the reals", "PY-EXC / EXC-ANY for library calls",
               "ZipInfo sizes are non-negative integers", "configured total-size limit is non-negative",
               "policy obligations (zipfile constructor sites, validate-before-read) are decided by an interprocedural must-dataflow analysis "
               "(back end 'dataflow'; summaries for helpers, private helpers analysed in place); a fact the analysis cannot establish is "
               "`unknown` and goes to the native event monitor (replay/C11.py), only a recognised bad shape is `refuted`"]

ASSUMPTIONS += ["round 7: ZipContext.__init__ / read_bytes / open_stream / read_xml_root / read_text / close, zip_utils.read_zip_text / "
                "read_zip_xml_root and encryption.is_odf_encrypted are verified on their real bodies (class invariant `the kept handle is an "
                "open container the guard accepted under the configured limits`); the ZipContext SUBCLASSES, xlsx_extractor.read_xlsx and the "
                "extractor bodies are still covered only by the must-dataflow typestate + native event monitor (not deductive)",
                "`type(obj).__name__` is some string; `any()/all()` over an unknown library value that touches no container is some Boolean "
                "and may raise anything (pack executor, round 7)"]

REPLAY_UNKNOWN = True    # undecided / out-of-subset items are searched natively (replay) before being reported UNDECIDED
