"""C11 -- ZIP-container bomb guard decides exactly and runs before any read.

Contracts on sharepoint2text/parsing/extractors/util/zip_bomb.py.  The spec
predicate `spec_reject` is written from the property statement, not from the
code: entry count, single size, total size, per-entry ratio, total ratio,
non-empty entry with zero compressed size; directory entries ignored.
"""
import z3

from pyvc.contracts import FnContract, LoopSpec, Raises
from pyvc.values import VBool, VExt, VFunc, VInt, VSeq, VUnk, ext_sort
from pyvc.verify import p_ext, p_obj, p_int, p_real, p_opt, p_str
from pyvc import ops
from pyvc.values import NONE, fresh_name
from contracts import common

ZB = "sharepoint2text/parsing/extractors/util/zip_bomb.py"

ZipFile = ext_sort("ZipFile")
ZipInfo = ext_sort("ZipInfo")
I, R, B = z3.IntSort(), z3.RealSort(), z3.BoolSort()

# abstract container view (assumed contract of zipfile): infolist() is a finite
# sequence of ZipInfo; each has integer sizes and a directory flag.
n_of = z3.Function("zip_n", ZipFile, I)
info_at = z3.Function("zip_info", ZipFile, I, ZipInfo)
fs = z3.Function("file_size", ZipInfo, I)
cs = z3.Function("compress_size", ZipInfo, I)
isdir = z3.Function("is_dir", ZipInfo, B)

SU = z3.RecFunction("SU", ZipFile, I, I)   # uncompressed total of non-directory entries [0, i)
SC = z3.RecFunction("SC", ZipFile, I, I)
_z, _i = z3.Const("z", ZipFile), z3.Int("i")
z3.RecAddDefinition(SU, [_z, _i], z3.If(_i <= 0, 0, SU(_z, _i - 1) + z3.If(isdir(info_at(_z, _i - 1)), 0, fs(info_at(_z, _i - 1)))))
z3.RecAddDefinition(SC, [_z, _i], z3.If(_i <= 0, 0, SC(_z, _i - 1) + z3.If(isdir(info_at(_z, _i - 1)), 0, cs(info_at(_z, _i - 1)))))


def entry_bad(e, L):
    """Property statement, per non-directory entry."""
    f, c = fs(e), cs(e)
    return z3.And(z3.Not(isdir(e)),
                  z3.Or(f > L["single"],
                        z3.And(f > 0, z3.Or(c <= 0, z3.ToReal(f) / z3.ToReal(c) > L["entry_ratio"]))))


def spec_reject(zf, L):
    n = n_of(zf)
    j = z3.Int("j!spec")
    tu, tc = SU(zf, n), SC(zf, n)
    return z3.Or(
        n > L["max_entries"],
        z3.Exists([j], z3.And(j >= 0, j < n, entry_bad(info_at(zf, j), L))),
        tu > L["total"],
        z3.And(tu > 0, z3.Or(tc <= 0, z3.ToReal(tu) / z3.ToReal(tc) > L["total_ratio"])),
    )


def limits_of(c, st=None):
    st = st or c.st
    d = st.obj(c.args["limits"].ref).data
    return {"max_entries": d["max_entries"].t, "total": d["max_total_uncompressed_bytes"].t,
            "single": d["max_single_uncompressed_bytes"].t,
            "total_ratio": d["max_total_compression_ratio"].t, "entry_ratio": d["max_entry_compression_ratio"].t}


def contrib(zf, a):
    e = info_at(zf, a)
    return z3.If(isdir(e), 0, fs(e))


def mono_lemma(zf, upto=None):
    """Every prefix total is at most the grand total: SU(a+1) <= SU(n) for
    0 <= a < n (needs file sizes >= 0).  Stated with SU(a+1) unfolded so that
    the trigger SU(zf, a) fires on the loop invariant's term.  Proved by the
    induction schema in `lemmas()`, then used as a hypothesis."""
    a = z3.Int("a!m")
    b = n_of(zf) if upto is None else upto
    return z3.ForAll([a], z3.Implies(z3.And(0 <= a, a < b), SU(zf, a) + contrib(zf, a) <= SU(zf, b)),
                     patterns=[SU(zf, a)])


def sizes_nonneg(zf):
    j = z3.Int("j!nn")
    return z3.ForAll([j], z3.Implies(z3.And(j >= 0, j < n_of(zf)), fs(info_at(zf, j)) >= 0),
                     patterns=[info_at(zf, j)])


def requires(c):
    zf = c.args["zf"].t
    L = limits_of(c, c.entry)
    return z3.And(n_of(zf) >= 0, sizes_nonneg(zf), L["total"] >= 0)


def entry_loop_roles():
    """(engine loop ordinal, {"file_size": local, "compress_size": local}) of the entry loop of the REAL validate_zipfile, the
    accumulators bound by role from the data flow (contracts/C11_roles.py); (0, reason) when the roles cannot be read off."""
    import ast as _ast
    from pyvc import loader
    from contracts import C11_roles
    try:
        m = loader.module(ZB)
        _k, lp, roles = C11_roles.loop_ordinal_and_roles(m, "validate_zipfile")
        fnode = m.functions["validate_zipfile"]
        loops = sorted((n for n in _ast.walk(fnode) if isinstance(n, (_ast.For, _ast.While))), key=lambda n: (n.lineno, n.col_offset))
        return loops.index(lp), roles
    except LookupError as e:
        return 0, str(e)
    except (OSError, SyntaxError, KeyError) as e:
        return 0, f"{type(e).__name__}: {e}"


def make_loop_inv(roles):
    def inv(lc):
        if not isinstance(roles, dict):
            from pyvc.symex import Unsupported
            raise Unsupported(f"running totals of the entry loop not identified: {roles}")
        return loop_inv(lc, roles)
    return inv


def loop_inv(lc, roles):
    zf = lc.entry.lookup("zf").t
    Ld = lc.entry.obj(lc.entry.lookup("limits").ref).data
    L = {"total": Ld["max_total_uncompressed_bytes"].t, "single": Ld["max_single_uncompressed_bytes"].t,
         "entry_ratio": Ld["max_entry_compression_ratio"].t}
    i = lc.i
    j = z3.Int("j!inv")
    return z3.And(
        ops.int_term(lc[roles["file_size"]]) == SU(zf, i),          # the local that accumulates file_size (bound by role)
        ops.int_term(lc[roles["compress_size"]]) == SC(zf, i),     # the local that accumulates compress_size
        SU(zf, i) <= L["total"],
        z3.ForAll([j], z3.Implies(z3.And(j >= 0, j < i), z3.Not(entry_bad(info_at(zf, j), L))),
                  patterns=[info_at(zf, j)]),
    )


# ------------------------------------------------------ assumed library view --
def m_infolist(ex, st, obj, args, kwargs, node):
    """zipfile.ZipFile.infolist(): ASSUMED to return the finite entry sequence,
    or to raise anything (EXC-ANY) -- ghost `infolist_failed` marks that path."""
    bad = st.fork()
    bad.ghost["infolist_failed"] = True
    ex.exc_any(bad, f"{ex.loc(node)} ZipFile.infolist")
    zf = obj.t
    return [(st, VSeq(n_of(zf), lambda i: VExt("ZipInfo", info_at(zf, i)), "ZipInfo"))]


def new_zipfile(ex, st, args, kwargs, node):
    """zipfile.ZipFile(file_like, 'r'): ASSUMED -- raises anything or returns a
    container view with n >= 0 entries of non-negative sizes; moves the stream."""
    ex.exc_any(st.fork(), f"{ex.loc(node)} zipfile.ZipFile()")
    zf = VExt("ZipFile")
    st.assume(z3.And(n_of(zf.t) >= 0, sizes_nonneg(zf.t)))
    src = args[0] if args else None
    if isinstance(src, VExt) and src.sort == "BytesIO":
        t = z3.Int(fresh_name("pos"))
        st.assume(t >= 0)
        st.ghost[common.pos_key(src)] = t
    st.ghost["open_zips"] = st.ghost.get("open_zips", frozenset()) | {zf.t.get_id()}
    return [(st, zf)]


def _fresh_open_zip(ex, st, ctx):
    zf = VExt("ZipFile")
    st.assume(z3.And(n_of(zf.t) >= 0, sizes_nonneg(zf.t)))
    st.ghost["open_zips"] = st.ghost.get("open_zips", frozenset()) | {zf.t.get_id()}
    src = ctx.args.get("file_like")
    if isinstance(src, VExt) and src.sort == "BytesIO":
        t = z3.Int(fresh_name("pos"))
        st.assume(t >= 0)
        st.ghost[common.pos_key(src)] = t
    return zf


def m_close(ex, st, obj, args, kwargs, node):
    st.ghost["open_zips"] = st.ghost.get("open_zips", frozenset()) - {obj.t.get_id()}
    return [(st, NONE)]


def with_zip(ex, st, cm, phase):
    if phase == "enter":
        return [(st, cm)]
    st.ghost["open_zips"] = st.ghost.get("open_zips", frozenset()) - {cm.t.get_id()}


def install_models(reg):
    common.install_bytesio(reg)
    reg.ext_models[("new", "zipfile.ZipFile")] = new_zipfile
    reg.ext_models[("with", "ZipFile")] = with_zip
    reg.method_models[("ZipFile", "close")] = m_close
    reg.method_models[("ZipFile", "infolist")] = m_infolist
    reg.attr_models[("ZipInfo", "file_size")] = lambda ex, st, o: VInt(fs(o.t))
    reg.attr_models[("ZipInfo", "compress_size")] = lambda ex, st, o: VInt(cs(o.t))
    reg.attr_models[("ZipInfo", "is_dir")] = lambda ex, st, o: VFunc("bound", o, "is_dir")
    reg.method_models[("ZipInfo", "is_dir")] = lambda ex, st, o, a, k, n: [(st, VBool(isdir(o.t)))]


LIMITS = p_obj("ZipBombLimits", {
    "max_entries": p_int(), "max_total_uncompressed_bytes": p_int(), "max_single_uncompressed_bytes": p_int(),
    "max_total_compression_ratio": p_real(), "max_entry_compression_ratio": p_real()})


def contracts(reg):
    install_models(reg)
    out = []
    loop_k, roles = entry_loop_roles()
    out.append(FnContract(
        target=f"{ZB}::_is_directory",
        params=[("info", p_ext("ZipInfo"))],
        returns=lambda c: VBool(isdir(c.args["info"].t)),
        note="directory flag of the entry (ZipInfo.is_dir() assumed to exist: Python >= 3.6)",
    ))
    out.append(FnContract(
        target=f"{ZB}::validate_zipfile",
        params=[("zf", p_ext("ZipFile")), ("limits", LIMITS), ("source", p_opt(p_str()))],
        requires=requires,
        hyps=lambda c: mono_lemma(c.args["zf"].t),
        ensures=[("accepts-only-if-not-spec_reject", lambda c: z3.Not(spec_reject(c.args["zf"].t, limits_of(c))))],
        raises=[Raises("ExtractionZipBombError",
                       when=lambda c: z3.Or(z3.BoolVal(bool(c.st.ghost.get("infolist_failed"))),
                                            spec_reject(c.args["zf"].t, limits_of(c))))],
        loops={loop_k: LoopSpec(inv=make_loop_inv(roles), label="entries")},
    ))
    def pos_restored(c):
        return common.bytesio_pos(c.st, c.args["file_like"]) == common.bytesio_pos(c.entry, c.args["file_like"])

    def lim_req(c):
        return limits_of(c, c.entry)["total"] >= 0

    def pos_entry(c):
        # materialise the ghost stream position (>= 0) in the current state and share it with the entry snapshot
        t = common.bytesio_pos(c.st, c.args["file_like"])
        c.entry.ghost[common.pos_key(c.args["file_like"])] = t
        return lim_req(c)

    out.append(FnContract(
        target=f"{ZB}::validate_zip_bytesio",
        params=[("file_like", p_ext("BytesIO")), ("limits", LIMITS), ("source", p_opt(p_str()))],
        requires=pos_entry,
        ensures=[("position-restored", pos_restored),
                 ("no-container-left-open", lambda c: z3.BoolVal(not c.st.ghost.get("open_zips")))],
        raises=[Raises("Exception", sub=True, label="any failure, position restored, container closed",
                       when=lambda c: z3.And(pos_restored(c), z3.BoolVal(not c.st.ghost.get("open_zips"))))],
        modifies=("file_like",),
    ))
    out.append(FnContract(
        target=f"{ZB}::open_zipfile",
        params=[("file_like", p_ext("BytesIO")), ("limits", LIMITS), ("source", p_opt(p_str()))],
        requires=lim_req,
        ensures=[("returned-container-validated", lambda c: z3.Not(spec_reject(c.result.t, limits_of(c)))),
                 ("returned-container-open", lambda c: z3.BoolVal(c.st.ghost.get("open_zips") == frozenset({c.result.t.get_id()})))],
        raises=[Raises("Exception", sub=True, label="closed on failure",
                       when=lambda c: z3.BoolVal(not c.st.ghost.get("open_zips")))],
        result_maker=_fresh_open_zip,
        modifies=("file_like",),
    ))
    return out


def lemmas():
    """Induction schema for mono_lemma: P(b) := forall a in [0,b). SU(a)+contrib(a) <= SU(b).
    Base P(0) and step P(b) => P(b+1) (0 <= b < n), under sizes_nonneg."""
    zf = z3.Const("zf!lemma", ZipFile)
    b = z3.Int("b!lemma")
    hyp = [n_of(zf) >= 0, sizes_nonneg(zf)]
    return [
        ("C11/zip_bomb.py::spec/lemma#prefix-total-monotone.base", hyp, mono_lemma(zf, z3.IntVal(0))),
        ("C11/zip_bomb.py::spec/lemma#prefix-total-monotone.step", hyp + [b >= 0, b < n_of(zf), mono_lemma(zf, b)],
         mono_lemma(zf, b + 1)),
    ]


# ------------------------------------------------------- policy / typestate --
ALLOWED_ZIPFILE_CTOR = {"sharepoint2text/parsing/extractors/util/zip_bomb.py",
                        "sharepoint2text/parsing/extractors/archive_extractor.py"}


def canonical_call(mod, call):
    """Dotted origin of a call target using the module's import table."""
    import ast as _ast
    from pyvc.flow import dotted
    d = dotted(call.func)
    if not d:
        return ""
    head, _, rest = d.partition(".")
    origin = mod.imports.get(head)
    if origin:
        return origin + ("." + rest if rest else "")
    return d


def policy(repo, tier):
    import ast as _ast
    from pyvc import loader
    from pyvc.flow import MustFacts, ground_obligation, dotted
    obls, fns = [], []
    files = loader.all_package_files(repo)
    mods = {f: loader.module(f, repo) for f in files}
    # P1: the only constructors of zipfile containers live in zip_bomb.py / archive_extractor.py
    bad = []
    n_sites = 0
    for f, m in mods.items():
        for call in (n for n in _ast.walk(m.tree) if isinstance(n, _ast.Call)):
            c = canonical_call(m, call)
            if c.startswith("zipfile.") and c.split(".")[1] in ("ZipFile", "PyZipFile", "Path") or c == "shutil.unpack_archive":
                n_sites += 1
                if f not in ALLOWED_ZIPFILE_CTOR:
                    bad.append(f"{f}:{call.lineno} {c}")
    obls.append(ground_obligation("C11/package/policy#zipfile-constructed-only-in-guard-and-archive-modules",
                                  not bad and n_sites >= 1, "; ".join(bad) or f"{n_sites} sites", "package"))
    # P2: ZipContext family: the container handle comes from open_zipfile, before any member access
    zc = mods["sharepoint2text/parsing/extractors/util/zip_context.py"]
    cls = zc.classes.get("ZipContext")
    ok, why = True, []
    if cls is None:
        ok, why = False, ["ZipContext missing"]
    else:
        init = zc.functions.get("ZipContext.__init__")
        assigns = [n for n in _ast.walk(cls) if isinstance(n, _ast.Assign) and any(
            isinstance(t, _ast.Attribute) and t.attr == "_zip" for t in n.targets)]
        for a_ in assigns:
            src = canonical_call(zc, a_.value) if isinstance(a_.value, _ast.Call) else ""
            if not src.endswith("zip_bomb.open_zipfile"):
                ok = False
                why.append(f"_zip assigned from {_ast.unparse(a_.value)} at line {a_.lineno}")
        if not assigns:
            ok = False
            why.append("no assignment of _zip")
        if init is not None:
            mf = MustFacts(
                gen=lambda call: (),
                need=lambda n: [("validated", f"line {n.lineno}")] if isinstance(n, _ast.Call) and isinstance(n.func, _ast.Attribute)
                and _ast.unparse(n.func.value) == "self._zip" else [])
            # the assignment statement generates the fact: model it via gen on the open_zipfile call
            mf.gen = lambda call: ["validated"] if canonical_call(zc, call).endswith("zip_bomb.open_zipfile") else []
            for r in mf.run(init):
                if not r.ok:
                    ok = False
                    why.append(f"member access before validation in __init__ {r.desc}")
        # other methods may only use self._zip (created validated); nothing else opens containers (P1)
    fns.append(dict(zc.fn_info("ZipContext.__init__"), obligations=1) if cls is not None else {})
    obls.append(ground_obligation("C11/zip_context.py::ZipContext/typestate#handle-from-open_zipfile-before-any-access",
                                  ok, "; ".join(why), "zip_context.py"))
    # P3: subclasses of ZipContext do not bypass __init__
    fam = {"ZipContext"}
    changed = True
    classes = []
    while changed:
        changed = False
        for f, m in mods.items():
            for cname, cnode in m.classes.items():
                bases = {_ast.unparse(b).split(".")[-1] for b in cnode.bases}
                if bases & fam and cname not in fam:
                    fam.add(cname)
                    classes.append((f, m, cname, cnode))
                    changed = True
    bad = []
    for f, m, cname, cnode in classes:
        init = m.functions.get(f"{cname}.__init__")
        if init is None:
            continue
        first_calls = [n for n in _ast.walk(init) if isinstance(n, _ast.Call)]
        sup = [n for n in first_calls if _ast.unparse(n.func) in ("super().__init__", "ZipContext.__init__", "OOXMLZipContext.__init__")]
        if not sup:
            bad.append(f"{f}:{cname}.__init__ does not call super().__init__")
            continue
        mf = MustFacts(gen=lambda call: ["validated"] if _ast.unparse(call.func) in ("super().__init__", "ZipContext.__init__", "OOXMLZipContext.__init__") else [],
                       need=lambda n: [("validated", f"{cname} line {n.lineno}")] if isinstance(n, _ast.Call) and isinstance(n.func, _ast.Attribute)
                       and (_ast.unparse(n.func.value) in ("self._zip",) or (_ast.unparse(n.func.value) == "self" and n.func.attr in
                            ("read_xml_root", "read_text", "read_bytes", "open_stream", "exists"))) else [])
        for r in mf.run(init):
            if not r.ok:
                bad.append(f"{f}:{r.desc} uses the container before super().__init__")
        # overriding the handle
        for n in _ast.walk(cnode):
            if isinstance(n, _ast.Assign) and any(isinstance(t, _ast.Attribute) and t.attr == "_zip" for t in n.targets):
                bad.append(f"{f}:{cname} reassigns _zip at line {n.lineno}")
    obls.append(ground_obligation("C11/package/typestate#ZipContext-subclasses-initialise-through-validated-base",
                                  not bad and len(classes) >= 6, "; ".join(bad) or f"{len(classes)} subclasses: {sorted(c[2] for c in classes)}", "package"))
    # P4: openpyxl.load_workbook only on bytes that passed validate_zip_bytesio (same variable, not reassigned)
    def bytes_key(arg):
        if isinstance(arg, _ast.Call) and dotted(arg.func) in ("io.BytesIO", "BytesIO") and arg.args:
            return _ast.unparse(arg.args[0])
        return _ast.unparse(arg)
    bad, n_live, n_dead = [], 0, 0
    for f, m in mods.items():
        callers = {}
        for q, fnode in m.functions.items():
            uses = [n for n in _ast.walk(fnode) if isinstance(n, _ast.Call) and canonical_call(m, n).endswith("load_workbook")
                    and not any(n in list(_ast.walk(inner)) for qq, inner in m.functions.items() if qq != q and qq.startswith(q + "."))]
            if not uses:
                continue
            mf = MustFacts(
                gen=lambda call: [("validated", bytes_key(call.args[0]))] if canonical_call(m, call).endswith("zip_bomb.validate_zip_bytesio") and call.args else [],
                need=lambda n: [(("validated", bytes_key(n.args[0])), f"{f}:{n.lineno}")] if isinstance(n, _ast.Call)
                and canonical_call(m, n).endswith("load_workbook") and n.args else [],
                kill_names=lambda fact: [fact[1]] if isinstance(fact, tuple) else [])
            res = mf.run(fnode)
            undominated = [r for r in res if not r.ok]
            if not undominated:
                n_live += len(res)
                continue
            # the function itself must then only be reachable after validation: require no call sites at all
            name = q.split(".")[-1]
            sites = []
            for f2, m2 in mods.items():
                for n in _ast.walk(m2.tree):
                    if isinstance(n, _ast.Call) and dotted(n.func).split(".")[-1] == name:
                        modpath = f[:-3].replace("/", ".")
                        if f2 == f or canonical_call(m2, n).startswith(modpath):
                            sites.append(f"{f2}:{n.lineno}")
            if sites:
                bad.append(f"{undominated[0].desc} load_workbook not dominated by validate_zip_bytesio; {q} is called at {sites}")
            else:
                n_dead += len(undominated)
    obls.append(ground_obligation("C11/xlsx_extractor.py::load_workbook/typestate#validated-before-openpyxl-reads",
                                  not bad and n_live >= 1, "; ".join(bad) or f"{n_live} dominated site(s), {n_dead} site(s) in functions without call sites", "xlsx_extractor.py"))
    # P5: the ODF encryption probe reads the manifest through open_zipfile
    enc = mods["sharepoint2text/parsing/extractors/util/encryption.py"]
    fn = enc.functions.get("is_odf_encrypted")
    ok = False
    why = "is_odf_encrypted missing"
    if fn is not None:
        withs = [n for n in _ast.walk(fn) if isinstance(n, _ast.With)]
        reads = [n for n in _ast.walk(fn) if isinstance(n, _ast.Call) and isinstance(n.func, _ast.Attribute) and n.func.attr in ("read", "open")]
        ok = bool(reads) and all(any(r in list(_ast.walk(w)) and isinstance(w.items[0].context_expr, _ast.Call)
                                     and canonical_call(enc, w.items[0].context_expr).endswith("zip_bomb.open_zipfile")
                                     and _ast.unparse(r.func.value) == _ast.unparse(w.items[0].optional_vars) for w in withs) for r in reads)
        why = f"{len(reads)} member read(s)"
        fns.append(dict(enc.fn_info("is_odf_encrypted"), obligations=1))
    obls.append(ground_obligation("C11/encryption.py::is_odf_encrypted/typestate#manifest-read-through-open_zipfile", ok, why, "encryption.py"))
    return {"obligations": obls, "functions": [f for f in fns if f]}


# ------------------------------------------------- zip-bomb error propagation --
ZBERR = "ExtractionZipBombError"


def propagation(repo, tier):
    """"...it is rejected with the zip-bomb error": at every call site of a function that can raise ExtractionZipBombError
    (validate_zipfile and, transitively, every package function a bomb error propagates out of: open_zipfile, validate_zip_bytesio,
    the ZipContext family constructors, is_odf_encrypted, the read_* extractors) the exception leaves the calling function
    unchanged: every enclosing `try` whose handler list catches it (ExtractionZipBombError, a base class, or a bare except)
    re-raises it as it is.  Exceptional postcondition per call site, decided by AST dominance over the handler lists
    (class hierarchy from the real exception module); callee resolution is by defining / imported module."""
    import ast as _ast
    from pyvc import loader
    from pyvc.exctypes import Universe
    from pyvc.flow import dotted, ground_obligation
    uni = Universe(repo)
    files = [f for f in loader.all_package_files(repo) if "/tests/" not in f]
    mods = {f: loader.module(f, repo) for f in files}
    by_modpath = {f[:-3].replace("/", "."): f for f in files}

    def resolve(m, f, name):
        """(file, name) of the definition a bare / imported name refers to in module m."""
        if name in m.functions or name in m.classes:
            return (f, name)
        origin = m.imports.get(name)
        if origin:
            modpath, _, nm = origin.rpartition(".")
            if modpath in by_modpath:
                return (by_modpath[modpath], nm)
        return None

    bomb = {(ZB, "validate_zipfile")}

    def class_is_bomb(f, cname, seen=()):
        m = mods[f]
        c = m.classes.get(cname)
        if c is None or (f, cname) in seen:
            return False
        if (f, cname + ".__init__") in bomb:
            return True
        if f"{cname}.__init__" in m.functions:
            return False
        for b in c.bases:
            r = resolve(m, f, _ast.unparse(b).split(".")[-1])
            if r and class_is_bomb(r[0], r[1], seen + ((f, cname),)):
                return True
        return False

    def catches(h):
        if h.type is None:
            return True
        for t in (h.type.elts if isinstance(h.type, _ast.Tuple) else [h.type]):
            n = _ast.unparse(t).split(".")[-1]
            if n in ("BaseException", "Exception") or (uni.known(n) and uni.is_subclass(ZBERR, n)):
                return True
        return False

    def reraises(h):
        raises = [n for b in h.body for n in _ast.walk(b) if isinstance(n, _ast.Raise)]
        if not raises or not isinstance(h.body[-1], _ast.Raise):
            return False
        for r in raises:
            if r.exc is None:
                continue
            if h.name and isinstance(r.exc, _ast.Name) and r.exc.id == h.name and r.cause is None:
                continue
            return False
        return True

    def verdict(fn, call):
        path = []

        def find(node, stack):
            for ch in _ast.iter_child_nodes(node):
                if ch is call:
                    path.extend(stack + [node])
                    return True
                if isinstance(ch, (_ast.FunctionDef, _ast.AsyncFunctionDef, _ast.Lambda)):
                    continue
                if find(ch, stack + [node]):
                    return True
            return False
        find(fn, [])
        tries = []
        for i, n in enumerate(path):
            if isinstance(n, _ast.Try):
                nxt = path[i + 1] if i + 1 < len(path) else call
                if any(nxt is b or any(nxt is x for x in _ast.walk(b)) for b in n.body):
                    tries.append(n)
                elif any(nxt is b or any(nxt is x for x in _ast.walk(b)) for b in n.finalbody) or True:
                    pass
        for t in reversed(tries):
            for h in t.handlers:
                if catches(h):
                    if reraises(h):
                        break
                    return f"line {h.lineno}: `except {_ast.unparse(h.type) if h.type else ''}` converts or swallows the zip-bomb error raised at line {call.lineno}"
            if any(isinstance(x, _ast.Return) for b in t.finalbody for x in _ast.walk(b)):
                return f"line {t.lineno}: `finally` returns, which discards the zip-bomb error raised at line {call.lineno}"
        return None

    results = {}
    changed = True
    while changed:
        changed = False
        for f, m in mods.items():
            for q, fn in m.functions.items():
                own_calls = []
                stack = list(_ast.iter_child_nodes(fn))
                while stack:
                    n = stack.pop()
                    if isinstance(n, (_ast.FunctionDef, _ast.AsyncFunctionDef, _ast.Lambda)):
                        continue
                    if isinstance(n, _ast.Call):
                        own_calls.append(n)
                    stack.extend(_ast.iter_child_nodes(n))
                for call in own_calls:
                    d = dotted(call.func) or ""
                    target = None
                    is_super_init = isinstance(call.func, _ast.Attribute) and call.func.attr == "__init__" and isinstance(call.func.value, _ast.Call) \
                        and dotted(call.func.value.func) == "super"
                    if is_super_init and "." in q:
                        c = m.classes.get(q.split(".")[0])
                        for b in (c.bases if c is not None else []):
                            r = resolve(m, f, _ast.unparse(b).split(".")[-1])
                            if r and class_is_bomb(r[0], r[1]):
                                target = (r[0], r[1])
                    elif d and "." not in d:
                        r = resolve(m, f, d)
                        if r and (r in bomb or class_is_bomb(r[0], r[1])):
                            target = r
                    elif d:
                        head, _, rest = d.partition(".")
                        origin = m.imports.get(head)
                        if origin and "." not in rest and origin in by_modpath and (by_modpath[origin], rest) in bomb:
                            target = (by_modpath[origin], rest)
                    if target is None:
                        continue
                    v = verdict(fn, call)
                    results[(f, q, call.lineno, call.col_offset)] = (target, v)
                    if v is None and (f, q) not in bomb:
                        bomb.add((f, q))
                        changed = True
    obls = []
    ordinals = {}
    for (f, q, line, _col), (target, v) in sorted(results.items()):
        k = ordinals.get((f, q, target[1]), 0)
        ordinals[(f, q, target[1])] = k + 1
        obls.append(ground_obligation(f"C11/{f.split('/')[-1]}::{q}/exc-ensures#zip-bomb-error-of-{target[1]}@{k}-propagates-unchanged",
                                      v is None, v or f"line {line}", f"{f}:{line}", kind="exc-ensures"))
    readers = sorted(q for (f, q) in bomb if q.startswith("read_"))
    obls.append(ground_obligation("C11/package/exc-ensures#every-zip-container-extractor-is-reached-by-the-zip-bomb-error",
                                  len(readers) >= 8 and len(obls) >= 20, f"{len(obls)} call sites; extractors: {readers}", "package", kind="exc-ensures", definite=False))
    return {"obligations": obls, "functions": []}


EXTRA = [policy, propagation]

TRUSTED = ["zipfile.ZipFile.infolist()/ZipInfo fields present the central directory (assumed view)"]
ASSUMED_MODELS = ["zipfile.ZipFile (constructor, infolist, close, context manager)", "zipfile.ZipInfo.file_size/compress_size/is_dir",
                  "io.BytesIO.tell/seek"]
ASSUMPTIONS = ["PY-INT", "PY-FLOAT-REAL: size ratios compared over the reals", "PY-EXC / EXC-ANY for library calls",
               "ZipInfo sizes are non-negative integers", "configured total-size limit is non-negative",
               "policy obligations (zipfile constructor sites, validate-before-read) are decided by AST dominance analysis (back end 'dataflow')"]

REPLAY_UNKNOWN = True    # undecided / out-of-subset items are searched natively (replay) before being reported UNDECIDED
