"""C17 -- removed markup is removed completely and takes nothing else with it.

Functions under contract (real AST, re-read each run):
  html_extractor._HtmlTreeBuilder.__init__/handle_starttag/handle_endtag/handle_data/handle_comment/get_tree
  epub_extractor._XhtmlTextExtractor.__init__/handle_starttag/handle_endtag/handle_data/get_text (get_text: round 7)
  mhtml_extractor._find_html_part/_decode_content (round 7, abstract MIME view: contracts/C17_glue.py), _extract_from_mhtml, read_mhtml;
  html_extractor.read_html, msg_email_extractor._looks_like_html/_html_to_text/read_msg_format_mail, epub_extractor._extract_chapter

Spec (ghost state, written from the property statement, DESIGN 3/C17): a region
rho in {None} + (tag, depth).  A removable, non-void element opens a region;
only start/end tags of *that* element change its depth; everything else inside
("void children, unclosed or mis-nested tags, nested removable elements") leaves
it alone; data is hidden iff rho != None.  The proof is over ALL event sequences
(html.parser's tokenisation `ev(text)` is not needed, Appendix B): each handler
is shown to preserve the coupling invariant I(self, rho) for every tag string.

Representation (what the implementation keeps): `skip_depth` is the number of
open elements of the removing tag; a field whose name contains "tag" (if the
class has one) remembers the removing tag.  An implementation without such a
field cannot satisfy I (the obligation is then refuted, not weakened).
"""
import ast
from collections import namedtuple

import z3

from pyvc import loader
from pyvc.contracts import FnContract
from pyvc.ops import Unsupported
from pyvc.state import HeapObj
from pyvc.symex import Executor
from pyvc.values import NONE, VBool, VExt, VInt, VMod, VNoneT, VRef, VSeq, VStr, VTuple, VUnk, fresh_name
from pyvc.verify import Maker

HTML = "sharepoint2text/parsing/extractors/html_extractor.py"
EPUB = "sharepoint2text/parsing/extractors/epub_extractor.py"
MHTML = "sharepoint2text/parsing/extractors/mhtml_extractor.py"
MSG = "sharepoint2text/parsing/extractors/mail/msg_email_extractor.py"
HCLS, ECLS = "_HtmlTreeBuilder", "_XhtmlTextExtractor"
S = z3.StringSort()

# ------------------------------------------------------------------- spec ----
# From the statement: "the content of script, style, noscript, iframe, object, embed and applet elements".
SPEC_REMOVE = frozenset({"script", "style", "noscript", "iframe", "object", "embed", "applet"})
# HTML void elements (HTML Living Standard 13.1.2): no content, no end tag -> cannot enclose anything.
SPEC_VOID = frozenset({"area", "base", "br", "col", "embed", "hr", "img", "input", "link", "meta", "param",
                       "source", "track", "wbr"})
# tag names are ASCII case-insensitive; the handlers and the spec see a tag through str.lower (uninterpreted)
LOWER = z3.Function("str_lower", S, S)

Rho = namedtuple("Rho", "on tag n")            # on: Bool (rho != None), tag: String, n: Int
RHO = Rho(z3.Bool("rho_on"), z3.String("rho_tag"), z3.Int("rho_n"))
RHO_NONE = Rho(z3.BoolVal(False), z3.StringVal(""), z3.IntVal(0))


def in_set(x, names):
    return z3.Or([x == z3.StringVal(k) for k in sorted(names)])


def opens(x):
    """Start of element x opens a removed region: removable and able to have content."""
    return z3.And(in_set(x, SPEC_REMOVE), z3.Not(in_set(x, SPEC_VOID)))


def wf(r):
    return z3.Implies(r.on, z3.And(r.n >= 0, opens(r.tag)))


def spec_start(r, t):
    L = LOWER(t)
    return Rho(z3.Or(r.on, opens(L)),
               z3.If(r.on, r.tag, L),
               z3.If(r.on, z3.If(L == r.tag, r.n + 1, r.n), z3.IntVal(0)))


def spec_end(r, t):
    L = LOWER(t)
    mine = z3.And(r.on, L == r.tag)
    return Rho(z3.And(r.on, z3.Not(z3.And(mine, r.n == 0))), r.tag, z3.If(mine, r.n - 1, r.n))


def hidden(r):
    return r.on


# ------------------------------------------------------ coupling invariant ----
MISSING = object()


def coupling(sd, tg, r):
    """I(self, rho), scalar part: skipping <=> rho != None; inside a region the
    counter is depth+1 and the remembered tag is the region's tag."""
    cs = [wf(r), r.on == (sd > 0), z3.Implies(r.on, sd == r.n + 1), z3.Implies(z3.Not(r.on), sd == 0)]
    if tg is not MISSING:
        if isinstance(tg, VStr):
            cs.append(z3.Implies(r.on, tg.t == r.tag))
        else:
            cs.append(z3.Not(r.on))          # no remembered tag (None / not a str) is only consistent outside a region
    return z3.And(cs)


# --------------------------------------------------- class shape from source --
def init_fields(rel, cls, repo=None):
    """[(field, annotation text, initial-value node)] assigned on self in the real __init__."""
    mod = loader.module(rel, repo)
    fn = mod.functions.get(f"{cls}.__init__")
    out = []
    if fn is None:
        return out
    for n in ast.walk(fn):
        tgt = val = ann = None
        if isinstance(n, ast.Assign) and len(n.targets) == 1:
            tgt, val = n.targets[0], n.value
        elif isinstance(n, ast.AnnAssign):
            tgt, val, ann = n.target, n.value, n.annotation
        if isinstance(tgt, ast.Attribute) and isinstance(tgt.value, ast.Name) and tgt.value.id == "self":
            if tgt.attr not in [f for f, _a, _v in out]:
                out.append((tgt.attr, ast.unparse(ann) if ann is not None else "", val))
    return out


def tag_field(rel, cls, repo=None):
    c = [f for f, _a, _v in init_fields(rel, cls, repo) if "tag" in f.lower()]
    return c[0] if len(c) == 1 else None


def roles(rel, cls, repo=None):
    """Which field of the real class plays which role of the representation, found from the real __init__ (so that renaming a
    field re-verifies): depth = the int counter (named skip_depth, else the only int field with skip/depth in its name);
    tag = the only field with `tag` in its name (may be absent); for the tree builder root = the dict literal with a
    `children` entry, stack = the list literal `[self.<root>]`, last = the None-initialised node field.
    A role that cannot be found makes the function OUT-OF-SUBSET (`unknown`; the native replayer decides), never refuted."""
    fs = init_fields(rel, cls, repo)
    ints = [f for f, _a, v in fs if isinstance(v, ast.Constant) and type(v.value) is int]
    cand = [f for f in ints if f == "skip_depth"] or [f for f in ints if "skip" in f.lower() or "depth" in f.lower()]
    out = {"depth": cand[0] if len(cand) == 1 else None, "tag": tag_field(rel, cls, repo)}
    root = [f for f, _a, v in fs if isinstance(v, ast.Dict) and any(isinstance(k, ast.Constant) and k.value == "children" for k in v.keys)]
    out["root"] = root[0] if len(root) == 1 else None
    stack = [f for f, _a, v in fs if isinstance(v, ast.List) and len(v.elts) == 1 and ast.unparse(v.elts[0]) == f"self.{out['root']}"]
    out["stack"] = stack[0] if len(stack) == 1 else None
    last = [f for f, a, v in fs if isinstance(v, ast.Constant) and v.value is None and f != out["tag"]
            and ("Dict" in a or "dict" in a or "closed" in f.lower() or "last" in f.lower())]
    out["last"] = last[0] if len(last) == 1 else None
    return out


def need(rel, cls, repo, *names):
    r = roles(rel, cls, repo)
    missing = [n for n in names if r.get(n) is None]
    if missing:
        raise Unsupported(f"representation of {cls} not recognised: no field for role(s) {missing}")
    return r


def skip_fields(rel, cls, repo=None):
    r = need(rel, cls, repo, "depth")
    return {r["depth"]} | ({r["tag"]} if r["tag"] else set())


# ---------------------------------------------------------------- heap model --
def mk_olist(ex, st, name, ekind, root=None):
    """Open list: an abstract prefix of symbolic length `blen` (elements of kind
    `ekind`, never enumerated) followed by the concrete `tail` appended so far."""
    blen = z3.Int(f"{name}.len")
    o = HeapObj("olist", {"base": name, "blen": blen, "tail": (), "ekind": ekind, "mat": None, "root": root}, None, False)
    return VRef(st.alloc(o, ex.refs)), blen


def mk_node(ex, st, name):
    ch, blen = mk_olist(ex, st, name + ".children", "node")
    d = {"tag": VStr(z3.String(name + ".tag")), "attrs": VExt("AttrDict"), "children": ch,
         "text": VStr(z3.String(name + ".text")), "tail": VStr(z3.String(name + ".tail"))}
    return VRef(st.alloc(HeapObj("dict", d, None, False), ex.refs)), blen >= 0


def scalar_alts(ex, st, name, ann, val):
    """Symbolic pre-state alternatives [(cond, V)] of a scalar / list field, by its initialiser."""
    if isinstance(val, ast.Constant):
        if isinstance(val.value, bool):
            return [(None, VBool(z3.Bool(name)))]
        if isinstance(val.value, int):
            return [(None, VInt(z3.Int(name)))]
        if isinstance(val.value, str):
            return [(None, VStr(z3.String(name)))]
        if val.value is None:
            if "str" in ann or "tag" in name.lower():
                return [(None, NONE), (None, VStr(z3.String(name)))]
            return [(None, VUnk(name))]
    if isinstance(val, ast.List) and not val.elts:
        v, blen = mk_olist(ex, st, name, "str" if ann.replace(" ", "") == "List[str]" else "any")
        return [(blen >= 0, v)]
    return [(None, VUnk(name))]


def product(alts_by_field):
    out = [([], {})]
    for f, alts in alts_by_field:
        out = [(cs + ([c] if c is not None else []), dict(d, **{f: v})) for (cs, d) in out for (c, v) in alts]
    return out


def html_self():
    def mk(ex, st, name):
        root, c0 = mk_node(ex, st, name + ".root")
        stack, sl = mk_olist(ex, st, name + ".stack", "node", root=root.ref)
        other, c1 = mk_node(ex, st, name + ".last_closed")
        per_field = []
        r = need(HTML, HCLS, ex.module.repo, "depth", "root", "stack", "last")
        for f, ann, val in init_fields(HTML, HCLS, ex.module.repo):
            if f == r["root"]:
                per_field.append((f, [(c0, root)]))
            elif f == r["stack"]:
                per_field.append((f, [(z3.And(sl >= 1), stack)]))
            elif f == r["last"]:
                # None | a node other than the root | the root itself (aliasing made explicit)
                per_field.append((f, [(None, NONE), (c1, other), (None, root)]))
            else:
                per_field.append((f, scalar_alts(ex, st, f"{name}.{f}", ann, val)))
        out = []
        for cs, d in product(per_field):
            out.append((z3.And(cs) if cs else None, VRef(st.alloc(HeapObj("obj", d, HCLS, False), ex.refs))))
        return out
    return Maker(mk, desc=HCLS)


def epub_self():
    def mk(ex, st, name):
        per_field = [(f, scalar_alts(ex, st, f"{name}.{f}", ann, val)) for f, ann, val in init_fields(EPUB, ECLS, ex.module.repo)]
        return [(z3.And(cs) if cs else None, VRef(st.alloc(HeapObj("obj", d, ECLS, False), ex.refs))) for cs, d in product(per_field)]
    return Maker(mk, desc=ECLS)


def empty_self(cls):
    return Maker(lambda ex, st, name: VRef(st.alloc(HeapObj("obj", {}, cls, False), ex.refs)), desc=cls + " (before __init__)")


GHOST = [("rho_on", Maker(lambda ex, st, n: VBool(RHO.on), desc="ghost rho != None")),
         ("rho_tag", Maker(lambda ex, st, n: VStr(RHO.tag), desc="ghost region tag")),
         ("rho_n", Maker(lambda ex, st, n: VInt(RHO.n), desc="ghost region depth"))]


# ------------------------------------------------------------------ executor --
def exit_only_names(body):
    """Names whose every binding inside the loop body `body` is a plain `name = expr` (or annotated) statement that is followed,
    in the SAME statement list, by an unconditional `break` / `return` / `raise` with only simple statements in between.
    Conservative: no `try` anywhere in the body (an exception after the assignment could be caught and the loop resumed), the
    assignment not inside a nested loop / function / class / comprehension, no other kind of store to the name."""
    if any(isinstance(n, (ast.Try, getattr(ast, "TryStar", ast.Try))) for b in body for n in ast.walk(b)):
        return set()
    good, bad = set(), set()
    simple = (ast.Assign, ast.AnnAssign, ast.AugAssign, ast.Expr, ast.Pass)

    def block(stmts, nested):
        for k, s in enumerate(stmts):
            tgt = None
            if isinstance(s, ast.Assign) and len(s.targets) == 1 and isinstance(s.targets[0], ast.Name):
                tgt = s.targets[0].id
            elif isinstance(s, ast.AnnAssign) and s.value is not None and isinstance(s.target, ast.Name):
                tgt = s.target.id
            if tgt is not None:
                rest = stmts[k + 1:]
                j = next((x for x, r in enumerate(rest) if not isinstance(r, simple)), None)
                ok = (not nested and j is not None and isinstance(rest[j], (ast.Break, ast.Return, ast.Raise))
                      and not any(isinstance(n, ast.Name) and isinstance(n.ctx, ast.Store) and n.id == tgt
                                  for r in rest[:j] for n in ast.walk(r)))
                (good if ok else bad).add(tgt)
                for n in ast.walk(s.value):
                    if isinstance(n, ast.Name) and isinstance(n.ctx, ast.Store):
                        bad.add(n.id)                      # walrus inside the right-hand side
                continue
            if isinstance(s, (ast.If,)):
                for n in ast.walk(s.test):
                    if isinstance(n, ast.Name) and isinstance(n.ctx, ast.Store):
                        bad.add(n.id)
                block(s.body, nested)
                block(s.orelse, nested)
                continue
            if isinstance(s, (ast.For, ast.While, ast.AsyncFor)):
                for n in ast.walk(s.target if not isinstance(s, ast.While) else s.test):
                    if isinstance(n, ast.Name) and isinstance(n.ctx, ast.Store):
                        bad.add(n.id)
                block(s.body, True)
                block(s.orelse, True)
                continue
            for n in ast.walk(s):                          # anything else (with, match, def, augmented assignment, del ...): every store is "other"
                if isinstance(n, ast.Name) and isinstance(n.ctx, (ast.Store, ast.Del)):
                    bad.add(n.id)
    block(list(body), False)
    return good - bad


class C17Executor(Executor):
    """Adds: open lists (symbolic-length prefix + appended tail, top materialised
    lazily), super().__init__ of html.parser.HTMLParser (assumed to touch only
    its own private fields), comprehension over the abstract attribute list."""

    def _ol(self, st, v):
        if isinstance(v, VRef):
            o = st.heap.get(v.ref)
            if o is not None and o.kind == "olist":
                return o
        return None

    def seq_view(self, st, it):
        """The attribute list of a start tag: a sequence of (name, value-or-None) pairs of unknown length (a loop over it is
        cut like any symbolic loop: whatever the body assigns / stores into is havocked)."""
        if isinstance(it, VExt) and it.sort == "AttrList":
            n = z3.Int(fresh_name("nattrs"))
            st.assume(n >= 0)
            return n, (lambda i: VTuple([VStr(z3.String(fresh_name("attr_name"))), VUnk("attr_value")]))
        return super().seq_view(st, it)

    def resolve_dotted(self, dotted):
        """`from pkg import module [as alias]` / `import pkg.module`: a repository MODULE is a module value (attribute access
        then resolves its functions / classes), whatever the import style."""
        import os
        parts = dotted.split(".")
        if parts[0] == "sharepoint2text" and dotted not in self.reg.ext_models and dotted not in self.reg.fn:
            rel = "/".join(parts)
            if os.path.exists(os.path.join(self.module.repo, rel + ".py")) or os.path.exists(os.path.join(self.module.repo, rel, "__init__.py")):
                return VMod(dotted)
        if parts[0] != "sharepoint2text" and dotted not in self.reg.ext_models and dotted not in self.reg.fn:
            # relative import (`from .html_extractor import read_html`, `from . import html_extractor`, `from ..x import y`):
            # the loader keeps the module path as written; try it against the package of this module and its ancestors
            pkg = self.module.rel.split("/")[:-1]
            while pkg and pkg[0] == "sharepoint2text":
                base = "/".join(pkg + [parts[0]])
                if os.path.exists(os.path.join(self.module.repo, base + ".py")) or os.path.exists(os.path.join(self.module.repo, base, "__init__.py")):
                    return self.resolve_dotted(".".join(pkg + parts))
                pkg = pkg[:-1]
        return super().resolve_dotted(dotted)

    # ---- round 3: what the container / parser glue functions need (contracts/C17_glue.py) ----
    def get_slice(self, st, base, sl, node):
        if isinstance(base, VExt) and base.sort == "Bytes" and sl.step is None:
            from contracts import C17_glue as G
            lo = self.ev(sl.lower, st)[0][1] if sl.lower is not None else None
            if sl.upper is None and isinstance(lo, VInt) and lo.const() is not None:
                return [(st, VExt("Bytes", G.BCUT(base.t, z3.IntVal(lo.const()))))]
            hi = self.ev(sl.upper, st)[0][1] if sl.upper is not None and sl.lower is None else None
            if isinstance(hi, VInt) and hi.const() is not None and hi.const() >= 0:
                return [(st, VExt("Bytes", G.BHEAD(base.t, z3.IntVal(hi.const()))))]      # round 7: x[:k], a function of x (never x itself)
            return [(st, VExt("Bytes"))]          # some other part of the bytes: not the document any more
        o = self._ol(st, base)
        if o is not None and sl.step is None:
            # round 7: a slice of a list of symbolic length is SOME list of the same kind -- not the list itself
            for b_ in (sl.lower, sl.upper):
                if b_ is not None:
                    self.ev(b_, st)
            v, blen = mk_olist(self, st, fresh_name("slice"), o.data["ekind"])
            st.heap[v.ref].fresh = True
            st.heap[v.ref].data["slice_of"] = base.ref
            st.assume(z3.And(blen >= 0, blen <= o.data["blen"] + len(o.data["tail"])))
            return [(st, v)]
        return super().get_slice(st, base, sl, node)

    def _pure_comprehension(self, n):
        """Element / conditions only read the loop variables and call methods on them (str methods in the code at hand):
        evaluating it over an unknown iterable yields an unknown value and touches nothing that is tracked."""
        targets = {x.id for g in n.generators for x in ast.walk(g.target) if isinstance(x, ast.Name)}
        parts = [getattr(n, "elt", None), getattr(n, "key", None), getattr(n, "value", None)] + [c for g in n.generators for c in g.ifs]
        for p_ in parts:
            if p_ is None:
                continue
            for x in ast.walk(p_):
                if isinstance(x, (ast.NamedExpr, ast.Yield, ast.YieldFrom, ast.Await, ast.Lambda)):
                    return False
                if isinstance(x, ast.Call):
                    r = x.func
                    while isinstance(r, (ast.Attribute, ast.Subscript, ast.Call)):
                        r = r.value if not isinstance(r, ast.Call) else r.func
                    if not (isinstance(r, ast.Name) and r.id in targets and isinstance(x.func, ast.Attribute)):
                        return False
                if isinstance(x, ast.Name) and isinstance(x.ctx, ast.Load) and x.id not in targets:
                    return False
        return True

    def _opaque_comp(self, n, st):
        if len(n.generators) == 1 and self._pure_comprehension(n):
            r = self.ev(n.generators[0].iter, st)
            attrs = len(r) == 1 and isinstance(r[0][1], VExt) and r[0][1].sort == "AttrList"
            if len(r) == 1 and self.concrete_items(r[0][0], r[0][1]) is None and \
                    (isinstance(r[0][1], VUnk) or attrs or self._ol(r[0][0], r[0][1]) is not None):
                if not attrs or any(isinstance(x, ast.Call) for x in ast.walk(n)):
                    self.exc_any(r[0][0].fork(), f"{self.loc(n)} comprehension over an unknown iterable")
                return [(r[0][0], VUnk("attr-pairs" if attrs else "comprehension"))]
        return None

    def construct(self, st, t, args, kwargs, node):
        if t.name == "str" and len(args) == 1 and not kwargs and isinstance(args[0], VExt) and args[0].sort == "HeaderObj":
            from contracts import C17_glue as G
            return [(st, VStr(G.HTEXT(args[0].t)))]       # str(<Header object>): total, a function of the object
        if t.name == "dict" and len(args) == 1 and not kwargs and \
                ((isinstance(args[0], VUnk) and args[0].tag == "attr-pairs") or (isinstance(args[0], VExt) and args[0].sort in ("AttrList", "AttrDict"))):
            return [(st, VExt("AttrDict"))]        # dict(<(name, value) pairs of the attribute list>): cannot raise
        return super().construct(st, t, args, kwargs, node)

    def call(self, st, f, args, kwargs, node):
        from pyvc.values import VFunc
        if isinstance(f, VFunc) and f.how == "repo" and f.a == self.module.rel and args and not kwargs \
                and all(isinstance(a, VExt) and a.sort == "Tree" for a in args) and self.reg.get(f"{f.a}::{f.b}") is None:
            # a module-level helper applied to the parser's tree only (e.g. a fallback renderer): summarised as an unknown
            # function OF THE TREE -- whatever it returns cannot depend on the markup except through the parser
            from contracts import C17_glue as G
            fn = z3.Function("fn_of_tree:" + f.b, *([G.TreeS] * len(args) + [S]))
            self.exc_any(st.fork(), f"{self.loc(node)} {f.b}(tree)")
            return [(st, VStr(fn(*[a.t for a in args])))]
        return super().call(st, f, args, kwargs, node)

    def e_GeneratorExp(self, n, st):
        return self._str_map_comp(n, st) or self._opaque_comp(n, st) or super().e_GeneratorExp(n, st)

    def e_ListComp(self, n, st):
        return self._str_map_comp(n, st) or self._opaque_comp(n, st) or super().e_ListComp(n, st)

    def symbolic_for(self, s, st, it):
        """round 7: `for piece in <open list of str>: acc.append(piece.<total str method>())` with `acc` an empty local list is the
        comprehension `[piece.m() for piece in ...]` written as a loop (same value, same order): `acc` becomes the mapped list."""
        o = self._ol(st, it)
        if o is not None and o.data["ekind"] == "str" and not o.data["tail"] and not s.orelse and len(s.body) == 1 and isinstance(s.target, ast.Name):
            b = s.body[0]
            c_ = b.value if isinstance(b, ast.Expr) and isinstance(b.value, ast.Call) else None
            if c_ is not None and isinstance(c_.func, ast.Attribute) and c_.func.attr == "append" and isinstance(c_.func.value, ast.Name) \
                    and len(c_.args) == 1 and not c_.keywords:
                e = c_.args[0]
                if isinstance(e, ast.Call) and isinstance(e.func, ast.Attribute) and isinstance(e.func.value, ast.Name) and e.func.value.id == s.target.id \
                        and not e.args and not e.keywords and e.func.attr in ("strip", "lstrip", "rstrip", "lower", "upper", "casefold"):
                    acc = st.lookup(c_.func.value.id)
                    ao = st.heap.get(acc.ref) if isinstance(acc, VRef) else None
                    if ao is not None and ao.kind == "list" and ao.data == [] and ao.fresh:
                        v, blen = mk_olist(self, st, fresh_name("mapped"), "str")
                        newo = st.heap[v.ref]
                        newo.fresh = True
                        if o.data.get("of") is not None:
                            newo.data["of"] = STR_MAP(z3.StringVal(e.func.attr), o.data["of"])
                        st.assume(blen == o.data["blen"])
                        st.heap[acc.ref] = newo
                        from pyvc.symex import Outcome
                        outs = []
                        for s3 in self.assign(s.target, VStr(z3.String(fresh_name("piece"))), st):
                            outs.append(Outcome("fall", s3))
                        return outs
        return super().symbolic_for(s, st, it)

    def _str_map_comp(self, n, st):
        """round 7: `[x.strip() for x in <list of str of symbolic length>]` -- a total str method on every element: again a list of
        str; when the source list is a known function of a text (`text.split(sep)`), the result is one too (`of`)."""
        if len(n.generators) != 1 or n.generators[0].ifs or n.generators[0].is_async or not isinstance(n.generators[0].target, ast.Name):
            return None
        e = n.elt
        if not (isinstance(e, ast.Call) and isinstance(e.func, ast.Attribute) and isinstance(e.func.value, ast.Name)
                and e.func.value.id == n.generators[0].target.id and not e.args and not e.keywords
                and e.func.attr in ("strip", "lstrip", "rstrip", "lower", "upper", "casefold")):
            return None
        r = self.ev(n.generators[0].iter, st)
        if len(r) != 1:
            return None
        s2, it = r[0]
        o = self._ol(s2, it)
        if o is None or o.data["ekind"] != "str" or not all(isinstance(x, VStr) for x in o.data["tail"]):
            return None
        v, blen = mk_olist(self, s2, fresh_name("mapped"), "str")
        s2.heap[v.ref].fresh = True
        s2.assume(blen == o.data["blen"] + len(o.data["tail"]))
        if o.data.get("of") is not None and not o.data["tail"]:
            s2.heap[v.ref].data["of"] = STR_MAP(z3.StringVal(e.func.attr), o.data["of"])
        return [(s2, v)]

    def on_yield(self, st, v, node):
        """A yield inside a loop that is cut by an invariant is invisible in the function's final state: the contract's
        per-yield clause (`yield_check`, pack-local) is therefore emitted as a VC at the yield itself."""
        st.ghost["yields"] = st.ghost.get("yields", ()) + (v,)
        chk = getattr(self.contract, "yield_check", None) if self.contract is not None else None
        if chk is not None:
            label, fn = chk
            self.add_vc("yield", label, st.pc, fn(self, st, v), loc=self.loc(node))

    def e_YieldFrom(self, n, st):
        out = []
        for (s, v) in self.ev(n.value, st):
            items = self.concrete_items(s, v)
            if items is not None:
                s.yielded = s.yielded + items          # (an inlined local generator: each yield was seen by on_yield)
            else:
                s.ghost["yield_count_unknown"] = True
                if isinstance(v, VSeq):
                    self.on_yield(s, v.elem(z3.Int(fresh_name("k"))), n)     # an arbitrary element of the delegated sequence
                elif not (isinstance(v, VUnk) and v.tag == "generator"):
                    self.on_yield(s, VUnk("yield-from"), n)
            out.append((s, NONE))
        return out

    def get_attr(self, st, base, attr, node):
        if isinstance(base, VRef):
            o = st.heap.get(base.ref)
            if o is not None and o.kind == "obj" and attr not in (o.data or {}):
                fn = self.module.functions.get(f"{o.cls}.{attr}")
                if fn is not None and any(ast.unparse(d) in ("property", "functools.cached_property", "cached_property") for d in fn.decorator_list):
                    return self.run_body(st, fn, {fn.args.args[0].arg: base}, None)      # @property: reading it runs the getter
        if isinstance(base, VExt) and base.sort == "MsgObj" and attr == "body":
            from contracts import C17_glue as G
            return G.msg_body(self, st, base)
        return super().get_attr(st, base, attr, node)

    def havoc_call(self, st, what, args, node):
        for a in args:
            if isinstance(a, VExt) and a.sort == "Parser":
                from contracts import C17_glue as G
                G.log(st, "other", a, f"passed to {what} at {self.loc(node)}")
        return super().havoc_call(st, what, args, node)

    def sub_executor(self, module):
        sub = type(self)(module, self.reg, self.uni)
        sub.refs = self.refs
        return sub

    def binop(self, st, op, a, b, node, inplace=False):
        from pyvc.values import VSetC
        if isinstance(a, VSetC) and isinstance(b, VSetC) and op in ("BitAnd", "Sub", "BitXor", "BitOr"):
            x, y = set(a.items), set(b.items)
            return [(st, VSetC({"BitAnd": x & y, "Sub": x - y, "BitXor": x ^ y, "BitOr": x | y}[op]))]
        o = self._ol(st, a)
        if o is not None and op == "Add":
            items = self.concrete_items(st, b)
            if items is not None:
                if inplace:                 # xs += [x, ...]  ==  xs.extend([...])
                    self.note_store(st, a.ref, node)
                    st.wobj(a.ref).data["tail"] = o.data["tail"] + tuple(items)
                    return [(st, None)]
        return super().binop(st, op, a, b, node, inplace)

    def b_super(self, st, args, kwargs, node):
        return [(st, VExt("HTMLParserBase"))]

    def truth(self, st, v):
        o = self._ol(st, v)
        if o is not None:
            return VBool(True) if o.data["tail"] else VBool(o.data["blen"] > 0)
        if isinstance(v, VExt) and v.sort == "Bytes":
            from contracts import C17_glue as G
            return VBool(G.NONEMPTY(v.t))           # b"" is false (round 6; the engine's default for an abstract value is True)
        return super().truth(st, v)

    def b_len(self, st, args, kwargs, node):
        o = self._ol(st, args[0])
        if o is not None:
            return [(st, VInt(o.data["blen"] + len(o.data["tail"])))]
        return super().b_len(st, args, kwargs, node)

    def get_index(self, st, base, idx, node):
        if isinstance(base, VExt) and base.sort == "AttrDict":
            # round 6: attrs[name] -- any value (str or None); KeyError when absent
            self.exc_any(st.fork(), f"{self.loc(node)} attribute lookup")
            return [(st.fork(), VUnk("attr_value")), (st, VStr(z3.String(fresh_name("attr_value"))))]
        o = self._ol(st, base)
        if o is None:
            return super().get_index(st, base, idx, node)
        c = idx.const() if isinstance(idx, VInt) else None
        tail = o.data["tail"]
        if c is None and isinstance(idx, VInt) and not self.feasible(st.pc, idx.t != o.data["blen"] + len(tail) - 1):
            c = -1                      # `xs[len(xs) - 1]`
        if c is not None and c < 0 and -c <= len(tail):
            return [(st, tail[c])]
        if c == -1:
            return self.ol_top(st, base, node)
        if c == 0 and o.data["root"] is not None and not self.feasible(st.pc, o.data["blen"] < 1):
            return [(st, VRef(o.data["root"]))]
        if c is not None and c >= 0 and o.data["ekind"] == "str" and not tail and o.data["root"] is None:
            # round 6: piece c of a split result: some string; IndexError when there are fewer pieces
            s2 = self.fork_raise(st, o.data["blen"] <= c, "IndexError")
            return [] if s2 is None else [(s2, VStr(z3.String(fresh_name("piece"))))]
        self.unsupported(node, f"index {c} of open list")

    def ol_top(self, st, base, node):
        """Last element of the abstract prefix (the tail is empty): materialised once."""
        o = st.obj(base.ref)
        blen = o.data["blen"]
        st = self.fork_raise(st, blen <= 0, "IndexError")
        if st is None:
            return []
        if o.data["mat"] is not None:
            return [(st, o.data["mat"])]
        ek, rootref, out = o.data["ekind"], o.data["root"], []
        if ek == "node":
            if rootref is not None and self.feasible(st.pc, blen == 1):
                s1 = st.fork().assume(blen == 1)
                s1.wobj(base.ref).data["mat"] = VRef(rootref)
                out.append((s1, VRef(rootref)))
            cond = (blen > 1) if rootref is not None else z3.BoolVal(True)
            if self.feasible(st.pc, cond):
                s2 = st.assume(cond)
                before = set(s2.heap)
                nref, c = mk_node(self, s2, fresh_name(o.data["base"] + ".top"))
                s2.assume(c)
                # a member of the pre-state list: not fresh; reachable from root by the class invariant
                m0 = dict(s2.ghost.get("mat0", {}))
                m0.update({r: s2.heap[r] for r in set(s2.heap) - before})
                s2.ghost["mat0"] = m0
                s2.ghost["reach0"] = frozenset(s2.ghost.get("reach0", frozenset())) | {nref.ref}
                s2.wobj(base.ref).data["mat"] = nref
                out.append((s2, nref))
            return out
        v = VStr(z3.String(fresh_name(o.data["base"] + ".top"))) if ek == "str" else VUnk("element")
        st.wobj(base.ref).data["mat"] = v
        return [(st, v)]

    def call_method(self, st, obj, name, args, kwargs, node):
        o = self._ol(st, obj)
        if o is None:
            return super().call_method(st, obj, name, args, kwargs, node)
        tail = o.data["tail"]
        if name == "append" and len(args) == 1:
            self.note_store(st, obj.ref, node)
            st.wobj(obj.ref).data["tail"] = tail + (args[0],)
            return [(st, NONE)]
        if name == "extend" and len(args) == 1 and self.concrete_items(st, args[0]) is not None:
            self.note_store(st, obj.ref, node)
            st.wobj(obj.ref).data["tail"] = tail + tuple(self.concrete_items(st, args[0]))
            return [(st, NONE)]
        if name == "pop" and not args:
            self.note_store(st, obj.ref, node)
            if tail:
                st.wobj(obj.ref).data["tail"] = tail[:-1]
                return [(st, tail[-1])]
            res = []
            for (s2, top) in self.ol_top(st, obj, node):
                w = s2.wobj(obj.ref)
                w.data["blen"] = w.data["blen"] - 1
                w.data["mat"] = None
                res.append((s2, top))
            return res
        self.unsupported(node, f"list.{name} on a list of symbolic length")

    def e_DictComp(self, n, st):
        if len(n.generators) == 1:
            r = self.ev(n.generators[0].iter, st)
            if len(r) == 1 and isinstance(r[0][1], VExt) and r[0][1].sort == "AttrList":
                pure = (ast.Name, ast.Tuple, ast.Compare, ast.Constant, ast.Is, ast.IsNot, ast.Eq, ast.NotEq,
                        ast.Load, ast.Store, ast.comprehension, ast.BoolOp, ast.And, ast.Or, ast.Not, ast.UnaryOp)
                parts = [n.key, n.value, n.generators[0].target] + list(n.generators[0].ifs)
                if all(isinstance(x, pure) for p in parts for x in ast.walk(p)):
                    return [(r[0][0], VExt("AttrDict"))]   # pure comprehension over (name, value) pairs: cannot raise
                if self._pure_comprehension(n):
                    # round 6: str methods on the loop variables (`k.lower()`): still a dict of attribute values; a method on a
                    # value may meet None -> may raise
                    # value may meet None -> may raise; a total str method on the NAME (first component, always a str) cannot
                    tgt = n.generators[0].target
                    name_var = tgt.elts[0].id if isinstance(tgt, ast.Tuple) and len(tgt.elts) == 2 and isinstance(tgt.elts[0], ast.Name) else None
                    total = all(isinstance(x.func, ast.Attribute) and isinstance(x.func.value, ast.Name) and x.func.value.id == name_var
                                and x.func.attr in ("lower", "upper", "casefold", "strip") and not x.args and not x.keywords
                                for p in parts for x in ast.walk(p) if isinstance(x, ast.Call))
                    if not total:
                        self.exc_any(r[0][0].fork(), f"{self.loc(n)} method call on an attribute value in a comprehension")
                    return [(r[0][0], VExt("AttrDict"))]
        return super().e_DictComp(n, st)


    # substring / prefix tests on symbolic text stay uninterpreted (shared with the spec of _looks_like_html): z3's sequence
    # solver needed 30-120 s per VC for Contains / PrefixOf over lower(lstrip(text)[:k]); nothing here needs their theory
    def __init__(self, *a, opaque_str=False, **kw):
        super().__init__(*a, **kw)
        self.opaque_str = opaque_str        # only for the contract that asks for it (EXECUTOR_KW); other users are unaffected

    def havoc_loop_state(self, st, body, spec, extra_names=()):
        """Round 8: a local that the loop body assigns ONLY on a path that leaves the loop at once (`found = f(x)` ... `break` /
        `return` / `raise` later in the same statement list) still has its entry value at every loop head and at the normal
        exit -- no iteration that assigned it ever came back.  Keeping the entry binding (instead of the havocked one) lets the
        single-exit form `found = None; for ..: if ..: found = ..; break; return found` prove like the early-return form."""
        keep = {n: st.lookup(n) for n in exit_only_names(body) if n not in set(extra_names)}
        super().havoc_loop_state(st, body, spec, extra_names)
        for n, v in keep.items():
            if v is not None:
                st.bind(n, v)

    def b_isinstance(self, st, args, kwargs, node):
        # round 7: an abstract byte string is a `bytes` (the engine answers an unconstrained Bool for abstract values)
        from pyvc.values import VType
        v, t = args
        if isinstance(v, VExt) and v.sort == "Bytes":
            types = [x.name for x in (t.items if isinstance(t, VTuple) else [t]) if isinstance(x, VType)]
            if len(types) == len(t.items if isinstance(t, VTuple) else [t]):
                return [(st, VBool("bytes" in types))]
        return super().b_isinstance(st, args, kwargs, node)

    def contains(self, st, container, item, node):
        if isinstance(container, VExt) and container.sort == "Bytes":
            return [(st, VBool(z3.Bool(fresh_name("bytes_contains"))))]   # round 7: substring test on abstract bytes: total, either answer
        if isinstance(container, VExt) and container.sort == "AttrDict":
            return [(st, VBool(z3.Bool(fresh_name("has_attr"))))]       # round 6: any attribute may or may not be present
        if self.opaque_str and isinstance(container, VStr) and isinstance(item, VStr) and container.const() is None:
            return [(st, VBool(STR_HAS(container.t, item.t)))]
        return super().contains(st, container, item, node)

    def str_method(self, st, s, name, args, kwargs, node):
        if name == "encode" and "str.encode" in self.reg.ext_models:
            return self.reg.ext_models["str.encode"](self, st, [s] + list(args), kwargs, node)
        if self.opaque_str and name == "startswith" and s.const() is None and len(args) == 1:
            cands = list(args[0].items) if isinstance(args[0], VTuple) else [args[0]]
            if cands and all(isinstance(x, VStr) for x in cands):
                return [(st, VBool(z3.Or([STR_STARTS(s.t, x.t) for x in cands])))]
        return super().str_method(st, s, name, args, kwargs, node)


    def str_slice(self, st, base, sl, node):
        if self.opaque_str and base.const() is None and sl.step is None:
            # s[lo:hi] as an uninterpreted function of (s, lo, hi): a model that separates s[:4096] from s would need a
            # 4097-character string, which z3's sequence solver does not find within minutes
            lo = self._ev_int1(sl.lower, st, node) if sl.lower is not None else z3.IntVal(0)
            hi = self._ev_int1(sl.upper, st, node) if sl.upper is not None else z3.IntVal(-1)
            return [(st, VStr(STR_SLICE(base.t, lo, z3.BoolVal(sl.upper is not None), hi)))]
        return super().str_slice(st, base, sl, node)


STR_SLICE = z3.Function("str_slice", S, z3.IntSort(), z3.BoolSort(), z3.IntSort(), S)
STR_HAS = z3.Function("str_contains", S, S, z3.BoolSort())
STR_STARTS = z3.Function("str_startswith", S, S, z3.BoolSort())
EXECUTOR = C17Executor
EXECUTOR_KW = {f"{MSG}::_looks_like_html": {"opaque_str": True}}
from contracts import C17_glue as _G  # noqa: E402
EXECUTOR_KW.update({t: dict(_G.GLUE_KW) for t in _G.TARGETS})
# round 6: which strategy decides in _extract_from_mhtml -- helpers are NOT executed in place (their result is any value; the clause is
# about the order of the strategies, and two inlined scans multiply to > 20000 paths); a low path limit keeps `unknown` cheap
EXECUTOR_KW[f"{MHTML}::_extract_from_mhtml"] = dict(_G.GLUE_KW, inline_local=False, max_paths=3000)
# round 7: the two helpers below it, verified over the abstract MIME view (callees by contract, never in place)
EXECUTOR_KW[f"{MHTML}::_find_html_part"] = dict(_G.GLUE_KW, inline_local=False)
EXECUTOR_KW[f"{MHTML}::_decode_content"] = dict(_G.GLUE_KW, inline_local=False)


def m_lower(ex, st, args, kwargs, node):
    s = args[0]
    c = s.const()
    return [(st, VStr(c.lower()) if c is not None else VStr(LOWER(s.t)))]


STR_SPLIT = z3.Function("str_split_pieces", S, S, S)        # the pieces of text.split(sep), as one opaque value
STR_MAP = z3.Function("str_pieces_mapped", S, S, S)         # [piece.<method>() for piece in pieces]
STR_JOIN = z3.Function("str_join_pieces", S, S, S)          # sep.join(pieces)
RE_SUB = z3.Function("re_sub", S, S, S, S)                  # <compiled str regex>.sub(repl, text)


def m_split(ex, st, args, kwargs, node):
    v, blen = mk_olist(ex, st, fresh_name("split"), "str")
    st.heap[v.ref].fresh = True
    if len(args) == 2 and not kwargs and isinstance(args[0], VStr) and isinstance(args[1], VStr):
        st.heap[v.ref].data["of"] = STR_SPLIT(args[0].t, args[1].t)
    st.assume(blen >= (1 if len(args) >= 2 and not isinstance(args[1], VNoneT) else 0))     # with a separator: never empty
    return [(st, v)]


def m_join(ex, st, args, kwargs, node):
    it = args[1]
    o = st.heap.get(it.ref) if isinstance(it, VRef) else None
    if o is not None and o.kind == "olist" and o.data["ekind"] == "str" and all(isinstance(x, VStr) for x in o.data["tail"]):
        if o.data.get("of") is not None and not o.data["tail"] and isinstance(args[0], VStr):
            return [(st, VStr(STR_JOIN(args[0].t, o.data["of"])))]
        jv = z3.String(fresh_name("join"))
        # round 7 ghost event: WHICH list was joined (reference, length, appended tail, separator) -> `get_text` contract
        st.ghost["joins"] = st.ghost.get("joins", ()) + ((jv, it.ref, o.data["blen"], tuple(o.data["tail"]), args[0].const() if isinstance(args[0], VStr) else None),)
        return [(st, VStr(jv))]
    ex.exc_any(st.fork(), f"{ex.loc(node)} join of a list not known to hold only str")
    return [(st, VStr(z3.String(fresh_name("join"))))]


def ext_sort_(name):
    from pyvc.values import ext_sort
    return ext_sort(name)


RE_ID = z3.Function("regex_id", ext_sort_("StrRe"), S)


def get_text_regexes(repo=None):
    """Module-level `NAME = re.compile(<str constant>, ...)` of the EPUB module that `get_text` uses as `NAME.sub(<str constant>, x)`
    and that nothing else in the module uses (so the model below is seen by the get_text contract only)."""
    mod = loader.module(EPUB, repo)
    fn = mod.functions.get(f"{ECLS}.get_text")
    if fn is None:
        return []
    used = {x.func.value.id for x in ast.walk(fn) if isinstance(x, ast.Call) and isinstance(x.func, ast.Attribute) and x.func.attr == "sub"
            and isinstance(x.func.value, ast.Name) and len(x.args) == 2 and isinstance(x.args[0], ast.Constant) and isinstance(x.args[0].value, str)}
    out = []
    for nm in sorted(used):
        v = mod.assigns.get(nm)
        if not (isinstance(v, ast.Call) and ast.unparse(v.func) in ("re.compile", "compile") and v.args and isinstance(v.args[0], ast.Constant)
                and isinstance(v.args[0].value, str)):
            continue
        elsewhere = [x for x in ast.walk(mod.tree) if isinstance(x, ast.Name) and x.id == nm and isinstance(x.ctx, ast.Load)
                     and not (fn.lineno <= x.lineno <= fn.end_lineno)]
        if not elsewhere:
            out.append(nm)
    return out


def m_re_sub(ex, st, obj, args, kwargs, node):
    """<compiled str pattern>.sub(repl, text) with a constant replacement without group references: total, a function of the text."""
    if len(args) == 2 and not kwargs and all(isinstance(a, VStr) for a in args) and args[0].const() is not None and "\\" not in args[0].const():
        return [(st, VStr(RE_SUB(RE_ID(obj.t), args[0].t, args[1].t)))]
    ex.exc_any(st.fork(), f"{ex.loc(node)} regex sub")
    return [(st, VStr(z3.String(fresh_name("re_sub"))))]


def m_re_sub_fn(ex, st, args, kwargs, node):
    """re.sub(<constant pattern>, <constant replacement without group references>, text) inside `get_text`: total, a function of the
    text (the pattern is compiled natively once: a pattern `re` rejects raises at the call).  Elsewhere: the engine's default (unknown call)."""
    tgt = getattr(getattr(ex, "contract", None), "target", "") or ""
    if tgt.endswith(f"{ECLS}.get_text") and len(args) == 3 and not kwargs and all(isinstance(a, VStr) for a in args) \
            and args[0].const() is not None and args[1].const() is not None and "\\" not in args[1].const():
        import re as _re
        try:
            _re.compile(args[0].const())
            return [(st, VStr(RE_SUB(args[0].t, args[1].t, args[2].t)))]
        except Exception:  # noqa
            pass
    return ex.havoc_call(st, "re.sub", args, node)


def install(reg):
    reg.ext_models["re.sub"] = m_re_sub_fn
    reg.ext_models["str.lower"] = m_lower
    reg.ext_models["str.split"] = m_split
    reg.ext_models["str.join"] = m_join
    reg.method_models[("HTMLParserBase", "__init__")] = lambda ex, st, obj, a, k, n: [(st, NONE)]
    reg.ext_models["str.lstrip"] = lambda ex, st, args, kwargs, node: [(st, VStr(LSTRIP(args[0].t)))] if len(args) == 1 else \
        [(st, VStr(z3.String(fresh_name("lstrip"))))]
    try:
        for nm in get_text_regexes():
            reg.module_consts[(EPUB, nm)] = VExt("StrRe", z3.Const("regex:" + nm, ext_sort_("StrRe")))
        reg.method_models[("StrRe", "sub")] = m_re_sub
    except Exception:  # noqa
        pass
    if hint_pattern() is not None:
        reg.module_consts[(MSG, hint_regex_name())] = VExt("HintRe")
        reg.method_models[("HintRe", "search")] = m_hint_search


# ------------------------------------------------------------ frame helpers --
def same_val(a, b):
    if a is b:
        return True
    if type(a) is not type(b):
        return False
    if isinstance(a, VRef):
        return a.ref == b.ref
    if isinstance(a, VNoneT):
        return True
    if isinstance(a, VUnk):
        return False
    if hasattr(a, "t"):
        return a.t.eq(b.t)
    return False


def pre_heap(c):
    """Objects that exist in the pre-state (parameters' referents + members of
    symbolic lists materialised during execution, with their pre-state value)."""
    pre = {r: o for r, o in c.entry.heap.items() if not o.fresh}
    pre.update(c.st.ghost.get("mat0", {}))
    return pre


def changes(c, ignore_self=()):
    """[(ref, key, old V, new V)] for every slot of a pre-state object whose value differs."""
    out = []
    selfref = c.args["self"].ref
    for ref, o in pre_heap(c).items():
        n = c.st.heap.get(ref)
        if n is o:
            continue
        if n is None or n.kind != o.kind or n.data is None:
            out.append((ref, "<object>", None, None))
            continue
        if o.kind == "olist":
            if not (n.data["base"] == o.data["base"] and n.data["blen"].eq(o.data["blen"])
                    and len(n.data["tail"]) == len(o.data["tail"])
                    and all(same_val(x, y) for x, y in zip(n.data["tail"], o.data["tail"]))):
                out.append((ref, "<list>", o, n))
            continue
        if isinstance(o.data, dict):
            for k in sorted(set(o.data) | set(n.data), key=str):
                if ref == selfref and k in ignore_self:
                    continue
                a, b = o.data.get(k), n.data.get(k)
                if a is None or b is None or not same_val(a, b):
                    out.append((ref, k, a, b))
        else:
            if len(o.data) != len(n.data) or not all(same_val(x, y) for x, y in zip(o.data, n.data)):
                out.append((ref, "<list>", o, n))
    return out


def eq_goal(a, b):
    """Semantic equality of two slot values that are not syntactically identical."""
    if type(a) is type(b) and isinstance(a, (VStr, VInt, VBool)):
        return a.t == b.t
    return z3.BoolVal(False)


def frame(c, ignore_self):
    """Nothing but the listed fields of self changes (z3 Bool)."""
    gs = []
    for (_ref, _k, a, b) in changes(c, ignore_self):
        gs.append(eq_goal(a, b) if a is not None and b is not None and not isinstance(a, HeapObj) else z3.BoolVal(False))
    return z3.And(gs) if gs else z3.BoolVal(True)


def reach(c, st=None):
    """Set of heap refs reachable from self.root in the final state, or None when a
    pre-state node was (possibly) detached: pre-state reachability (ghost reach0,
    from the class invariant) survives iff no pre-state children list lost members."""
    st = st or c.st
    d = st.obj(c.args["self"].ref).data
    rname = need(HTML, HCLS, c.ex.module.repo, "root")["root"]
    root = d.get(rname)
    if not isinstance(root, VRef):
        return None
    pre = pre_heap(c)
    e_root = c.entry.obj(c.args["self"].ref).data.get(rname)
    if e_root is not None and not same_val(e_root, root):
        return None
    for ref, o in pre.items():
        n = st.heap.get(ref)
        if n is None:
            return None
        if o.kind == "dict" and "children" in o.data:
            if n.kind != "dict" or n.data is None or not same_val(n.data.get("children"), o.data["children"]):
                return None
        if o.kind == "olist" and o.data["base"].endswith(".children"):
            if n.kind != "olist" or not n.data["blen"].eq(o.data["blen"]) or len(n.data["tail"]) < len(o.data["tail"]) \
                    or not all(same_val(x, y) for x, y in zip(n.data["tail"], o.data["tail"])):
                return None
    R = set(st.ghost.get("reach0", frozenset())) | {root.ref}
    work = list(R)
    while work:
        r = work.pop()
        o = st.heap.get(r)
        if o is None or o.kind != "dict" or o.data is None:
            continue
        ch = o.data.get("children")
        if not isinstance(ch, VRef):
            continue
        co = st.heap.get(ch.ref)
        items = co.data["tail"] if co.kind == "olist" else (co.data if co.kind == "list" and co.data is not None else ())
        for x in items:
            if isinstance(x, VRef) and x.ref not in R:
                R.add(x.ref)
                work.append(x.ref)
    return R


def is_node(st, v):
    if not isinstance(v, VRef):
        return False
    o = st.heap.get(v.ref)
    return o is not None and o.kind == "dict" and o.data is not None and {"tag", "attrs", "children", "text", "tail"} <= set(o.data)


def html_inv(c, rho, st=None):
    """I(self, rho) for the tree builder: coupling + class invariant
    (len(stack) >= 1, stack[0] is root, every stacked / last-closed node reachable from root)."""
    st = st or c.st
    d = st.obj(c.args["self"].ref).data
    F = z3.BoolVal(False)
    r = need(HTML, HCLS, c.ex.module.repo, "depth", "root", "stack", "last")
    if not {r["root"], r["stack"], r["depth"], r["last"]} <= set(d):
        return F                        # __init__ (or the handler) lost a field of the representation
    root, stack, sd, lc = d[r["root"]], d[r["stack"]], d[r["depth"]], d[r["last"]]
    if not is_node(st, root) or not isinstance(stack, VRef) or not isinstance(sd, VInt):
        return F
    R = reach(c, st)
    if R is None:
        return F
    so = st.heap[stack.ref]
    goals = []
    if so.kind == "olist":
        if so.data["root"] != root.ref or so.data["ekind"] != "node":
            return F
        goals.append(so.data["blen"] >= 1)
        members = list(so.data["tail"]) + ([so.data["mat"]] if so.data["mat"] is not None else [])
    elif so.kind == "list" and so.data:
        if not (isinstance(so.data[0], VRef) and so.data[0].ref == root.ref):
            return F
        members = list(so.data)
    else:
        return F
    for m in members:
        if not is_node(st, m) or m.ref not in R:
            return F
    if not isinstance(lc, VNoneT) and not (is_node(st, lc) and lc.ref in R):
        return F
    tf = r["tag"]
    goals.append(coupling(sd.t, d.get(tf, MISSING) if tf else MISSING, rho))
    return z3.And(goals)


def epub_inv(c, rho, st=None):
    st = st or c.st
    d = st.obj(c.args["self"].ref).data
    r = need(EPUB, ECLS, c.ex.module.repo, "depth")
    sd = d.get(r["depth"])
    if not isinstance(sd, VInt):
        return z3.BoolVal(False)
    tf = r["tag"]
    return coupling(sd.t, d.get(tf, MISSING) if tf else MISSING, rho)


EPUB_SINKS = ("text_parts", "_current_cell", "_title")


def str_leaves(t, acc=None):
    """Uninterpreted String constants a term is built from (string literals are not leaves)."""
    acc = set() if acc is None else acc
    if z3.is_const(t):
        if t.decl().kind() == z3.Z3_OP_UNINTERPRETED and t.sort() == S:
            acc.add(t)
        return acc
    for ch in t.children():
        str_leaves(ch, acc)
    return acc


def get_text_whole(c):
    if getattr(c.ex, "entry_ctx", None) is None or c.args is not c.ex.entry_ctx.args:
        return z3.BoolVal(True)            # at a call site: nothing to add (the clause inspects the body's own result term)
    r = c.result
    if not isinstance(r, VStr):
        return z3.BoolVal(False)
    tp = c.entry.obj(c.args["self"].ref).data.get(EPUB_SINKS[0])
    o = c.entry.heap.get(tp.ref) if isinstance(tp, VRef) else None
    if o is None or o.kind != "olist":
        raise Unsupported("the list of stored parts was not found (renamed?)")
    good = [j for j in c.st.ghost.get("joins", ())
            if j[1] == tp.ref and j[2].eq(o.data["blen"]) and j[3] == tuple(o.data["tail"]) and j[4] is not None and j[4].strip() == ""]
    lv = str_leaves(r.t)
    return z3.BoolVal(len(lv) == 1 and any(j[0].eq(next(iter(lv))) for j in good))


def html_requires(c):
    d = c.st.obj(c.args["self"].ref).data
    r = need(HTML, HCLS, c.ex.module.repo, "depth", "root", "stack", "last")
    r0 = frozenset(v.ref for v in (d[r["root"]], d[r["last"]]) if isinstance(v, VRef))
    c.st.ghost["reach0"] = r0
    c.entry.ghost["reach0"] = r0
    tf = r["tag"]
    return coupling(d[r["depth"]].t, d.get(tf, MISSING) if tf else MISSING, RHO)


def html_no_removable_node(c):
    """Class invariant of the tree (needed by the walker side: _process_node drops a node whose tag is removable TOGETHER WITH
    ITS TAIL, i.e. with visible text that follows the element): no node that enters the tree carries a removable tag."""
    R = reach(c)
    if R is None:
        return z3.BoolVal(True)             # (a detached tree already fails I)
    pre = pre_heap(c)
    gs = []
    for r in sorted(R):
        if r in pre:
            continue
        o = c.st.heap.get(r)
        if o is None or o.kind != "dict" or o.data is None or "tag" not in o.data:
            continue
        t = o.data["tag"]
        gs.append(z3.Not(in_set(t.t, SPEC_REMOVE)) if isinstance(t, VStr) else z3.BoolVal(False))
    return z3.And(gs) if gs else z3.BoolVal(True)


def html_data_stored(c):
    """rho = None: the datum is appended to the text or the tail of exactly one node reachable from root."""
    ch = changes(c, skip_fields(HTML, HCLS, c.ex.module.repo))
    R = reach(c)
    if R is not None and len(ch) == 0:
        return c.args["data"].t == z3.StringVal("")        # nothing stored is right for the empty datum only
    if R is None or len(ch) != 1:
        return z3.BoolVal(False)
    ref, k, a, b = ch[0]
    o = c.st.heap.get(ref)
    if ref not in R or not is_node(c.st, VRef(ref)) or k not in ("text", "tail") or not isinstance(a, VStr) or not isinstance(b, VStr):
        return z3.BoolVal(False)
    return b.t == z3.Concat(a.t, c.args["data"].t)




def epub_data_stored(c):
    """rho = None: the datum is appended to exactly one text sink (running text, current table cell, title)."""
    ch = changes(c, skip_fields(EPUB, ECLS, c.ex.module.repo))
    if len(ch) == 0:
        return c.args["data"].t == z3.StringVal("")        # nothing stored is right for the empty datum only
    if len(ch) != 1:
        return z3.BoolVal(False)
    ref, k, a, b = ch[0]
    d0 = c.entry.obj(c.args["self"].ref).data
    if not all(f in d0 for f in EPUB_SINKS):
        raise Unsupported(f"text sinks of {ECLS} not recognised: {[f for f in EPUB_SINKS if f not in d0]}")
    data = c.args["data"].t
    if ref == c.args["self"].ref:
        if k in EPUB_SINKS and isinstance(a, VStr) and isinstance(b, VStr):
            return b.t == z3.Concat(a.t, data)
        return z3.BoolVal(False)
    sinks = {d0[f].ref: f for f in EPUB_SINKS if isinstance(d0.get(f), VRef)}
    if ref in sinks and k == "<list>" and a.kind == "olist" and b.kind == "olist" and a.data["blen"].eq(b.data["blen"]) \
            and len(b.data["tail"]) == len(a.data["tail"]) + 1 and isinstance(b.data["tail"][-1], VStr) \
            and all(same_val(x, y) for x, y in zip(a.data["tail"], b.data["tail"])):
        return b.data["tail"][-1].t == data
    return z3.BoolVal(False)


# ------------------------------------------------------------------ contracts --
def contracts(reg):
    install(reg)
    out = []
    P_STR = Maker(lambda ex, st, name: VStr(z3.String(name)), desc="str")
    P_ATTRS = Maker(lambda ex, st, name: VExt("AttrList"), desc="list of (name, value|None) pairs")

    for (rel, cls, selfm, inv, req, stored) in (
            (HTML, HCLS, html_self, html_inv, html_requires, html_data_stored),
            (EPUB, ECLS, epub_self, epub_inv, lambda c: epub_inv(c, RHO, c.st), epub_data_stored)):
        sk = (lambda rel=rel, cls=cls: (lambda c: skip_fields(rel, cls, c.ex.module.repo)))()
        out.append(FnContract(
            target=f"{rel}::{cls}.__init__",
            params=[("self", empty_self(cls))],
            ensures=[("establishes-I(self,None)", lambda c, inv=inv: inv(c, RHO_NONE))],
            modifies=("self",),
            note="a new parser is outside any region; stack == [root]",
        ))
        out.append(FnContract(
            target=f"{rel}::{cls}.handle_starttag",
            params=[("self", selfm()), ("tag", P_STR), ("attrs", P_ATTRS)] + GHOST,
            requires=req,
            ensures=[("I-preserved-under-Start(t)", lambda c, inv=inv: inv(c, spec_start(RHO, c.args["tag"].t))),
                     ("inside-region-nothing-else-changes", lambda c, sk=sk: z3.Implies(RHO.on, frame(c, sk(c))))]
            + ([("no-removable-element-enters-the-tree-(the-walker-drops-such-a-node-with-its-tail)", html_no_removable_node)] if cls == HCLS else []),
            modifies=("self",),
        ))
        out.append(FnContract(
            target=f"{rel}::{cls}.handle_endtag",
            params=[("self", selfm()), ("tag", P_STR)] + GHOST,
            requires=req,
            ensures=[("I-preserved-under-End(t)", lambda c, inv=inv: inv(c, spec_end(RHO, c.args["tag"].t))),
                     ("inside-region-nothing-else-changes", lambda c, sk=sk: z3.Implies(RHO.on, frame(c, sk(c))))],
            modifies=("self",),
        ))
        out.append(FnContract(
            target=f"{rel}::{cls}.handle_data",
            params=[("self", selfm()), ("data", P_STR)] + GHOST,
            requires=req,
            ensures=[("I-preserved-under-Data(d)", lambda c, inv=inv: inv(c, RHO)),
                     ("hidden-data-is-not-stored", lambda c: z3.Implies(hidden(RHO), frame(c, ()))),
                     ("visible-data-is-stored", lambda c, stored=stored: z3.Implies(z3.Not(hidden(RHO)), stored(c)))],
            modifies=("self",),
        ))
    out.append(FnContract(
        target=f"{HTML}::{HCLS}.handle_comment",
        params=[("self", html_self()), ("data", P_STR)] + GHOST,
        requires=html_requires,
        ensures=[("I-preserved-under-Comment", lambda c: html_inv(c, RHO)),
                 ("comment-is-not-stored", lambda c: frame(c, ()))],
        modifies=("self",),
    ))
    # every other callback for a non-text construct that the real classes override (declaration, processing instruction, marked
    # section / CDATA, character reference; comments for EPUB): it must store nothing and keep I -- whatever its body looks like
    from contracts import C17_sites as _S
    for (rel, cls, selfm, inv, req) in ((HTML, HCLS, html_self, html_inv, html_requires),
                                        (EPUB, ECLS, epub_self, epub_inv, lambda c: epub_inv(c, RHO, c.st))):
        try:
            extra = _S.silent_overrides(loader.module(rel), cls)
        except Exception:  # noqa
            extra = []
        for name, pname in extra:
            if cls == HCLS and name == "handle_comment":
                continue
            out.append(FnContract(
                target=f"{rel}::{cls}.{name}",
                params=[("self", selfm()), (pname, P_STR)] + GHOST,
                requires=req,
                ensures=[("I-preserved", lambda c, inv=inv: inv(c, RHO)),
                         ("nothing-is-stored", lambda c: frame(c, ()))],
                modifies=("self",),
            ))
    out.append(FnContract(
        target=f"{HTML}::{HCLS}.get_tree",
        params=[("self", html_self())] + GHOST,
        requires=html_requires,
        ensures=[("returns-the-root-the-handlers-fill", lambda c: z3.BoolVal(
                    isinstance(c.result, VRef) and c.result.ref == c.entry.obj(c.args["self"].ref).data[need(HTML, HCLS, c.ex.module.repo, "root")["root"]].ref)),
                 ("pure", lambda c: frame(c, ()))],
        modifies=("self",),
    ))
    # round 7: EPUB get_text (the observation point "chapter text") under a symbolic contract -- total, pure, and its result is a
    # function of the join of the WHOLE list of stored parts (not a slice / filter of it) and of nothing else
    out.append(FnContract(
        target=f"{EPUB}::{ECLS}.get_text",
        params=[("self", epub_self())] + GHOST,
        requires=lambda c: epub_inv(c, RHO, c.st),
        ensures=[("I-preserved", lambda c: epub_inv(c, RHO)),
                 ("pure-(stores-nothing,-a-second-call-gives-the-same-text)", lambda c: frame(c, ())),
                 ("text-is-a-function-of-the-join-of-the-whole-list-of-stored-parts-and-of-nothing-else", get_text_whole)],
        modifies=("self",), total=True,
    ))
    out.append(looks_like_html_contract())
    from contracts import C17_glue
    C17_glue.install(reg)
    out.extend(C17_glue.contracts())
    return out


# ------------------------------------------------- MSG body sniffing (round 2) --
LSTRIP = z3.Function("str_lstrip", S, S)
HINT = z3.Function("html_hint_re_search_matches", S, z3.BoolSort())      # `_HTML_HINT_RE.search(x) is not None`


def hint_regex_name(repo=None):
    """Name of the module-level compiled pattern `_looks_like_html` (or a private helper it calls) searches with -- by ROLE, not
    by name: the only `re.compile(<str literal>)` constant the sniffer refers to."""
    try:
        m = loader.module(MSG, repo)
        seen, todo, names = set(), ["_looks_like_html"], []
        while todo:
            q = todo.pop()
            fn = m.functions.get(q)
            if fn is None or q in seen:
                continue
            seen.add(q)
            for n in ast.walk(fn):
                if isinstance(n, ast.Name) and isinstance(n.ctx, ast.Load):
                    if n.id in m.functions:
                        todo.append(n.id)
                    v = m.assigns.get(n.id)
                    if isinstance(v, ast.Call) and ast.unparse(v.func) in ("re.compile", "compile") and v.args \
                            and isinstance(v.args[0], ast.Constant) and isinstance(v.args[0].value, str) and n.id not in names:
                        names.append(n.id)
        return names[0] if len(names) == 1 else None
    except Exception:  # noqa
        return None


def hint_pattern(repo=None):
    """(pattern text, min width) of the sniffer's hint pattern when it is `re.compile(<literal>, ...)`, else None."""
    try:
        name = hint_regex_name(repo)
        v = loader.module(MSG, repo).assigns.get(name) if name else None
        if v is not None:
            import re._parser as rp
            return v.args[0].value, rp.parse(v.args[0].value).getwidth()[0]
    except Exception:  # noqa
        pass
    return None


def m_hint_search(ex, st, obj, args, kwargs, node):
    """re.Pattern.search on the hint pattern: ASSUMED total; the result is a match object iff HINT(x)."""
    if len(args) != 1 or not isinstance(args[0], VStr):
        return ex.havoc_call(st, "Pattern.search", args, node)
    x = args[0].t
    a = st.fork().assume(HINT(x))
    b = st.assume(z3.Not(HINT(x)))
    return [(s_, v) for (s_, v) in ((a, VExt("ReMatch")), (b, NONE)) if ex.feasible(s_.pc)]


def looks_like_html_contract():
    """An HTML mail body is recognised by evidence ANYWHERE in the body: removed elements may be arbitrarily long
    ("whatever the element contains"), so the first piece of evidence may be arbitrarily far from the start.  Evidence, from
    the routing's own vocabulary: the hint pattern matches somewhere in the body; `<html` / `<body` occurs (case-insensitively);
    the body starts with a doctype.  (Only this direction matters for C17: a body classified HTML goes through the remover.)"""
    P_STR = Maker(lambda ex, st, name: VStr(z3.String(name)), desc="str")

    def nb(c):
        return LOWER(LSTRIP(c.args["text"].t))

    def req(c):
        e_ = z3.StringVal("")
        facts = [LSTRIP(e_) == e_, LOWER(e_) == e_]           # ground PY-STR facts: the empty text contains / starts with nothing
        facts += [z3.Not(STR_HAS(e_, z3.StringVal(k))) for k in ("<html", "<body")] + [z3.Not(STR_STARTS(e_, z3.StringVal("<!doctype")))]
        hp = hint_pattern(c.ex.module.repo)
        if hp is not None and hp[1] >= 1:
            facts.append(z3.Not(HINT(z3.StringVal(""))))      # PY-RE: the pattern needs at least one character
        return z3.And(facts)

    def res(c):
        return c.result.t if isinstance(c.result, VBool) else None

    def imp(ev):
        def f(c):
            r = res(c)
            return z3.BoolVal(False) if r is None else z3.Implies(ev(c), r)
        return f
    return FnContract(
        target=f"{MSG}::_looks_like_html",
        params=[("text", P_STR)],
        hyps=req,              # ground facts about the empty string (PY-STR / PY-RE), assumed -- not a precondition on callers
        ensures=[("hint-element-anywhere-in-the-body-is-recognised", imp(lambda c: HINT(c.args["text"].t))),
                 ("html-or-body-tag-anywhere-in-the-body-is-recognised",
                  imp(lambda c: z3.Or(STR_HAS(nb(c), z3.StringVal("<html")), STR_HAS(nb(c), z3.StringVal("<body"))))),
                 ("leading-doctype-is-recognised", imp(lambda c: STR_STARTS(nb(c), z3.StringVal("<!doctype"))))],
        result_maker=lambda ex, st, ctx: VBool(_G.LLH(ctx.args["text"].t)) if isinstance(ctx.args.get("text"), VStr) else VBool(z3.Bool(fresh_name("llh"))),
        note="recognition of an HTML body does not depend on where in the body the evidence stands",
    )


def post_report(c, rep):
    """A solver model of a VC over the uninterpreted HINT / LSTRIP / LOWER functions is not a refutation by itself
    (DESIGN 2.5.3b): the obligation becomes `unknown`, the native search (replay) decides VIOLATION vs UNDECIDED."""
    if c.target.endswith("::_looks_like_html"):
        for o in rep.obligations:
            if o["status"] == "refuted":
                o["status"] = "unknown"
                o["reason"] = "solver model interprets the uninterpreted regex / lstrip / lower functions: not a refutation by itself; " + (o.get("reason") or "")
    if ("::" + HCLS + ".") in c.target or ("::" + ECLS + ".") in c.target:
        # handler contracts: a refutation is definite only when no unmodelled call (EXC-ANY / havoc) was met on the way
        if getattr(rep, "exc_any_sites", 0):
            for o in rep.obligations:
                if o["status"] == "refuted":
                    o["status"] = "unknown"
                    o["reason"] = f"{rep.exc_any_sites} unmodelled call(s) were over-approximated in this function: not a definite refutation; " + (o.get("reason") or "")
    if c.target in (f"{MHTML}::_find_html_part", f"{MHTML}::_decode_content") and getattr(rep, "exc_any_sites", 0):
        # round 7: definite only when every call on the way had a model (an unmodelled call is over-approximated: any value, may raise)
        for o in rep.obligations:
            if o["status"] == "refuted":
                o["status"] = "unknown"
                o["reason"] = f"{rep.exc_any_sites} unmodelled call(s) were over-approximated in this function: not a definite refutation; " + (o.get("reason") or "")
    if c.target in _G.TARGETS:
        for o in rep.obligations:
            if o["status"] == "refuted":
                o["status"] = "unknown"
                o["reason"] = "failed over the abstract parser / container model (havoc of unmodelled calls): not a refutation by itself; " + (o.get("reason") or "")


# --------------------------------------------------------------------- lemmas --
def _run(events):
    r = RHO_NONE
    for kind, t in events:
        r = spec_start(r, z3.StringVal(t)) if kind == "S" else spec_end(r, z3.StringVal(t))
    return r


def lemmas():
    t = z3.String("t!lem")
    out = [("C17/spec::region/lemma#wf-preserved-by-Start", [wf(RHO)], wf(spec_start(RHO, t))),
           ("C17/spec::region/lemma#wf-preserved-by-End", [wf(RHO)], wf(spec_end(RHO, t))),
           # "whatever the element contains": tags other than the removing one never move the region
           ("C17/spec::region/lemma#foreign-tags-leave-region-alone", [wf(RHO), RHO.on, LOWER(t) != RHO.tag],
            z3.And(*[z3.And(r.on == RHO.on, r.tag == RHO.tag, r.n == RHO.n) for r in (spec_start(RHO, t), spec_end(RHO, t))]))           ]
    # balanced: Start(t) then End(t) of the region's own (or a region-opening) tag returns to the same state
    own = z3.Or(z3.And(RHO.on, LOWER(t) == RHO.tag), z3.And(z3.Not(RHO.on), opens(LOWER(t))))
    r2 = spec_end(spec_start(RHO, t), t)
    out.append(("C17/spec::region/lemma#own-tag-start-end-balanced", [wf(RHO), own],
                z3.And(r2.on == RHO.on, z3.Implies(RHO.on, z3.And(r2.tag == RHO.tag, r2.n == RHO.n)))))
    # known answers (guard the transcription of the spec): the statement's examples
    names = sorted(SPEC_REMOVE | {"img", "b", "p", "br", "param"})
    low = [LOWER(z3.StringVal(k)) == z3.StringVal(k) for k in names]
    KA = [("noscript-img-closed", [("S", "noscript"), ("S", "img"), ("E", "noscript")], False),
          ("noscript-unclosed-p-closed", [("S", "noscript"), ("S", "p"), ("E", "noscript")], False),
          ("noscript-stray-end-still-hidden", [("S", "noscript"), ("E", "b")], True),
          ("void-embed-opens-nothing", [("S", "embed")], False),
          ("nested-object-inner-end-still-hidden", [("S", "object"), ("S", "param"), ("S", "object"), ("E", "object")], True),
          ("nested-object-closed", [("S", "object"), ("S", "object"), ("E", "object"), ("E", "object")], False),
          ("nested-other-removable-ignored", [("S", "iframe"), ("S", "script"), ("E", "script")], True),
          ("script-open", [("S", "script")], True)]
    for name, evs, want in KA:
        out.append((f"C17/spec::region/lemma#known-answer.{name}", low, _run(evs).on == z3.BoolVal(want)))
    return out


# ------------------------------------------------- ground / dataflow (EXTRA) --
def _calls(tree):
    return [n for n in ast.walk(tree) if isinstance(n, ast.Call)]


def policy(repo, tier):
    from pyvc.flow import ground_obligation, dotted
    obls, fns = [], []
    G = lambda oid, ok, why="": obls.append(ground_obligation(oid, bool(ok), why, "tables", kind="module-invariant", backend="ground"))
    P = lambda oid, ok, why="": obls.append(ground_obligation(oid, bool(ok), why or "call-site shape not recognised", "call-sites", definite=False))
    h, e = loader.module(HTML, repo), loader.module(EPUB, repo)
    mh, ms = loader.module(MHTML, repo), loader.module(MSG, repo)

    def lit(m, name):
        """Value of a module-level table of strings, however it is written (set / frozenset / tuple literal, union, ...):
        the module-level initialiser is evaluated by the engine.  None = no such name or not a constant collection."""
        from pyvc.contracts import Registry as _Reg
        from pyvc.exctypes import Universe as _Uni
        from pyvc.values import VSetC as _VSetC
        if name not in m.assigns:
            return None
        try:
            ex = Executor(m, _Reg(), _Uni(repo))
            ex.sinks.append([])
            v = ex.module_const(name)
            items = list(v.items) if isinstance(v, (_VSetC, VTuple)) else None
            if items is None:
                return None
            vals = [x.const() if isinstance(x, VStr) else x for x in items]
            return set(vals) if all(isinstance(x, str) for x in vals) else None
        except Exception:  # noqa
            return None

    def T(oid, table, ok, why):
        """A table invariant: decided (ground) when the table could be evaluated, `unknown` when the name / shape is not
        recognised (the handler proofs read the real tables themselves, so nothing is lost)."""
        if table is None:
            obls.append(ground_obligation(oid, False, "table not found under this name / not a constant collection of strings",
                                          "tables", kind="module-invariant", backend="ground", definite=False))
        else:
            G(oid, ok, why)
    def tables_of(m, cls):
        """Module-level string tables the start-tag handler (and private helpers of the class it calls) refers to, by name."""
        seen, todo, names = set(), [f"{cls}.handle_starttag"], []
        while todo:
            q = todo.pop()
            fn_ = m.functions.get(q)
            if fn_ is None or q in seen:
                continue
            seen.add(q)
            for n in ast.walk(fn_):
                if isinstance(n, ast.Name) and isinstance(n.ctx, ast.Load) and n.id in m.assigns and n.id not in names:
                    names.append(n.id)
                if isinstance(n, ast.Attribute) and isinstance(n.value, ast.Name) and n.value.id in ("self", cls):
                    todo.append(f"{cls}.{n.attr}")
        return {n: lit(m, n) for n in names if lit(m, n) is not None}

    def by_role(m, cls):
        """(remove table, void table): by the conventional name when present, else by role among the tables the handler uses:
        the remove table is the one that contains `script`; the void table is the other one that contains `embed` / `br`."""
        tabs = tables_of(m, cls)
        rm = lit(m, "REMOVE_TAGS")
        if rm is None:
            c_ = [v for v in tabs.values() if "script" in v]
            rm = c_[0] if len(c_) == 1 else None
        vd = lit(m, "_VOID_TAGS")
        if vd is None:
            c_ = [v for v in tabs.values() if "script" not in v and "div" not in v and ("embed" in v or "br" in v)]
            vd = c_[0] if len(c_) == 1 else None
        return rm, vd
    (hr, hv), (er, _ev) = by_role(h, HCLS), by_role(e, ECLS)
    T("C17/html_extractor.py::REMOVE_TAGS/module-invariant#equals-the-removable-set-of-the-statement", hr, hr == set(SPEC_REMOVE), f"{sorted(hr or [])}")
    T("C17/epub_extractor.py::REMOVE_TAGS/module-invariant#equals-the-removable-set-of-the-statement", er, er == set(SPEC_REMOVE), f"{sorted(er or [])}")
    T("C17/html_extractor.py::_VOID_TAGS/module-invariant#void-and-removable-agree-with-HTML", hv, hv is not None and hv & SPEC_REMOVE == SPEC_VOID & SPEC_REMOVE,
      f"{sorted((hv or set()) & SPEC_REMOVE)} vs {sorted(SPEC_VOID & SPEC_REMOVE)}")
    T("C17/html_extractor.py::_VOID_TAGS/module-invariant#only-HTML-void-elements", hv, hv is not None and hv <= SPEC_VOID and {"img", "br", "input", "param", "source"} <= hv,
      f"extra={sorted((hv or set()) - SPEC_VOID)}")
    bad = [t for s_ in (hr, er, hv) if s_ for t in s_ if t != t.lower() or not t.isalnum()]
    T("C17/html+epub::tables/module-invariant#entries-lowercase-names", None if (hr is None or er is None or hv is None) else True, not bad, str(bad))

    # the parser classes override only callbacks that are under contract; everything else html.parser
    # delivers (comments for EPUB, declarations, processing instructions, CDATA sections) hits the inherited no-op
    under = {"__init__", "handle_starttag", "handle_endtag", "handle_data", "handle_comment"}
    callbacks = {"handle_startendtag", "handle_comment", "handle_decl", "handle_pi", "unknown_decl", "handle_charref",
                 "handle_entityref", "feed", "close", "reset", "goahead", "parse_starttag", "parse_endtag",
                 "parse_comment", "parse_html_declaration", "parse_marked_section", "parse_pi", "set_cdata_mode", "clear_cdata_mode"}
    for m, cls, short in ((h, HCLS, "html_extractor.py"), (e, ECLS, "epub_extractor.py")):
        node = m.classes.get(cls)
        ok = node is not None and len(node.bases) == 1 and C17_sites.is_library_parser(m, node.bases[0])
        fine = under | C17_sites.accepted_overrides(m, cls)
        over = sorted(n.name for n in (node.body if node else []) if isinstance(n, ast.FunctionDef) and n.name in callbacks - fine)
        P(f"C17/{short}::{cls}/call-site#only-contracted-parser-callbacks-overridden", ok and not over, f"base ok={ok}; overrides outside the contracts: {over}")
        init = m.functions.get(f"{cls}.__init__")
        def base_init(c_):
            """super().__init__(..) / super(C, self).__init__(..) -> 0 ; <library base>.__init__(self, ..) -> 1 (positional self); else None"""
            f_ = c_.func
            if not (isinstance(f_, ast.Attribute) and f_.attr == "__init__"):
                return None
            if isinstance(f_.value, ast.Call) and dotted(f_.value.func) == "super":
                return 0
            return 1 if C17_sites.is_library_parser(m, f_.value) else None
        sup = [c_ for c_ in _calls(init) if base_init(c_) is not None] if init else []
        kw = {k.arg: ast.unparse(k.value) for c_ in sup for k in c_.keywords}
        # convert_charrefs defaults to True (Python >= 3.5); no __init__ at all inherits that default
        P(f"C17/{short}::{cls}.__init__/call-site#charrefs-converted-so-text-arrives-only-through-handle_data",
          (init is None or len(sup) == 1) and kw.get("convert_charrefs", "True") == "True"
          and not any(len(c_.args) > base_init(c_) for c_ in sup), f"base __init__ keywords: {kw}")
        if init is not None:
            fns.append(dict(m.fn_info(f"{cls}.__init__"), obligations=1))

    # reuse sites: read_html, msg._html_to_text, read_mhtml and epub._extract_chapter are under symbolic contracts
    # (contracts/C17_glue.py) since round 3 -- the former shape checks broke on helper extraction / import style.
    # get_text only reads what handle_data/handle_*tag stored (joins text_parts)
    gt = e.functions.get(f"{ECLS}.get_text")
    # dataflow form: get_text stores nothing, and the only state it reads is the list of stored parts
    if gt is not None:
        reads = sorted({n.attr for n in ast.walk(gt) if isinstance(n, ast.Attribute) and isinstance(n.value, ast.Name) and n.value.id == "self"
                        and isinstance(n.ctx, ast.Load)})
        stores = [n for n in ast.walk(gt) if isinstance(n, (ast.Attribute, ast.Subscript)) and isinstance(n.ctx, (ast.Store, ast.Del))
                  and any(isinstance(x, ast.Name) and x.id == "self" for x in ast.walk(n))]
        ok, why = reads == ["text_parts"] and not stores, f"reads self.{reads}, {len(stores)} store(s) through self"
    else:
        ok, why = False, "get_text missing"
    P("C17/epub_extractor.py::_XhtmlTextExtractor.get_text/call-site#text-is-the-join-of-stored-parts", ok, why)
    return {"obligations": obls, "functions": fns}


from contracts import C17_sites  # noqa: E402


def known_findings(kf, violations, repo, tier):
    """Recorded genuine defects (known_findings.json): each witness document is replayed natively; a finding that still fails
    prints KNOWN-FINDING and covers exactly its own obligation ids (every other refuted obligation stays a violation)."""
    import json
    import os
    import subprocess
    out = []
    vio_ids = {v["id"] for v in violations}
    for f in kf:
        req = {"property": "C17", "obligation": f["obligation"], "known_finding": f["id"], "witness": f.get("witness"), "repo": repo}
        try:
            p = subprocess.run(["/venv/bin/python", os.path.join(os.path.dirname(os.path.dirname(os.path.abspath(__file__))), "replay", "run.py")],
                               input=json.dumps(req), capture_output=True, text=True, timeout=600, env=dict(os.environ, VERIF_REPO=repo))
            lines = [l for l in p.stdout.splitlines() if l.startswith("{")]
            res = json.loads(lines[-1]) if lines else {"reproduced": False}
        except Exception as e:  # noqa
            res = {"reproduced": False, "note": str(e)}
        still = bool(res.get("reproduced"))
        covers = [o for o in f.get("covers", [f["obligation"]]) if o in vio_ids] if still else []
        out.append({"finding": f["id"], "still_fails": still, "line": f"{f['id']}: {f['what']}", "covers": covers,
                    "witness_replay": str(res.get("observed", res.get("note", "")))[:400]})
    return out

EXTRA = [policy, C17_sites.tokeniser_configuration, C17_sites.input_provenance, C17_sites.native_scope, C17_sites.mhtml_fallback_scope]

TRUSTED = ["html.parser.HTMLParser: feed(text) calls the overridden handlers with an event sequence; <x/> = Start then End; "
           "tag names are compared through str.lower; HTMLParser.__init__ touches only its own private fields; "
           "inherited handle_comment/handle_decl/handle_pi/unknown_decl are no-ops",
           "tree walker (_HtmlTextExtractor) emits every stored text/tail and nothing else (C02's obligation, not re-proved here)"]
ASSUMED_MODELS = ["str.lower (uninterpreted function, shared by spec and code)", "str.split / str.join / str.strip (total, opaque result)",
                  "html.parser.HTMLParser.__init__ (no effect on subclass fields)", "attrs: list of (str, Optional[str]) pairs",
                  "email.message.Message (round 7): get_content_type / is_multipart / walk / get_payload(decode=False) / get(name, '') are total "
                  "functions of the message object; walk() is a finite sequence; get(name, '') is a str or (non-ASCII value) an email.header.Header "
                  "object without str methods, str(<Header>) is total",
                  "re (round 7, inside epub get_text only): <compiled str pattern>.sub(<constant without backslash>, text) and re.sub(<constant "
                  "pattern re accepts>, <constant>, text) are total functions of the text",
                  "quopri.decodestring / base64.b64decode (partial functions of the bytes: value or exception), str.encode('utf-8', errors='replace') "
                  "(total), <whitespace regex>.sub(b'', x) (function of x; the pattern is checked to match whitespace only), "
                  "bytes slicing / lower / `in` (total, opaque)"]
# round 7: targets registered twice -- VERIFIED on the real body, and as the abbreviated view their callers use.  Reported as assumed
# only while an obligation of the verified registration is open (pyvc/check.py, key `call_site_views_of_verified_contracts`).
CALL_SITE_VIEWS = {
    f"{MHTML}::_find_html_part": "view of _extract_from_mhtml: `mime_has_html_part(msg)` / `mime_html_part(msg)` -- the verified clause makes the result a "
                                 "function of the MIME view of msg (first text/html part in walk order, decoded completely; else the sniffed single body; else None)",
    f"{MHTML}::_decode_content": "view of _find_html_part: `mime_decoded_content(part)`, total -- abbreviates the verified case analysis "
                                 "(payload kind x transfer encoding; the raises obligation of the verified registration is discharged)",
}
ASSUMPTIONS = ["PY-STR", "PY-EXC", "PY-ALIAS: last_closed is None, the root, or a node distinct from the materialised stack top",
               "TREE-FINITE", "lists of symbolic length are modelled as abstract prefix + appended tail; only append/pop/[-1]/len/truth are in the subset",
               "call-site obligations are syntactic shape checks (back end 'dataflow', UNDECIDED when the shape is not recognised)"]
BOUNDED = ["replay/C17.py: native grammar search (about 1000 documents: visible blocks x removable elements x void / self-closing / "
           "unclosed / mis-nested / nested-removable / comment / CDATA contents, documents html.parser refuses, unusual metadata values, "
           "degenerate tables / lists / headings / links / images next to removed content, through read_html, read_mhtml, msg._html_to_text and an "
           "EPUB chapter) is a witness finder for refuted obligations only; it is bounded and never counted as proof"]

REPLAY_UNKNOWN = True    # undecided / out-of-subset items are searched natively (replay) before being reported UNDECIDED
