"""C01 round 7 -- termination of the package's own RECURSIVE functions: structural descent, discharged per function.

Rounds 1-6 listed recursion as "not discharged" (CPython bounds the depth; a RecursionError is an Exception subclass the exceptional
postconditions admit).  That argument needs no contract, but it also accepts a function that recurses on ITS OWN ARGUMENT (every call then
ends in a RecursionError after 1000 frames of work per node: the document is lost and the time is depth-limit x fan-out).  This module gives
every directly recursive function the obligation

    <file>::<qualname>/decreases#recursion-descends-into-a-proper-part

    there is a parameter position p such that EVERY recursive call passes, at p, a value that is STRICTLY BELOW the caller's own argument
    at p in the part-of order of finite trees (an element iterated out of it, a subscript, a field, the result of find / findall ...)

and a per-file scan obligation `<file>::*/decreases#every-recursion-listed` (the functions found; cycles through several functions of the
module, which this rule does not cover, make it `unknown`).  Measure: the size of the (finite, acyclic) tree below the argument.
What stays ASSUMED (TREE-FINITE, listed in the pack's trusted base): the trees handed in are finite and acyclic (ElementTree / html node
trees built by a parser from a finite document, JSON-like values, dataclass instances), and the part-of steps of the table below return
strict parts (`Element.iter()` does NOT: it yields the element itself first, and is therefore not in the table).
The analysis is a flow-insensitive level computation over the names of the function: level 0 = may be the argument itself, level >= 1 =
strictly below it, None = not known to be a part.  A name assigned several times takes the worst case.  A failure is `unknown` (the shape was
not recognised), never a violation by itself; the native replayer looks for the hang."""
import ast

from pyvc import loader
from pyvc.flow import ground_obligation

# methods whose result (or every element of whose result) is strictly below the receiver
STRICT_METHODS = {"find", "findall", "iterfind", "getchildren", "values", "items", "get", "findtext", "pop", "popitem", "iterchildren", "children"}
# builtins / constructors that keep the level of their first argument (a collection of the same elements / the same object)
SAME_LEVEL_CALLS = {"list", "dict", "tuple", "reversed", "sorted", "iter", "set", "frozenset", "enumerate", "zip", "filter", "cast"}
INF = 10 ** 6


def _own_calls(fn, cls):
    out = []
    for n in _walk_own(fn):
        if isinstance(n, ast.Call):
            f = n.func
            if isinstance(f, ast.Name) and f.id == fn.name and cls is None:
                out.append(n)
            elif isinstance(f, ast.Attribute) and f.attr == fn.name and cls is not None and isinstance(f.value, ast.Name) and f.value.id in ("self", "cls", cls):
                out.append(n)
    return out


def _walk_own(fn):
    """nodes of fn's body including lambdas / comprehensions, excluding nested def / class bodies"""
    todo = list(fn.body)
    while todo:
        n = todo.pop()
        yield n
        for c in ast.iter_child_nodes(n):
            if isinstance(c, (ast.FunctionDef, ast.AsyncFunctionDef, ast.ClassDef)):
                continue
            todo.append(c)


class Levels:
    def __init__(self, fn, param):
        self.fn, self.param = fn, param
        self.lv = {}
        self.parents = None
        self.defs = {}          # name -> [(kind, expr)]   kind: "same" (name = expr), "elem" (name iterates expr / is unpacked from it)
        shadow = set()
        for n in _walk_own(fn):
            if isinstance(n, ast.Lambda):
                shadow.update(a.arg for a in n.args.args + n.args.kwonlyargs)
            if isinstance(n, ast.Assign):
                for t in n.targets:
                    self._bind(t, n.value, "same")
            elif isinstance(n, ast.AnnAssign) and n.value is not None:
                self._bind(n.target, n.value, "same")
            elif isinstance(n, ast.NamedExpr):
                self._bind(n.target, n.value, "same")
            elif isinstance(n, ast.AugAssign):
                self._bind(n.target, None, "same")
            elif isinstance(n, (ast.For, ast.AsyncFor)):
                self._bind(n.target, n.iter, "elem")
            elif isinstance(n, ast.comprehension):
                pass                                   # comprehension variables have their own scope: see `overlay`
            elif isinstance(n, (ast.With, ast.AsyncWith)):
                for it in n.items:
                    if it.optional_vars is not None:
                        self._bind(it.optional_vars, None, "same")
            elif isinstance(n, ast.ExceptHandler) and n.name:
                self.defs.setdefault(n.name, []).append(("same", None))
        for a in fn.args.args + fn.args.kwonlyargs + fn.args.posonlyargs + [x for x in (fn.args.vararg, fn.args.kwarg) if x]:
            if a.arg != param:
                self.defs.setdefault(a.arg, []).append(("same", None))
        for s in shadow:
            self.defs.setdefault(s, []).append(("same", None))
        # greatest fixpoint from "everything strictly below" downwards would be unsound for cyclic definitions (a = b; b = a): start
        # from "unknown" and iterate upwards instead -- a name only gets a level once all its definitions have one
        names = set(self.defs) | {param}
        for _ in range(len(names) + 2):
            changed = False
            for nm in names:
                v = self._name_level(nm)
                if v != self.lv.get(nm):
                    self.lv[nm] = v
                    changed = True
            if not changed:
                break

    def _bind(self, target, value, kind):
        if isinstance(target, ast.Name):
            self.defs.setdefault(target.id, []).append((kind, value))
        elif isinstance(target, (ast.Tuple, ast.List)):
            if isinstance(value, ast.Call) and isinstance(value.func, ast.Name) and value.func.id == "enumerate" and target.elts:
                self._bind(target.elts[0], None, "same")          # the index is no part of anything
                for e in target.elts[1:]:
                    self._bind(e, value, "elem")
                return
            for e in target.elts:
                e = e.value if isinstance(e, ast.Starred) else e
                # unpacking: every target is an element of the value (`a, b = children`), or an element of an element when iterating pairs
                self._bind(e, value, "elem" if kind == "same" else "elem2")
        # attribute / subscript targets bind no name

    def _name_level(self, nm):
        ds = list(self.defs.get(nm, ()))
        if any(e is None for _k, e in ds):
            return None

        def run():
            vals = [0] if nm == self.param else []
            for kind, e in ds:
                l = self.level(e)
                vals.append(None if l is None else l + (1 if kind in ("elem", "elem2") else 0))
            return vals
        saved = self.lv.get(nm)
        try:
            # definitions that mention the name itself (`data = dict(data)`, `node = node.child`): evaluated under the level the OTHER
            # definitions give (levels are monotone in it, so the minimum is unchanged); no other definition -> not known
            self.lv[nm] = None
            base = [v for v in run() if v is not None]
            if not base:
                return None
            self.lv[nm] = min(base)
            vals = run()
            return None if any(v is None for v in vals) else min(vals)
        finally:
            self.lv[nm] = saved

    def overlay_for(self, node):
        """names bound by the comprehensions that enclose `node` (innermost wins), with their levels"""
        if self.parents is None:
            self.parents = {}
            for p in _walk_own(self.fn):
                for c in ast.iter_child_nodes(p):
                    self.parents[id(c)] = p
        chain, cur = [], node
        while id(cur) in self.parents:
            cur = self.parents[id(cur)]
            if isinstance(cur, (ast.ListComp, ast.SetComp, ast.GeneratorExp, ast.DictComp)):
                chain.append(cur)
        saved_defs, saved_lv = self.defs, self.lv
        try:
            for comp in reversed(chain):              # outermost first
                for g in comp.generators:
                    self.defs, tmp = {}, self.defs
                    self._bind(g.target, g.iter, "elem")
                    new = self.defs
                    self.defs = tmp
                    lv = dict(self.lv)
                    for nm, ds in new.items():
                        vals = []
                        for kind, e in ds:
                            l = None if e is None else self.level(e)
                            vals.append(None if l is None else l + 1)
                        lv[nm] = None if (not vals or any(v is None for v in vals)) else min(vals)
                    self.lv = lv
            return self.lv
        finally:
            self.defs, self.lv = saved_defs, saved_lv

    def level_at(self, e, site):
        saved = self.lv
        self.lv = self.overlay_for(site)
        try:
            return self.level(e)
        finally:
            self.lv = saved

    def level(self, e):
        """None = not known to be a part of the argument; 0 = may be the argument itself; n >= 1 = strictly below"""
        if isinstance(e, ast.Name):
            return self.lv.get(e.id)
        if isinstance(e, ast.Subscript):
            b = self.level(e.value)
            if b is None:
                return None
            return b if isinstance(e.slice, ast.Slice) else b + 1
        if isinstance(e, ast.Attribute):
            b = self.level(e.value)
            return None if b is None else b + 1
        if isinstance(e, ast.Starred):
            return self.level(e.value)
        if isinstance(e, ast.IfExp):
            a, b = self.level(e.body), self.level(e.orelse)
            return None if a is None or b is None else min(a, b)
        if isinstance(e, ast.BoolOp):
            ls = [self.level(v) for v in e.values]
            return None if any(l is None for l in ls) else min(ls)
        if isinstance(e, ast.NamedExpr):
            return self.level(e.value)
        if isinstance(e, (ast.List, ast.Tuple)) and e.elts:
            ls = [self.level(v) for v in e.elts]           # a display of parts: a collection one level ABOVE its elements
            return None if any(l is None for l in ls) else max(min(ls) - 1, 0) if min(ls) >= 1 else None
        if isinstance(e, (ast.ListComp, ast.GeneratorExp, ast.SetComp)):
            l = self.level(e.elt)
            return None if l is None or l < 1 else l - 1
        if isinstance(e, ast.Call):
            f = e.func
            if isinstance(f, ast.Name) and f.id in SAME_LEVEL_CALLS and e.args:
                ls = [self.level(a) for a in (e.args[1:] if f.id in ("filter", "cast") else e.args)]
                return None if any(l is None for l in ls) else min(ls)
            if isinstance(f, ast.Name) and f.id == "getattr" and e.args:
                b = self.level(e.args[0])
                return None if b is None else b + 1
            if isinstance(f, ast.Attribute) and f.attr in STRICT_METHODS:
                b = self.level(f.value)
                return None if b is None else b + 1
            return None
        return None


def _arg_at(call, fn, idx, name, is_method):
    pos = idx - (1 if is_method else 0)
    if any(isinstance(a, ast.Starred) for a in call.args) or any(k.arg is None for k in call.keywords):
        return None
    if 0 <= pos < len(call.args):
        return call.args[pos]
    for k in call.keywords:
        if k.arg == name:
            return k.value
    return None


def analyse(fn, cls):
    """-> (ok, text) for one directly recursive function"""
    calls = _own_calls(fn, cls)
    params = [a.arg for a in fn.args.posonlyargs + fn.args.args]
    is_method = cls is not None and bool(params) and params[0] in ("self", "cls")
    tried = []
    for idx, p in enumerate(params):
        if is_method and idx == 0:
            continue
        lv = Levels(fn, p)
        worst, bad = INF, None
        for c in calls:
            a = _arg_at(c, fn, idx, p, is_method)
            l = lv.level_at(a, c) if a is not None else None
            if l is None or l < 1:
                bad = f"line {c.lineno}: `{ast.unparse(c)[:70]}` passes " + ("nothing readable" if a is None else f"`{ast.unparse(a)[:40]}`") + \
                      (" (may be the caller's own argument)" if l == 0 else " (not known to be a part of it)")
                break
            worst = min(worst, l)
        if bad is None:
            return True, f"{len(calls)} recursive call(s), each passes a proper part of parameter `{p}` (measure: size of the finite tree below `{p}`)"
        tried.append(f"`{p}`: {bad}")
    return False, "no parameter position descends at every recursive call -- " + "; ".join(tried)[:600]


def linear(fn, cls):
    """at most ONE recursive call per activation: a single call site that is in no loop, comprehension, lambda (every activation then makes
    at most one further activation: the chain is as long as the interpreter's recursion limit allows, and ends in a RecursionError)"""
    calls = _own_calls(fn, cls)
    if len(calls) != 1:
        return False
    parents = {}
    for p in _walk_own(fn):
        for c in ast.iter_child_nodes(p):
            parents[id(c)] = p
    cur = calls[0]
    while id(cur) in parents:
        cur = parents[id(cur)]
        if isinstance(cur, (ast.For, ast.AsyncFor, ast.While, ast.ListComp, ast.SetComp, ast.DictComp, ast.GeneratorExp, ast.Lambda)):
            return False
    return True


def _functions(tree):
    """(qualname, FunctionDef, enclosing class name or None) for every function, nested ones included"""
    out = []

    def visit(node, qual, cls):
        for n in ast.iter_child_nodes(node):
            if isinstance(n, ast.ClassDef):
                visit(n, qual + [n.name], n.name)
            elif isinstance(n, (ast.FunctionDef, ast.AsyncFunctionDef)):
                out.append((".".join(qual + [n.name]), n, cls if isinstance(node, ast.ClassDef) else None))
                visit(n, qual + [n.name], None)
            elif not isinstance(n, ast.expr):
                visit(n, qual, cls)
    visit(tree, [], None)
    return out


def _cycles(tree):
    """cycles of length >= 2 in the call graph of the module's top-level functions and of the methods of each class"""
    fns = _functions(tree)
    graph = {}
    for q, fn, cls in fns:
        if "." in q and cls is None:
            continue                       # nested functions: only direct recursion is looked at
        tgt = set()
        for n in _walk_own(fn):
            if isinstance(n, ast.Call):
                f = n.func
                if isinstance(f, ast.Name):
                    tgt.add(f.id)
                elif isinstance(f, ast.Attribute) and isinstance(f.value, ast.Name) and f.value.id in ("self", "cls") and cls:
                    tgt.add(f"{cls}.{f.attr}")
        graph[q] = tgt
    graph = {k: {t for t in v if t in graph and t != k} for k, v in graph.items()}
    # Tarjan-free: reachability closure (modules have a few hundred functions at most)
    out = []
    reach = {}
    for k in graph:
        seen, todo = set(), list(graph[k])
        while todo:
            x = todo.pop()
            if x not in seen:
                seen.add(x)
                todo.extend(graph[x])
        reach[k] = seen
    done = set()
    for k in graph:
        if k in reach[k] and k not in done:
            comp = sorted(x for x in reach[k] if k in reach[x]) or [k]
            done.update(comp)
            out.append(comp)
    return out


def analyse_cycle(tree, comp):
    """a call cycle through several functions: on the FIRST (non-self) parameter every call between members passes a value at or below
    the caller's own (level >= 0), and the calls that pass it unchanged (level 0) form no cycle -- every cycle then has a strict step.
    Measure: (size of the finite tree below the argument, rank of the function in the DAG of the level-0 calls), lexicographic."""
    byq = {q: (fn, cls) for q, fn, cls in _functions(tree)}
    zero = {q: set() for q in comp}
    notes = []
    for q in comp:
        fn, cls = byq[q]
        params = [a.arg for a in fn.args.posonlyargs + fn.args.args]
        is_m = cls is not None and bool(params) and params[0] in ("self", "cls")
        if len(params) <= (1 if is_m else 0):
            return False, f"{q} has no parameter to descend on"
        lv = Levels(fn, params[1 if is_m else 0])
        for n in _walk_own(fn):
            if not isinstance(n, ast.Call):
                continue
            f = n.func
            tgt = f.id if isinstance(f, ast.Name) else (f"{cls}.{f.attr}" if isinstance(f, ast.Attribute) and isinstance(f.value, ast.Name)
                                                        and f.value.id in ("self", "cls") and cls else None)
            if tgt not in comp:
                continue
            tfn, tcls = byq[tgt]
            tparams = [a.arg for a in tfn.args.posonlyargs + tfn.args.args]
            t_m = tcls is not None and bool(tparams) and tparams[0] in ("self", "cls")
            if len(tparams) <= (1 if t_m else 0):
                return False, f"{tgt} has no parameter to descend on"
            a = _arg_at(n, tfn, 1 if t_m else 0, tparams[1 if t_m else 0], t_m)
            l = lv.level_at(a, n) if a is not None else None
            if l is None:
                return False, f"line {n.lineno}: `{ast.unparse(n)[:70]}` in {q}: first argument not known to be at or below {q}'s own"
            notes.append(f"{q}->{tgt}:{'same' if l == 0 else 'strict'}")
            if l == 0:
                zero[q].add(tgt)
    # the level-0 calls must be acyclic
    state = {}

    def dfs(x):
        state[x] = 1
        for y in zero[x]:
            if state.get(y) == 1 or (state.get(y) is None and dfs(y)):
                return True
        state[x] = 2
        return False
    for q in comp:
        if state.get(q) is None and dfs(q):
            return False, "the calls that pass the argument unchanged form a cycle: " + ", ".join(notes)
    return True, "every call between the members passes a value at or below the caller's first argument and every cycle has a strict step: " + ", ".join(sorted(set(notes)))


def recursion(repo, tier):
    obls = []
    try:
        files = [f for f in loader.all_package_files(repo) if "/sharepoint_io/" not in f and "/tests/" not in f]
    except Exception as e:  # noqa
        return {"obligations": [ground_obligation("C01/package::*/decreases#every-recursion-listed", False, f"package not readable: {e}"[:200],
                                                  kind="decreases", definite=False)], "functions": []}
    for rel in files:
        base = rel.split("/")[-1]
        try:
            tree = loader.module(rel, repo).tree
            found = []
            for q, fn, cls in _functions(tree):
                if not _own_calls(fn, cls):
                    continue
                ok, why = analyse(fn, cls)
                found.append(q)
                o = ground_obligation(f"C01/{base}::{q}/decreases#recursion-descends-into-a-proper-part", ok, f"{rel}:{fn.lineno} {why}",
                                      f"{rel}:{fn.lineno}", kind="decreases", definite=False)
                o["function"] = f"{rel}::{q}"
                if not ok and linear(fn, cls):
                    # NOT a structural descent (the argument may come back: a reference that resolves to its own container).  What can be
                    # said: one recursive call per activation, so the chain is cut by the interpreter's recursion limit (RecursionError, an
                    # Exception subclass the callers' exceptional postconditions admit).  Labelled bounded: never counted as proved.
                    o.update(status="bounded-ok", bounded=True)
                    o["backends"] = {"dataflow-bounded": 1}
                    o["reason"] = (f"{rel}:{fn.lineno} BOUNDED BY THE INTERPRETER, not by a measure: linear recursion (one call site, in no loop), depth <= "
                                   f"sys.getrecursionlimit(); structural descent NOT shown -- {why}")[:600]
                obls.append(o)
            cyc = _cycles(tree)
            for comp in cyc:
                ok, why = analyse_cycle(tree, comp)
                o = ground_obligation(f"C01/{base}::{'+'.join(comp)}/decreases#mutual-recursion-descends-into-a-proper-part", ok, f"{rel}: {why}"[:600],
                                      rel, kind="decreases", definite=False)
                o["function"] = f"{rel}::{comp[0]}"
                obls.append(o)
            if found or cyc or base in _locked_files():
                why = f"{rel}: directly recursive functions: {found or 'none'}; call cycles through several functions: {cyc or 'none'}"[:500]
                o = ground_obligation(f"C01/{base}::*/decreases#every-recursion-listed", True, why, rel, kind="decreases", definite=False)
                o["function"] = f"{rel}::*"
                obls.append(o)
        except Exception as e:  # noqa  (pack code on an unforeseen shape: undecided, never a crash)
            obls.append(ground_obligation(f"C01/{base}::*/decreases#every-recursion-listed", False, f"{rel}: recursion scan failed: {type(e).__name__}: {e}"[:300],
                                          rel, kind="decreases", definite=False))
    return {"obligations": obls, "functions": []}


recursion.__name__ = "recursion_structural_descent"


def _locked_files():
    import json
    import os
    try:
        lock = json.load(open(os.path.join(os.path.dirname(os.path.dirname(os.path.abspath(__file__))), "obligations.lock.json"))).get("C01", {})
        return {k.split("/", 1)[1].split("::")[0] for k in lock if "/decreases#recursion-" in k and "::" in k}
    except Exception:  # noqa
        return set()
