"""Pack-local data-flow analyses for C09 (no SMT; back end `dataflow`), written to survive ordinary refactorings.

1. `GuardFlow` -- "guard G(values) was evaluated with the right outcome on every path to sink S(values)" as a forward must-analysis
   over the structured AST in which facts are attached to *values*, not to variable names:

   * every binding gets an immutable value token (SSA-like), pure expressions are canonicalised over tokens
     (`filename = member.name` makes `filename` and `member.name` the same value), so renaming / inlining / hoisting locals changes nothing
     and no kill rule is needed (a rebound name simply maps to a new token);
   * conditions are decomposed through `not`, `and` / `or` (De Morgan), comparison flipping (`a > L`, `not (a <= L)`, `L < a`, ...),
     boolean locals (`skip = f(x)` ... `if skip:`), and calls of boolean helper functions of the same module (summary: facts that hold
     when the helper returns True / False, in terms of its parameters);
   * element facts of iterables: a local list that is only ever `append`ed to, a list / generator comprehension, the value returned by a
     list-building helper, the values yielded by a local *generator* helper -- `for a, b, c in <iterable>` instantiates them on the loop
     targets by tuple position;
   * private helpers get entry facts from their call sites (intersection over every call site in the module).

   A sink whose fact is not established is NOT a refutation (the analysis under-approximates dominance): callers report `unknown` and
   the native replayer decides.

2. `Confined` -- interprocedural "every path that reaches a file-system primitive is the extraction base, a `_safe_join(base, ...)`
   result, its dirname, or a parameter that every call site binds to such a value" (fixpoint over helper functions of the two modules).
"""
from __future__ import annotations

import ast
import re

from pyvc.flow import dotted

LIMITS = ("g:_config.max_memory_size", "g:MAX_MEMORY_SIZE")
SKIP_FN = "_should_skip_file"
DISPATCH_FN = "_process_archive_entry"


# ================================================================ GuardFlow ==
class St:
    __slots__ = ("env", "facts")

    def __init__(self, env, facts):
        self.env, self.facts = env, facts

    def copy(self):
        return St(dict(self.env), self.facts)


class Elems:
    """facts every element of an iterable satisfies, over `$` (the element) / `$i` (its i-th tuple component)"""

    def __init__(self, arity, facts):
        self.arity, self.facts = arity, frozenset(facts)

    def meet(self, o):
        if o is None or self.arity != o.arity:
            return None
        return Elems(self.arity, self.facts & o.facts)

    def __eq__(self, o):
        return isinstance(o, Elems) and (self.arity, self.facts) == (o.arity, o.facts)

    def __hash__(self):
        return hash((self.arity, self.facts))


def _meet_all(items):
    out = None
    for k, e in enumerate(items):
        if e is None:
            return None
        out = e if k == 0 else out.meet(e)
        if out is None:
            return None
    return out


def _sub(fact, mapping):
    """textual substitution of value keys inside a fact (longest keys first)"""
    keys = sorted(mapping, key=len, reverse=True)
    if not keys:
        return fact
    rx = re.compile("|".join(re.escape(k) for k in keys))
    return (fact[0],) + tuple(rx.sub(lambda m: mapping[m.group(0)], c) for c in fact[1:])


class FnResult:
    def __init__(self):
        self.needs = []      # (node, fact, ok, kind, desc)
        self.calls = []      # (callee, node, {param: canon}, facts, {param: Elems|None}, {param: kind})
        self.returns = []    # (value node | None, St)
        self.yields = []     # (value node | None, St)
        self.writes = []     # (path canon, data canon, node): `fh.write(data)` on a file opened for writing
        self.appends = {}    # list name -> [(elt node, St)]
        self.bad_lists = set()


class GuardFlow:
    def __init__(self, mod, package_sources=()):
        self.mod = mod
        self.fns = {q: f for q, f in mod.functions.items() if "<locals>" not in q}
        self.by_simple = {}
        for q, f in self.fns.items():
            self.by_simple.setdefault(q.split(".")[-1], []).append(q)
        self.package_sources = package_sources
        self._summary = {}
        self._in_progress = set()
        self.entry = {}          # fn -> (facts over π tokens, {param: Elems}, {param: kind})
        self.results = {}
        self._foreign = None
        self.slices, self.joins = {}, {}     # canonical key -> components

    # ---- naming ------------------------------------------------------------
    def canonical_call(self, call):
        d = dotted(call.func)
        if not d:
            return ""
        head, _, rest = d.partition(".")
        origin = self.mod.imports.get(head)
        if origin:
            return origin + ("." + rest if rest else "")
        return d

    def params(self, q):
        f = self.fns[q]
        ps = [a.arg for a in f.args.posonlyargs + f.args.args]
        if "." in q and ps and ps[0] in ("self", "cls"):
            ps = ps[1:]
        return ps + [a.arg for a in f.args.kwonlyargs]

    def resolve(self, call):
        """-> qualname of the module function / method this call targets (None: not local)"""
        fn = call.func
        if isinstance(fn, ast.Name):
            qs = [q for q in self.by_simple.get(fn.id, []) if "." not in q]
            return qs[0] if len(qs) == 1 else None
        if isinstance(fn, ast.Attribute) and isinstance(fn.value, ast.Name) and fn.value.id in ("self", "cls"):
            qs = [q for q in self.by_simple.get(fn.attr, []) if "." in q]
            return qs[0] if len(qs) == 1 else None
        return None

    def bind_args(self, q, call):
        ps = self.params(q)
        out = {}
        for i, a in enumerate(call.args):
            if isinstance(a, ast.Starred) or i >= len(ps):
                return None
            out[ps[i]] = a
        for kw in call.keywords:
            if kw.arg is None or kw.arg not in ps:
                return None
            out[kw.arg] = kw.value
        return out

    def fresh(self, name, node, tag=""):
        return f"«{name}@{getattr(node, 'lineno', 0)}.{getattr(node, 'col_offset', 0)}{tag}»"

    # ---- values ------------------------------------------------------------
    PURE_CALLS = {"os.path.basename": "basename", "posixpath.basename": "basename"}
    SAME_BYTES = ("memoryview", "bytes", "bytearray")
    SANITISER = "_safe_join"

    def pure(self, e):
        """an expression whose value is determined by the values of the names in it (no call with an effect or an unknown result)"""
        if isinstance(e, (ast.Name, ast.Constant)):
            return True
        if isinstance(e, ast.Attribute):
            return self.pure(e.value)
        if isinstance(e, ast.Subscript):
            if isinstance(e.slice, ast.Constant):
                return self.pure(e.value)
            if isinstance(e.slice, ast.Slice) and e.slice.step is None:
                return self.pure(e.value) and all(x is None or self.pure(x) for x in (e.slice.lower, e.slice.upper))
            return False
        if isinstance(e, ast.BinOp) and isinstance(e.op, (ast.Add, ast.Sub)):
            return self.pure(e.left) and self.pure(e.right)
        if isinstance(e, ast.Call) and not e.keywords and all(self.pure(a) for a in e.args):
            c = self.canonical_call(e)
            return (c in self.PURE_CALLS and len(e.args) == 1) or (c in self.SAME_BYTES and len(e.args) == 1) or (
                c.split(".")[-1] == self.SANITISER and len(e.args) == 2)
        return False

    def canon(self, e, st):
        if isinstance(e, ast.Name):
            return st.env.get(e.id) or f"g:{e.id}"
        if isinstance(e, ast.Attribute):
            return self.canon(e.value, st) + "." + e.attr
        if isinstance(e, ast.Constant):
            return repr(e.value)
        if isinstance(e, ast.Subscript) and isinstance(e.slice, ast.Constant):
            return f"{self.canon(e.value, st)}[{e.slice.value!r}]"
        if isinstance(e, ast.Subscript) and isinstance(e.slice, ast.Slice) and e.slice.step is None and self.pure(e):
            base = self.canon(e.value, st)
            lo = self.canon(e.slice.lower, st) if e.slice.lower is not None else "0"
            hi = self.canon(e.slice.upper, st) if e.slice.upper is not None else "end"
            key = f"{base}[{lo}:{hi}]"
            self.slices[key] = (base, lo, hi)
            return key
        if isinstance(e, ast.BinOp) and isinstance(e.op, (ast.Add, ast.Sub)) and self.pure(e):
            return f"({self.canon(e.left, st)}{'+' if isinstance(e.op, ast.Add) else '-'}{self.canon(e.right, st)})"
        if isinstance(e, ast.Call) and self.pure(e):
            c = self.canonical_call(e)
            if c in self.PURE_CALLS:
                return f"{self.PURE_CALLS[c]}({self.canon(e.args[0], st)})"
            if c in self.SAME_BYTES:
                return self.canon(e.args[0], st)
            key = f"safe_join({self.canon(e.args[0], st)},{self.canon(e.args[1], st)})"
            self.joins[key] = (self.canon(e.args[0], st), self.canon(e.args[1], st))
            return key
        if isinstance(e, ast.NamedExpr):
            return self.canon(e.value, st)
        return self.fresh("e", e)

    # ---- conditions ----------------------------------------------------------
    def cond(self, test, st, truth):
        """facts that hold when `test` evaluates to `truth`"""
        if isinstance(test, ast.UnaryOp) and isinstance(test.op, ast.Not):
            return self.cond(test.operand, st, not truth)
        if isinstance(test, ast.BoolOp):
            parts = [self.cond(v, st, truth) for v in test.values]
            union = (isinstance(test.op, ast.And) and truth) or (isinstance(test.op, ast.Or) and not truth)
            if union:
                return frozenset().union(*parts)
            out = parts[0]
            for p in parts[1:]:
                out = out & p
            return out
        if isinstance(test, ast.NamedExpr):
            return self.cond(test.value, st, truth)
        if isinstance(test, ast.Compare) and len(test.ops) == 1:
            l, r, op = test.left, test.comparators[0], test.ops[0]
            lc, rc = self.canon(l, st), self.canon(r, st)
            if rc in LIMITS and lc not in LIMITS:
                size, flip = lc, False
            elif lc in LIMITS and rc not in LIMITS:
                size, flip = rc, True
            else:
                return frozenset()
            # normalise to `size OP limit`
            kind = type(op)
            if flip:
                kind = {ast.Gt: ast.Lt, ast.Lt: ast.Gt, ast.GtE: ast.LtE, ast.LtE: ast.GtE}.get(kind, kind)
            within = (kind in (ast.Gt, ast.GtE) and not truth) or (kind in (ast.LtE, ast.Lt) and truth)
            return frozenset([("within-limit", size)]) if within else frozenset()
        if isinstance(test, ast.Name):
            tok = st.env.get(test.id)
            saved = self.boolvals.get(tok)
            if saved is not None:
                return self.cond(saved[0], saved[1], truth)
            return frozenset()
        if isinstance(test, ast.Call):
            fn = test.func
            d = dotted(fn)
            if d.split(".")[-1] == SKIP_FN and self._is_skip_fn(test) and len(test.args) + len(test.keywords) == 2 and not truth:
                amap = self._skip_args(test)
                if amap:
                    return frozenset([("not-skipped", self.canon(amap[0], st), self.canon(amap[1], st))])
                return frozenset()
            if isinstance(fn, ast.Attribute) and fn.attr in ("isreg", "isfile") and not test.args and not test.keywords and truth:
                return frozenset([("isreg", self.canon(fn.value, st))])
            q = self.resolve(test)
            if q is not None and q.split(".")[-1] != SKIP_FN:
                summ = self.summary(q)
                amap = self.bind_args(q, test)
                if summ is not None and amap is not None:
                    facts = summ["bool"][truth]
                    mapping = {f"π:{q}:{p}": self.canon(a, st) for p, a in amap.items()}
                    return frozenset(f for f in (_sub(f, mapping) for f in facts) if "π:" not in "".join(f[1:]))
        return frozenset()

    def _is_skip_fn(self, call):
        return isinstance(call.func, ast.Name) and call.func.id == SKIP_FN

    def _skip_args(self, call):
        q = self.resolve(call)
        ps = self.params(q) if q else ["filename", "basename"]
        amap = self.bind_args(q, call) if q else None
        if amap is None:
            if len(call.args) == 2 and not call.keywords:
                return call.args[0], call.args[1]
            return None
        if len(ps) >= 2 and ps[0] in amap and ps[1] in amap:
            return amap[ps[0]], amap[ps[1]]
        return None

    # ---- element facts ---------------------------------------------------------
    def abstract(self, elt, st):
        """facts at `st` rewritten over the components of element expression `elt`"""
        if isinstance(elt, ast.Tuple) and not any(isinstance(x, ast.Starred) for x in elt.elts):
            mapping = {}
            for i, x in enumerate(elt.elts):
                mapping.setdefault(self.canon(x, st), f"${i}")
            arity = len(elt.elts)
        else:
            mapping = {self.canon(elt, st): "$"}
            arity = None
        mapping = {k: v for k, v in mapping.items() if k.startswith(("«", "π:", "basename("))}
        facts = set()
        for f in st.facts:
            g = _sub(f, mapping)
            if "«" not in "".join(g[1:]):
                facts.add(g)
        # how the components are computed from each other: ("is", "$1", "$0.filename"), ("is", "$2", "basename($1)")
        for k, v in mapping.items():
            others = {k2: v2 for k2, v2 in mapping.items() if k2 != k}
            r = _sub(("is", k), others)[1]
            if r != k and "«" not in r:
                facts.add(("is", v, r))
        return Elems(arity, facts)

    def elements(self, e, st):
        if isinstance(e, ast.Name):
            tok = st.env.get(e.id)
            if tok in self.tok_elems:
                return self.tok_elems[tok]
            if tok in self.tok_list:
                return self.local_elems.get(tok)
            return None
        if isinstance(e, ast.Call):
            d = dotted(e.func)
            if d in ("sorted", "list", "tuple", "reversed", "iter") and len(e.args) >= 1:
                return self.elements(e.args[0], st)
            q = self.resolve(e)
            if q is not None:
                summ = self.summary(q)
                amap = self.bind_args(q, e)
                if summ is None or amap is None or summ["elems"] is None:
                    return None
                mapping = {f"π:{q}:{p}": self.canon(a, st) for p, a in amap.items()}
                facts = [_sub(f, mapping) for f in summ["elems"].facts]
                return Elems(summ["elems"].arity, [f for f in facts if "π:" not in "".join(f[1:])])
            return None
        if isinstance(e, (ast.ListComp, ast.GeneratorExp, ast.SetComp)):
            st2 = self.comp_state(e, st)
            return self.abstract(e.elt, st2) if st2 is not None else None
        return None

    def comp_state(self, e, st):
        st2 = st.copy()
        for g in e.generators:
            self.bind_loop_target(g.target, g.iter, st2, g)
            for c in g.ifs:
                st2.facts = st2.facts | self.cond(c, st2, True)
        return st2

    def bind_loop_target(self, target, it, st, node):
        self._bind_with(target, self.elements(it, st), st)

    # ---- expressions -------------------------------------------------------------
    def ev(self, e, st):
        """visit calls / yields of expression `e` in evaluation order under the facts in force"""
        if e is None or isinstance(e, ast.Lambda):
            return
        if isinstance(e, ast.BoolOp):
            facts0 = st.facts
            for v in e.values:
                self.ev(v, st)
                st.facts = st.facts | self.cond(v, st, isinstance(e.op, ast.And))
            st.facts = facts0
            return
        if isinstance(e, ast.IfExp):
            self.ev(e.test, st)
            facts0 = st.facts
            st.facts = facts0 | self.cond(e.test, st, True)
            self.ev(e.body, st)
            st.facts = facts0 | self.cond(e.test, st, False)
            self.ev(e.orelse, st)
            st.facts = facts0
            return
        if isinstance(e, (ast.ListComp, ast.GeneratorExp, ast.SetComp, ast.DictComp)):
            st2 = st.copy()
            for g in e.generators:
                self.ev(g.iter, st2)
                self.bind_loop_target(g.target, g.iter, st2, g)
                for c in g.ifs:
                    self.ev(c, st2)
                    st2.facts = st2.facts | self.cond(c, st2, True)
            if isinstance(e, ast.DictComp):
                self.ev(e.key, st2)
                self.ev(e.value, st2)
            else:
                self.ev(e.elt, st2)
            return
        if isinstance(e, ast.NamedExpr):
            self.ev(e.value, st)
            self.assign_name(e.target.id, e.value, st, e)
            return
        if isinstance(e, (ast.Yield, ast.YieldFrom)):
            self.ev(e.value, st)
            if isinstance(e, ast.Yield):
                self.cur.yields.append((e.value, st.copy()))
            else:
                self.cur.yields.append((("from", e.value), st.copy()))
            return
        for c in ast.iter_child_nodes(e):
            if isinstance(c, ast.expr):
                self.ev(c, st)
            elif isinstance(c, ast.keyword):
                self.ev(c.value, st)
        if isinstance(e, ast.Call):
            self.on_call(e, st)

    _TOK = re.compile(r"«[^»]*»")

    NAME_OF = re.compile(r"^(«[^»]*»|π:[^.\[\]()]+)(\[\d+\])?\.(name|filename)$")

    def own_name(self, f, facts):
        return bool(self.NAME_OF.match(f)) or ("own-name", f) in facts or any(x[0] == "is" and x[1] == f and self.NAME_OF.match(x[2]) for x in facts)

    def base_of(self, b, f, facts):
        return b == f"basename({f})" or ("base-of", b, f) in facts or ("is", b, f"basename({f})") in facts

    def holds(self, fact, st):
        if fact[0] == "member-name":
            # the (file name, base name) pair is the member's own stored name and its os.path.basename -- nothing rewritten in between
            f, b = fact[1], fact[2]
            return self.own_name(f, st.facts) and self.base_of(b, f, st.facts)
        if fact[0] == "member-size-checked":
            # a size of the member this name belongs to was checked on every path: the checked value is (an attribute of) the object the
            # name was read from, or the name is a component of an element tuple one of whose sizes was checked
            for f in st.facts:
                if f[0] == "within-limit":
                    t = self._TOK.match(f[1]) or re.match(r"π:[^.\[]+", f[1])
                    if t is not None and t.group(0) in fact[1]:
                        return True
                elif f[0] == "size-checked" and f[1] in fact[1]:
                    return True
            return False
        return fact in st.facts

    def on_call(self, call, st):
        for fact, kind, desc in self.need(call, st):
            self.cur.needs.append((call, fact, self.holds(fact, st), kind, desc))
        q = self.resolve(call)
        if q is not None:
            amap = self.bind_args(q, call)
            if amap is not None:
                self.cur.calls.append((q, call, {p: self.canon(a, st) for p, a in amap.items()}, st.facts,
                                       {p: self.elements(a, st) for p, a in amap.items()}, {p: self.kind(a, st) for p, a in amap.items()}))
            else:
                self.cur.calls.append((q, call, None, st.facts, {}, {}))
        # bytes handed to a file opened for writing
        f = call.func
        if isinstance(f, ast.Attribute) and f.attr in ("write", "writelines"):
            wp = self.tok_wfile.get(self.canon(f.value, st)) or self.opened_for_write(f.value, st)
            if wp is not None:
                data = self.canon(call.args[0], st) if (f.attr == "write" and len(call.args) == 1) else self.fresh("e", call)
                self.cur.writes.append((wp, data, call))
        for a in list(call.args) + [k.value for k in call.keywords]:
            if isinstance(a, ast.Name) and st.env.get(a.id) in self.tok_wfile and not (isinstance(f, ast.Attribute) and f.value is a):
                self.cur.writes.append((self.tok_wfile[st.env[a.id]], self.fresh("e", call), call))    # the handle escapes: unknown bytes
        # list mutation, recorded per list VALUE (any alias of it)
        if isinstance(f, ast.Attribute) and isinstance(f.value, ast.Name):
            tok = st.env.get(f.value.id) or f"g:{f.value.id}"
            if f.attr == "append" and len(call.args) == 1:
                self.cur.appends.setdefault(tok, []).append((call.args[0], st.copy()))
                self.tok_elems.pop(tok, None)
            elif f.attr in ("extend", "insert", "remove", "pop", "clear", "sort", "reverse", "__setitem__", "__iadd__"):
                self.cur.bad_lists.add(tok)
                self.tok_elems.pop(tok, None)
        # a list handed to a helper of this module that appends to / rewrites its parameter
        if q is not None and amap:
            for p, a in amap.items():
                if isinstance(a, ast.Name):
                    tok = st.env.get(a.id)
                    if tok in self.tok_list or tok in self.tok_elems:
                        summ = self.summary(q)
                        if summ is None or p in summ.get("mutates", ()):
                            self.cur.bad_lists.add(tok)
                            self.tok_elems.pop(tok, None)

    def kind(self, e, st):
        return self.tok_kind.get(self.canon(e, st))

    KINDS = {"zipfile.ZipFile": "zip", "tarfile.open": "tar", "tarfile.TarFile": "tar", "tarfile.TarFile.open": "tar"}

    def opened_for_write(self, e, st):
        """-> canonical path when `e` is open(path, <mode that can write>)"""
        if isinstance(e, ast.Call) and self.canonical_call(e) in ("open", "io.open") and e.args:
            mode = e.args[1] if len(e.args) > 1 else next((k.value for k in e.keywords if k.arg == "mode"), None)
            if mode is None:
                return None
            if not isinstance(mode, ast.Constant) or any(ch in str(mode.value) for ch in "wax+"):
                return self.canon(e.args[0], st)
        return None

    def call_kind(self, e):
        if isinstance(e, ast.Call):
            c = self.canonical_call(e)
            if c in self.KINDS:
                return self.KINDS[c]
            if c.endswith(".SevenZipFile") or c == "SevenZipFile":
                return "7z"
        return None

    def need(self, call, st):
        out = []
        f = call.func
        if isinstance(f, ast.Attribute):
            k = self.kind(f.value, st)
            if f.attr == "extractfile" and k in ("tar", None):
                v = call.args[0] if call.args else (call.keywords[0].value if call.keywords else None)
                if v is not None:
                    c = self.canon(v, st)
                    out.append((("isreg", c), "tar-regular", f"line {call.lineno}: `{ast.unparse(call)}`"))
                    out.append((("within-limit", c + ".size"), "tar-size", f"line {call.lineno}: `{ast.unparse(call)}`"))
            elif f.attr in ("extract", "extractall") and k == "tar":
                out.append((("never", "tar-extract"), "tar-size", f"line {call.lineno}: `{ast.unparse(call)}` writes members to disk"))
            elif f.attr in ("read", "open") and k == "zip":
                v = call.args[0] if call.args else next((kw.value for kw in call.keywords if kw.arg == "name"), None)
                if v is not None:
                    out.append((("within-limit", self.canon(v, st) + ".file_size"), "zip-size", f"line {call.lineno}: `{ast.unparse(call)}`"))
        q = self.resolve(call)
        if q is not None and q.split(".")[-1] == DISPATCH_FN:
            amap = self.bind_args(q, call)
            ps = self.params(q)
            fn_p = "filename" if "filename" in ps else (ps[0] if ps else None)
            bn_p = "basename" if "basename" in ps else (ps[3] if len(ps) > 3 else None)
            if amap is not None and fn_p in amap and bn_p in amap:
                out.append((("not-skipped", self.canon(amap[fn_p], st), self.canon(amap[bn_p], st)), "dispatch", f"line {call.lineno}: member dispatch"))
                out.append((("member-size-checked", self.canon(amap[fn_p], st)), "dispatch-size", f"line {call.lineno}: member dispatch"))
                out.append((("member-name", self.canon(amap[fn_p], st), self.canon(amap[bn_p], st)), "dispatch-name", f"line {call.lineno}: member dispatch"))
            else:
                out.append((("never", "dispatch-shape"), "dispatch", f"line {call.lineno}: member dispatch with unrecognised arguments"))
        return out

    # ---- statements -----------------------------------------------------------------
    def assign_name(self, name, value, st, node):
        if value is not None and self.pure(value):
            st.env[name] = self.canon(value, st)
            return
        tok = self.fresh(name, node)
        if value is None:
            st.env[name] = tok
            return
        # everything about the value is computed in the environment BEFORE the name is rebound (`xs = [x for x in xs if ...]`)
        if isinstance(value, (ast.Call, ast.Compare, ast.BoolOp)) or (isinstance(value, ast.UnaryOp) and isinstance(value.op, ast.Not)):
            self.boolvals[tok] = (value, st.copy())
        k = self.call_kind(value)
        if k:
            self.tok_kind[tok] = k
        wp = self.opened_for_write(value, st)
        if wp is not None:
            self.tok_wfile[tok] = wp
        self.tok_list.pop(tok, None)
        self.tok_elems.pop(tok, None)
        if (isinstance(value, ast.List) and not value.elts) or (isinstance(value, ast.Call) and dotted(value.func) == "list" and not value.args):
            self.tok_list[tok] = name
        else:
            el = self.elements(value, st)
            if el is not None:
                self.tok_elems[tok] = el
        st.env[name] = tok

    def assign(self, target, value, st, node):
        if isinstance(target, ast.Name):
            self.assign_name(target.id, value, st, target)
        elif isinstance(target, (ast.Tuple, ast.List)):
            if isinstance(value, (ast.Tuple, ast.List)) and len(value.elts) == len(target.elts):
                vals = [self.canon(v, st) for v in value.elts]
                for t, v, vc in zip(target.elts, value.elts, vals):
                    self.assign(t, v, st, node)
            else:
                for n in ast.walk(target):
                    if isinstance(n, ast.Name):
                        st.env[n.id] = self.fresh(n.id, n)
        elif isinstance(target, (ast.Attribute, ast.Subscript)):
            base = target
            while isinstance(base, (ast.Attribute, ast.Subscript)):
                base = base.value
            if isinstance(base, ast.Name):
                if st.env.get(base.id):
                    self.cur.bad_lists.add(st.env[base.id])
                st.env[base.id] = self.fresh(base.id, target, "~")

    def assigned_names(self, stmts):
        out = set()
        for s in stmts:
            for n in ast.walk(s):
                if isinstance(n, ast.Name) and isinstance(n.ctx, ast.Store):
                    out.add(n.id)
                elif isinstance(n, (ast.Attribute, ast.Subscript)) and isinstance(n.ctx, ast.Store):
                    b = n
                    while isinstance(b, (ast.Attribute, ast.Subscript)):
                        b = b.value
                    if isinstance(b, ast.Name):
                        out.add(b.id)
        return out

    def havoc(self, st, names, node, tag):
        for n in names:
            st.env[n] = self.fresh(n, node, tag)

    def join(self, a, b, node):
        if a is None:
            return b
        if b is None:
            return a
        env = {}
        for k in set(a.env) | set(b.env):
            if a.env.get(k) == b.env.get(k):
                env[k] = a.env[k]
            else:
                env[k] = self.fresh(k, node, "φ")
        return St(env, a.facts & b.facts)

    def block(self, stmts, st):
        for s in stmts:
            if st is None:
                return None
            st = self.stmt(s, st)
        return st

    def stmt(self, s, st):
        if isinstance(s, (ast.FunctionDef, ast.AsyncFunctionDef, ast.ClassDef, ast.Import, ast.ImportFrom, ast.Pass, ast.Global, ast.Nonlocal)):
            return st
        if isinstance(s, ast.Assign):
            self.ev(s.value, st)
            for t in s.targets:
                self.assign(t, s.value, st, s)
            return st
        if isinstance(s, ast.AnnAssign):
            if s.value is not None:
                self.ev(s.value, st)
                self.assign(s.target, s.value, st, s)
            return st
        if isinstance(s, ast.AugAssign):
            self.ev(s.value, st)
            if isinstance(s.target, ast.Name) and st.env.get(s.target.id):
                self.cur.bad_lists.add(st.env[s.target.id])          # `L += ...` extends the list value in place
            if isinstance(s.target, ast.Name) and isinstance(s.op, (ast.Add, ast.Sub)) and self.pure(s.value) and s.target.id in st.env:
                st.env[s.target.id] = f"({st.env[s.target.id]}{'+' if isinstance(s.op, ast.Add) else '-'}{self.canon(s.value, st)})"
                return st
            self.assign(s.target, None, st, s)
            return st
        if isinstance(s, ast.Expr):
            self.ev(s.value, st)
            return st
        if isinstance(s, ast.Return):
            self.ev(s.value, st)
            self.cur.returns.append((s.value, st.copy()))
            return None
        if isinstance(s, ast.Raise):
            self.ev(s.exc, st)
            return None
        if isinstance(s, (ast.Break, ast.Continue)):
            return None
        if isinstance(s, ast.If):
            self.ev(s.test, st)
            a = st.copy()
            a.facts = a.facts | self.cond(s.test, st, True)
            b = st.copy()
            b.facts = b.facts | self.cond(s.test, st, False)
            return self.join(self.block(s.body, a), self.block(s.orelse, b), s)
        if isinstance(s, (ast.For, ast.AsyncFor)):
            self.ev(s.iter, st)
            names = self.assigned_names(s.body) | self.assigned_names([s.target])
            inner = st.copy()
            it_elems = self.elements(s.iter, st)      # before the loop-carried havoc: the iterable is evaluated once
            self.havoc(inner, names, s, "↻")
            self._bind_with(s.target, it_elems, inner)
            self.block(s.body, inner)
            out = st.copy()
            self.havoc(out, names, s, "↦")
            if s.orelse:
                out = self.block(s.orelse, out)
            return out
        if isinstance(s, ast.While):
            names = self.assigned_names(s.body)
            inner = st.copy()
            self.havoc(inner, names, s, "↻")
            self.ev(s.test, inner)
            body = inner.copy()
            body.facts = body.facts | self.cond(s.test, inner, True)
            self.block(s.body, body)
            out = inner.copy()
            if s.orelse:
                out = self.block(s.orelse, out)
            return out
        if isinstance(s, (ast.With, ast.AsyncWith)):
            for it in s.items:
                self.ev(it.context_expr, st)
                if it.optional_vars is not None:
                    if isinstance(it.optional_vars, ast.Name):
                        tok = self.fresh(it.optional_vars.id, it.optional_vars)
                        st.env[it.optional_vars.id] = tok
                        k = self.call_kind(it.context_expr)
                        if k:
                            self.tok_kind[tok] = k
                        wp = self.opened_for_write(it.context_expr, st)
                        if wp is not None:
                            self.tok_wfile[tok] = wp
                    else:
                        self.assign(it.optional_vars, None, st, s)
            return self.block(s.body, st)
        if isinstance(s, ast.Try):
            names = self.assigned_names(s.body)
            a = self.block(s.body, st.copy())
            if a is not None and s.orelse:
                a = self.block(s.orelse, a)
            outs = [a]
            for h in s.handlers:
                hs = st.copy()
                self.havoc(hs, names, h, "⚠")
                if h.name:
                    hs.env[h.name] = self.fresh(h.name, h)
                outs.append(self.block(h.body, hs))
            out = None
            for o in outs:
                out = self.join(out, o, s)
            if s.finalbody:
                fs = st.copy()
                self.havoc(fs, names | self.assigned_names([h for h in s.handlers]), s, "⚑")
                keep = self.cur
                if out is None:
                    self.block(s.finalbody, fs)
                    return None
                self.block(s.finalbody, fs)              # needs inside finally: judged on the weakest entry
                self.cur = FnResult()
                out = self.block(s.finalbody, out)
                self.cur = keep
            return out
        if isinstance(s, ast.Assert):
            self.ev(s.test, st)
            st.facts = st.facts | self.cond(s.test, st, True)
            return st
        if isinstance(s, ast.Delete):
            for t in s.targets:
                if isinstance(t, ast.Name):
                    st.env[t.id] = self.fresh(t.id, t, "del")
            return st
        if isinstance(s, ast.Match):
            self.ev(s.subject, st)
            out = None
            for c in s.cases:
                cs = st.copy()
                for n in ast.walk(c.pattern):
                    if isinstance(n, (ast.MatchAs, ast.MatchStar)) and n.name:
                        cs.env[n.name] = self.fresh(n.name, n)
                out = self.join(out, self.block(c.body, cs), s)
            return self.join(out, st, s)
        return st

    def _bind_with(self, target, el, st):
        """bind loop / comprehension targets to fresh values and instantiate the element facts of the iterable on them"""
        if isinstance(target, ast.Name):
            toks = [self.fresh(target.id, target)]
            st.env[target.id] = toks[0]
            mapping = None
            if el is not None:
                mapping = {"$": toks[0]} if el.arity is None else {f"${i}": f"{toks[0]}[{i}]" for i in range(el.arity)}
        elif isinstance(target, (ast.Tuple, ast.List)) and all(isinstance(x, ast.Name) for x in target.elts):
            toks = [self.fresh(x.id, x) for x in target.elts]
            for x, t in zip(target.elts, toks):
                st.env[x.id] = t
            mapping = None
            if el is not None and el.arity == len(toks):
                mapping = {f"${i}": t for i, t in enumerate(toks)}
            elif el is not None and el.arity is None:
                mapping = {f"$[{i}]": t for i, t in enumerate(toks)}
        else:
            for n in ast.walk(target):
                if isinstance(n, ast.Name):
                    st.env[n.id] = self.fresh(n.id, n)
            return
        if mapping is None:
            return
        inst = set()
        for f in el.facts:
            g = _sub(f, mapping)
            if "$" in "".join(g[1:]):
                continue
            inst.add(g)
            if g[0] == "within-limit":
                # a size of this element was checked: every component of the element belongs to a size-checked member
                inst.update(("size-checked", t) for t in toks)
            if g[0] == "is":
                if self.NAME_OF.match(g[2]):
                    inst.add(("own-name", g[1]))
                m = re.match(r"^basename\((.*)\)$", g[2])
                if m:
                    inst.add(("base-of", g[1], m.group(1)))
        st.facts = st.facts | frozenset(inst)

    # ---- one function ------------------------------------------------------------------
    def analyse(self, q, entry=None):
        f = self.fns[q]
        ps = self.params(q)
        self.boolvals, self.tok_kind, self.tok_list, self.tok_elems = {}, {}, {}, {}
        self.tok_wfile = {}
        self.local_elems = {}
        res = None
        for _pass in (0, 1):
            self.cur = res = FnResult()
            env = {}
            for a in f.args.posonlyargs + f.args.args + f.args.kwonlyargs:
                env[a.arg] = f"π:{q}:{a.arg}"
                ann = ast.unparse(a.annotation) if a.annotation is not None else ""
                head = ann.split(".")[0]
                full = (self.mod.imports.get(head, head) + ann[len(head):]) if ann else ""
                if full in ("zipfile.ZipFile",):
                    self.tok_kind[env[a.arg]] = "zip"
                elif full in ("tarfile.TarFile",):
                    self.tok_kind[env[a.arg]] = "tar"
            facts = frozenset()
            if entry:
                facts = entry[0]
                for p, el in entry[1].items():
                    if el is not None and p in env:
                        self.tok_elems[env[p]] = el
                for p, k in entry[2].items():
                    if k and p in env:
                        self.tok_kind.setdefault(env[p], k)
            self.block(f.body, St(env, facts))
            # element facts of local lists built by append: per list value, flow-insensitive over all its append sites
            new = {}
            for tok, sites in res.appends.items():
                if tok in res.bad_lists or tok not in self.tok_list:
                    continue
                el = _meet_all([self.abstract(elt, st) for elt, st in sites])
                if el is not None:
                    new[tok] = el
            if new == self.local_elems:
                break
            self.local_elems = new
        return res

    def summary(self, q):
        """-> {"bool": {True: facts, False: facts}, "elems": Elems | None} over the π tokens of q's parameters (no entry facts assumed)"""
        if q in self._summary:
            return self._summary[q]
        if q in self._in_progress:
            return None
        self._in_progress.add(q)
        saved = (getattr(self, "cur", None), getattr(self, "boolvals", None), getattr(self, "tok_kind", None), getattr(self, "tok_list", None),
                 getattr(self, "tok_elems", None), getattr(self, "local_elems", None), getattr(self, "tok_wfile", None))
        try:
            res = self.analyse(q)
            bool_t, bool_f = None, None
            for val, st in res.returns:
                if val is None:
                    continue
                can_t = not (isinstance(val, ast.Constant) and not val.value)
                can_f = not (isinstance(val, ast.Constant) and val.value)
                if can_t:
                    ft = st.facts | self.cond(val, st, True)
                    bool_t = ft if bool_t is None else bool_t & ft
                if can_f:
                    ff = st.facts | self.cond(val, st, False)
                    bool_f = ff if bool_f is None else bool_f & ff
            keep = lambda fs: frozenset(f for f in (fs or ()) if "«" not in "".join(f[1:]))
            elems = None
            if res.yields:
                items = []
                for val, st in res.yields:
                    if isinstance(val, tuple) and val[0] == "from":
                        items.append(self.elements(val[1], st))
                    elif val is None:
                        items.append(None)
                    else:
                        items.append(self.abstract(val, st))
                elems = _meet_all(items)
            else:
                vals = [(v, st) for v, st in res.returns if v is not None]
                if vals:
                    elems = _meet_all([self.elements(v, st) for v, st in vals])
            out = {"bool": {True: keep(bool_t), False: keep(bool_f)}, "elems": elems, "generator": bool(res.yields),
                   "mutates": {p for p in self.params(q) if f"π:{q}:{p}" in res.appends or f"π:{q}:{p}" in res.bad_lists}}
        finally:
            self._in_progress.discard(q)
            self.cur, self.boolvals, self.tok_kind, self.tok_list, self.tok_elems, self.local_elems, self.tok_wfile = saved
        self._summary[q] = out
        return out

    # ---- whole module ---------------------------------------------------------------------
    def private(self, q):
        """a helper only this module can call: private name that no other module of the package mentions and that is never used as a value"""
        name = q.split(".")[-1]
        if not name.startswith("_") or name.startswith("__"):
            return False
        if self._foreign is None:
            self._foreign = set()
            for src in self.package_sources:
                self._foreign.update(re.findall(r"\b_[A-Za-z0-9_]+\b", src))
            called = {id(c.func) for c in ast.walk(self.mod.tree) if isinstance(c, ast.Call)}
            self._values = {n.id for n in ast.walk(self.mod.tree) if isinstance(n, ast.Name) and isinstance(n.ctx, ast.Load) and id(n) not in called}
            self._values |= {n.attr for n in ast.walk(self.mod.tree) if isinstance(n, ast.Attribute) and isinstance(n.ctx, ast.Load) and id(n) not in called}
        return name not in self._foreign and name not in self._values

    def run(self):
        entry = {}
        for _round in range(4):
            self.results = {q: self.analyse(q, entry.get(q)) for q in self.fns}
            sites = {}
            for caller, res in self.results.items():
                for (q, node, amap, facts, elems, kinds) in res.calls:
                    sites.setdefault(q, []).append((amap, facts, elems, kinds))
            # a function referenced other than as a call target may be called with anything
            new = {}
            textual = {}
            for n in ast.walk(self.mod.tree):
                if isinstance(n, ast.Call):
                    nm = n.func.id if isinstance(n.func, ast.Name) else (n.func.attr if isinstance(n.func, ast.Attribute) else None)
                    if nm:
                        textual[nm] = textual.get(nm, 0) + 1
            for q, ss in sites.items():
                if not self.private(q) or any(s[0] is None for s in ss):
                    continue
                if textual.get(q.split(".")[-1], 0) != len(ss):
                    continue          # a call site the flow pass did not visit (nested function, lambda, decorator): no entry facts
                ps = self.params(q)
                facts_all = None
                for amap, facts, elems, kinds in ss:
                    mapping = {c: f"π:{q}:{p}" for p, c in amap.items() if c.startswith(("«", "π:", "basename("))}
                    fs = frozenset(g for g in (_sub(f, mapping) for f in facts) if "«" not in "".join(g[1:]) and all(
                        ("π:" not in c) or f"π:{q}:" in c for c in g[1:]))
                    extra = set()
                    for p1, c1 in amap.items():
                        if self.own_name(c1, facts):
                            extra.add(("own-name", f"π:{q}:{p1}"))
                        for p2, c2 in amap.items():
                            if p1 != p2 and self.base_of(c2, c1, facts):
                                extra.add(("base-of", f"π:{q}:{p2}", f"π:{q}:{p1}"))
                    fs = fs | frozenset(extra)
                    facts_all = fs if facts_all is None else facts_all & fs
                pel, pk = {}, {}
                for p in ps:
                    els = [s[2].get(p) for s in ss]
                    pel[p] = _meet_all(els) if all(p in (s[0] or {}) for s in ss) else None
                    ks = {s[3].get(p) for s in ss}
                    pk[p] = ks.pop() if len(ks) == 1 else None
                new[q] = (facts_all or frozenset(), pel, pk)
            if new == entry:
                break
            entry = new
        self.entry = entry
        return self.results

    def reachable(self, root):
        seen, todo = set(), [root]
        while todo:
            q = todo.pop()
            if q in seen or q not in self.results:
                continue
            seen.add(q)
            for c in self.results[q].calls:
                todo.append(c[0])
        return seen

    def write_events(self, q, _depth=0, _stack=()):
        """bytes written to files by `q` and the helpers it calls: [(path canon, data canon, description)] over q's own values / parameters"""
        if q not in self.results or q in _stack or _depth > 5:
            return []
        out = [(p, d, f"line {n.lineno} in {q}: `{ast.unparse(n)}`") for p, d, n in self.results[q].writes]
        for (callee, node, amap, _facts, _el, _k) in self.results[q].calls:
            sub_events = self.write_events(callee, _depth + 1, _stack + (q,))
            if not sub_events:
                continue
            mapping = {f"π:{callee}:{p}": c for p, c in (amap or {}).items()}
            for p, d, desc in sub_events:
                out.append((_sub(("", p), mapping)[1], _sub(("", d), mapping)[1], desc))
        return out

    def judged_writes(self):
        """[(ok, description)] for every write event, judged in the outermost function that performs it: the bytes written for member M
        (the path is _safe_join(base, M.filename)) are nothing or the slice [lo : lo + M.uncompressed] of a buffer"""
        called = {c[0] for res in self.results.values() for c in res.calls}
        out = []
        for q in self.results:
            if q in called:
                continue
            for path, data, desc in self.write_events(q):
                m = re.match(r"^safe_join\((.*),(.*)\)$", path)
                name = None
                if m:
                    # split at the top-level comma
                    inner, depth_, cut = path[len("safe_join("):-1], 0, None
                    for i, ch in enumerate(inner):
                        depth_ += ch in "([" 
                        depth_ -= ch in ")]"
                        if ch == "," and depth_ == 0:
                            cut = i
                    name = inner[cut + 1:] if cut is not None else None
                if name is None or not name.endswith(".filename"):
                    out.append((False, desc + ": the path is not _safe_join(base, <member>.filename), cannot tell which member the bytes belong to"))
                    continue
                member = name[: -len(".filename")]
                if data in ("b''", "b\"\""):
                    out.append((True, desc))
                    continue
                ok = False
                sm = re.match(r"^(.*)\[([^\[\]]*):([^\[\]]*)\]$", data)
                if sm:
                    lo, hi = sm.group(2), sm.group(3)
                    ok = hi == f"({lo}+{member}.uncompressed)" or (lo == "0" and hi == f"{member}.uncompressed")
                out.append((ok, desc + ("" if ok else f": the bytes written are `{data}`, not the slice [lo : lo + {member}.uncompressed] of the decompressed buffer")))
        return out

    def sinks(self, root, kind):
        """[(function, node, fact, ok, desc)] of the needs of `kind` in the functions reachable from `root`"""
        out = []
        for q in sorted(self.reachable(root)):
            for node, fact, ok, k, desc in self.results[q].needs:
                if k == kind:
                    out.append((q, node, fact, ok, desc))
        return out


_flows = {}


def guard_flow(repo, rel):
    from pyvc import loader
    key = (repo or loader.REPO, rel)
    if key not in _flows:
        mod = loader.module(rel, repo)
        others = []
        for other in loader.all_package_files(repo):
            if other != rel:
                try:
                    others.append(open(f"{repo or loader.REPO}/{other}", encoding="utf-8").read())
                except OSError:
                    pass
        gf = GuardFlow(mod, others)
        gf.run()
        _flows[key] = gf
    return _flows[key]


# ================================================================= Confined ==
PATH1 = {"open", "io.open", "os.makedirs", "os.mkdir", "os.remove", "os.unlink", "os.rmdir", "os.path.exists", "os.path.lexists", "os.path.isfile",
         "os.path.isdir", "os.path.getsize", "os.listdir", "os.scandir", "os.walk", "os.stat", "os.lstat", "os.chmod", "os.utime", "shutil.rmtree"}
PATH2 = {"os.rename", "os.replace", "shutil.move", "shutil.copy", "shutil.copy2", "shutil.copyfile"}
FS_OTHER = {"os.symlink", "os.link", "os.mkfifo", "os.mknod", "os.chown", "os.truncate", "os.open", "os.chdir", "os.removedirs", "os.renames"}
FS_PREFIXES = ("shutil.", "tempfile.", "pathlib.")
PURE_PATH = {"os.path.dirname", "os.path.abspath", "os.path.normpath", "os.fspath", "os.fsdecode", "str"}
TEMP_ROOTS = {"tempfile.TemporaryDirectory", "tempfile.mkdtemp"}
ARCHIVE_CLASSES = {"zipfile.ZipFile": "zip", "tarfile.open": "tar", "tarfile.TarFile": "tar", "tarfile.TarFile.open": "tar"}


class Confined:
    def __init__(self, mods, sanitiser="_safe_join", package_text=""):
        self.mods = mods                         # rel -> loader.Module
        self.sanitiser = sanitiser
        self.package_text = package_text         # source of every module of the package (to tell dead code from externally called code)
        self.fns = {}                            # (rel, qualname) -> node
        for rel, m in mods.items():
            for q, f in m.functions.items():
                if "<locals>" not in q:
                    self.fns[(rel, q)] = f
        self.owner = {}
        for key, f in self.fns.items():
            for n in ast.walk(f):
                if isinstance(n, ast.Call):
                    prev = self.owner.get(id(n))
                    if prev is None or self.fns[prev].lineno <= f.lineno:
                        self.owner[id(n)] = key
        self.param_conf = {}                     # (key, param) -> bool   (least fixpoint)
        self._bind_memo = {}
        self._ret_memo = {}
        self._stack = set()
        self.sites = self._call_sites()
        self._fixpoint()

    # -- naming
    def canonical(self, rel, call):
        d = dotted(call.func)
        if not d:
            return ""
        head, _, rest = d.partition(".")
        origin = self.mods[rel].imports.get(head)
        if origin:
            return origin + ("." + rest if rest else "")
        return d

    def params(self, key):
        f = self.fns[key]
        ps = [a.arg for a in f.args.posonlyargs + f.args.args]
        if "." in key[1] and ps and ps[0] in ("self", "cls"):
            ps = ps[1:]
        return ps + [a.arg for a in f.args.kwonlyargs]

    def class_of_name(self, cname):
        """(rel, class qualname) of a class of the two modules named / imported as `cname`"""
        for rel, m in self.mods.items():
            if cname in m.classes:
                return rel, cname
        return None

    def _ann_class(self, rel, ann):
        """class named by an annotation (`C`, `"C"`, `Optional[C]`, `mod.C`): (rel, name) | 'archive:<kind>' | None"""
        if ann is None:
            return None
        found = set()
        for x in ast.walk(ann):
            names = []
            if isinstance(x, ast.Name):
                names.append(x.id)
            elif isinstance(x, ast.Attribute):
                d = dotted(x)
                if d:
                    head = d.split(".")[0]
                    full = self.mods[rel].imports.get(head, head) + d[len(head):]
                    if full in ARCHIVE_CLASSES:
                        found.add("archive:" + ARCHIVE_CLASSES[full])
                    names.append(x.attr)
            elif isinstance(x, ast.Constant) and isinstance(x.value, str):
                names.extend(re.findall(r"[A-Za-z_][A-Za-z0-9_]*", x.value))
            for nm in names:
                full = self.mods[rel].imports.get(nm, nm)
                if full in ARCHIVE_CLASSES:
                    found.add("archive:" + ARCHIVE_CLASSES[full])
                elif self.class_of_name(nm):
                    found.add(self.class_of_name(nm))
        return found.pop() if len(found) == 1 else None

    def _attr_class(self, cls_key, attr, depth):
        """class of the instance attribute `attr` of class `cls_key`: from its annotation or from every value stored into it"""
        rel, cname = cls_key
        cls = self.mods[rel].classes.get(cname)
        if cls is None:
            return None
        meth = self.fns.get((rel, f"{cname}.{attr}"))
        if meth is not None and any("property" in ast.unparse(d) for d in meth.decorator_list):
            return self._return_class((rel, f"{cname}.{attr}"), depth + 1)
        found = set()
        for n in ast.walk(cls):
            tgt = val = ann = None
            if isinstance(n, ast.AnnAssign):
                tgt, val, ann = n.target, n.value, n.annotation
            elif isinstance(n, ast.Assign) and len(n.targets) == 1:
                tgt, val = n.targets[0], n.value
            is_self_attr = isinstance(tgt, ast.Attribute) and isinstance(tgt.value, ast.Name) and tgt.value.id == "self" and tgt.attr == attr
            is_cls_attr = isinstance(tgt, ast.Name) and tgt.id == attr and n in cls.body
            if not (is_self_attr or is_cls_attr):
                continue
            c = self._ann_class(rel, ann)
            if c is None and val is not None and not (isinstance(val, ast.Constant) and val.value is None):
                owner = next((k for k in self.fns if k[0] == rel and k[1].startswith(cname + ".") and any(x is n for x in ast.walk(self.fns[k]))), None)
                c = self.receiver_class(owner, val, depth + 1) if owner else None
                if c is None:
                    found.add(None)
            if c is not None:
                found.add(c)
        return found.pop() if len(found) == 1 else None

    def receiver_class(self, key, recv, depth=0):
        """class of the value of expression `recv` in function `key`: (rel, class name) for a class of the two modules, 'archive:zip' /
        'archive:tar' for library archive objects, None if unknown.  Follows local bindings, annotated / call-site-bound parameters,
        instance attributes, constructor calls, return annotations and returned expressions of helper functions and methods."""
        if depth > 6 or recv is None or key is None:
            return None
        rel, q = key
        f = self.fns[key]
        if isinstance(recv, (ast.NamedExpr, ast.Await)):
            return self.receiver_class(key, recv.value, depth + 1)
        if isinstance(recv, (ast.IfExp, ast.BoolOp)):
            parts = [recv.body, recv.orelse] if isinstance(recv, ast.IfExp) else list(recv.values)
            kinds = {self.receiver_class(key, x, depth + 1) for x in parts if not (isinstance(x, ast.Constant) and x.value is None)} - {"none"}
            return kinds.pop() if len(kinds) == 1 else None
        if isinstance(recv, ast.Name):
            if recv.id in ("self", "cls") and "." in q:
                return rel, q.rsplit(".", 1)[0]
            kinds = set()
            for v in self.bindings(key, recv.id):
                if isinstance(v, ast.Constant) and v.value is None:
                    continue                      # `x = None` placeholder: a method call on it would raise, not reach a file
                kinds.add(self.receiver_class(key, v, depth + 1) if v is not None else None)
            kinds.discard("none")
            for a in f.args.posonlyargs + f.args.args + f.args.kwonlyargs:
                if a.arg == recv.id and a.annotation is not None:
                    c = self._ann_class(rel, a.annotation)
                    if c is not None:
                        kinds.add(c)
            if not kinds and recv.id in self.params(key):
                # an un-annotated parameter: the class every call site passes
                sites = self._name_sites(key)
                for ck, n in sites:
                    amap = self.bind(key, n)
                    kinds.add(self.receiver_class(ck, amap[recv.id], depth + 1) if amap and recv.id in amap else None)
            return kinds.pop() if len(kinds) == 1 else None
        if isinstance(recv, ast.Attribute):
            owner = self.receiver_class(key, recv.value, depth + 1)
            if isinstance(owner, tuple):
                return self._attr_class(owner, recv.attr, depth)
            return None
        if isinstance(recv, ast.Call):
            c = self.canonical(rel, recv)
            if c in ARCHIVE_CLASSES:
                return "archive:" + ARCHIVE_CLASSES[c]
            if isinstance(recv.func, ast.Name) and self.class_of_name(recv.func.id) and (rel, recv.func.id) not in self.fns:
                return self.class_of_name(recv.func.id)
            if c and self.class_of_name(c.split(".")[-1]) and c.split(".")[-1][:1].isupper() and not isinstance(recv.func, ast.Name):
                return self.class_of_name(c.split(".")[-1])
            targets = []
            if isinstance(recv.func, ast.Name):
                targets = self._fn_targets(rel, recv.func.id)
            elif isinstance(recv.func, ast.Attribute):
                owner = self.receiver_class(key, recv.func.value, depth + 1)
                if isinstance(owner, tuple) and (owner[0], f"{owner[1]}.{recv.func.attr}") in self.fns:
                    targets = [(owner[0], f"{owner[1]}.{recv.func.attr}")]
            kinds = set()
            for t in targets:
                kinds.add(self._return_class(t, depth + 1))
            return kinds.pop() if len(kinds) == 1 else None
        return None

    def _fn_targets(self, rel, name):
        if (rel, name) in self.fns:
            return [(rel, name)]
        origin = self.mods[rel].imports.get(name, "")
        return [(r2, q2) for (r2, q2) in self.fns if "." not in q2 and q2 == origin.split(".")[-1] and origin.startswith(r2[:-3].replace("/", "."))]

    def _name_sites(self, key):
        """direct call sites `f(...)` / `self.f(...)` / `<expr>.f(...)` of function `key`, found by name (no receiver typing needed)"""
        rel, q = key
        simple = q.split(".")[-1]
        out = []
        for ck, f2 in self.fns.items():
            for n in ast.walk(f2):
                if not isinstance(n, ast.Call) or self.owner.get(id(n)) != ck:
                    continue
                if "." not in q and isinstance(n.func, ast.Name) and n.func.id == simple and key in self._fn_targets(ck[0], simple):
                    out.append((ck, n))
                elif "." in q and isinstance(n.func, ast.Attribute) and n.func.attr == simple:
                    out.append((ck, n))
        return out

    def _return_class(self, key, depth):
        f = self.fns[key]
        c = self._ann_class(key[0], f.returns)
        if c is not None:
            return c
        kinds = set()
        for r in ast.walk(f):
            if isinstance(r, ast.Return) and r.value is not None and not (isinstance(r.value, ast.Constant) and r.value.value is None) and self.owner_fn_of(r, key):
                kinds.add(self.receiver_class(key, r.value, depth + 1))
        kinds.discard("none")
        if not kinds:
            return "none"             # never returns a value (returns None / always raises): no object a method could be called on
        return kinds.pop() if len(kinds) == 1 else None

    def resolve(self, key, call):
        """-> list of function keys this call may target (empty: not a function of the two modules)"""
        rel, q = key
        fn = call.func
        if isinstance(fn, ast.Name):
            if (rel, fn.id) in self.fns:
                return [(rel, fn.id)]
            origin = self.mods[rel].imports.get(fn.id, "")
            for (r2, q2) in self.fns:
                if "." not in q2 and q2 == origin.split(".")[-1] and origin.startswith(r2[:-3].replace("/", ".")):
                    return [(r2, q2)]
            if self.class_of_name(fn.id):
                r2, c = self.class_of_name(fn.id)
                return [(r2, f"{c}.__init__")] if (r2, f"{c}.__init__") in self.fns else []
            return []
        if isinstance(fn, ast.Attribute):
            cl = self.receiver_class(key, fn.value)
            if isinstance(cl, tuple):
                return [(cl[0], f"{cl[1]}.{fn.attr}")] if (cl[0], f"{cl[1]}.{fn.attr}") in self.fns else []
            if isinstance(cl, str) and cl != "none":
                return []
            return [k for k in self.fns if "." in k[1] and k[1].rsplit(".", 1)[1] == fn.attr]    # unknown receiver: by name
        return []

    def bind(self, callee, call):
        ps = self.params(callee)
        out = {}
        for i, a in enumerate(call.args):
            if isinstance(a, ast.Starred) or i >= len(ps):
                return None
            out[ps[i]] = a
        for kw in call.keywords:
            if kw.arg is None:
                return None
            if kw.arg in ps:
                out[kw.arg] = kw.value
        return out

    def _call_sites(self):
        sites = {}
        for key, f in self.fns.items():
            for n in ast.walk(f):
                if isinstance(n, ast.Call) and self.owner.get(id(n)) == key:
                    for callee in self.resolve(key, n):
                        sites.setdefault(callee, []).append((key, n, self.bind(callee, n)))
        return sites

    # -- value analysis
    def bindings(self, key, name):
        """every expression a local name is bound to in the function (None entries: a binding that is not a plain value)"""
        memo = self._bind_memo.get((key, name))
        if memo is not None:
            return memo
        f = self.fns[key]
        out = self._bind_memo[(key, name)] = []
        for n in ast.walk(f):
            if isinstance(n, ast.Assign):
                for t in n.targets:
                    if isinstance(t, ast.Name) and t.id == name:
                        out.append(n.value)
                    elif any(isinstance(x, ast.Name) and x.id == name and isinstance(x.ctx, ast.Store) for x in ast.walk(t)):
                        out.append(None)
            elif isinstance(n, ast.AnnAssign) and isinstance(n.target, ast.Name) and n.target.id == name and n.value is not None:
                out.append(n.value)
            elif isinstance(n, ast.AugAssign) and isinstance(n.target, ast.Name) and n.target.id == name:
                out.append(None)
            elif isinstance(n, ast.NamedExpr) and n.target.id == name:
                out.append(n.value)
            elif isinstance(n, (ast.With, ast.AsyncWith)):
                for it in n.items:
                    if it.optional_vars is not None and any(isinstance(x, ast.Name) and x.id == name for x in ast.walk(it.optional_vars)):
                        out.append(it.context_expr if isinstance(it.optional_vars, ast.Name) else None)
            elif isinstance(n, (ast.For, ast.AsyncFor, ast.comprehension)):
                if any(isinstance(x, ast.Name) and x.id == name for x in ast.walk(n.target)):
                    out.append(None)
            elif isinstance(n, ast.ExceptHandler) and n.name == name:
                out.append(None)
        return out

    def confined(self, key, e, given=None):
        """is the value of expression `e` (in function `key`) the private base directory or a path inside it?
        given: {param: bool} overrides the fixpoint assumption (used for return summaries)"""
        rel = key[0]
        if isinstance(e, ast.Name):
            ps = self.params(key)
            vals = self.bindings(key, e.id)
            if e.id in ps and not vals:
                return given[e.id] if given is not None and e.id in given else self.param_conf.get((key, e.id), False)
            if not vals or e.id in ps:
                return False
            tag = (key, e.id)
            if tag in self._stack:
                return True          # a cycle through names only: decided by the other bindings
            self._stack.add(tag)
            try:
                return all(v is not None and self.confined(key, v, given) for v in vals)
            finally:
                self._stack.discard(tag)
        if isinstance(e, ast.NamedExpr):
            return self.confined(key, e.value, given)
        if isinstance(e, ast.IfExp):
            return self.confined(key, e.body, given) and self.confined(key, e.orelse, given)
        if isinstance(e, ast.Attribute) and e.attr == "name" and isinstance(e.value, ast.Name) and e.value.id not in self.params(key):
            # round 8: `<obj>.name` of a local bound only to tempfile.TemporaryDirectory(...) is the private directory (what `with ... as d` binds)
            vals = self.bindings(key, e.value.id)
            return bool(vals) and all(isinstance(v, ast.Call) and self.canonical(rel, v) == "tempfile.TemporaryDirectory" for v in vals)
        if isinstance(e, ast.Call):
            c = self.canonical(rel, e)
            if c in TEMP_ROOTS:
                return True
            if c.split(".")[-1] == self.sanitiser and (c == self.sanitiser or c.endswith("sevenzip." + self.sanitiser)):
                base = e.args[0] if e.args else next((k.value for k in e.keywords if k.arg in ("base_dir", "base")), None)
                return base is not None and self.confined(key, base, given)
            if c in PURE_PATH and len(e.args) == 1:
                return self.confined(key, e.args[0], given)
            targets = self.resolve(key, e)
            if targets:
                ok = True
                for callee in targets:
                    amap = self.bind(callee, e)
                    if amap is None:
                        return False
                    conf_params = frozenset(p for p, a in amap.items() if self.confined(key, a, given))
                    ok = ok and self.returns_confined(callee, conf_params)
                return ok
        return False

    def returns_confined(self, callee, conf_params):
        memo = (callee, conf_params)
        if memo in self._ret_memo:
            return self._ret_memo[memo]
        self._ret_memo[memo] = False
        f = self.fns[callee]
        rets = [n for n in ast.walk(f) if isinstance(n, ast.Return) and n.value is not None and self.owner_fn_of(n, callee)]
        given = {p: (p in conf_params) for p in self.params(callee)}
        ok = bool(rets) and all(self.confined(callee, r.value, given) for r in rets)
        self._ret_memo[memo] = ok
        return ok

    def owner_fn_of(self, node, key):
        """is `node` directly in function `key` (not in a nested def)?"""
        f = self.fns[key]
        for n in ast.walk(f):
            if n is not f and isinstance(n, (ast.FunctionDef, ast.AsyncFunctionDef, ast.Lambda)):
                if any(x is node for x in ast.walk(n)):
                    return False
        return True

    def dead(self, key):
        """no call site in the two modules and the name is mentioned nowhere else in the package: unreachable code, judged relative
        to its own parameters (whatever base a future caller passes)"""
        if self.sites.get(key):
            return False
        name = key[1].split(".")[-1]
        if name.startswith("__"):
            return False
        text = self.package_text or "\n".join(m.source for m in self.mods.values())
        return len(re.findall(r"\b" + re.escape(name) + r"\b", text)) <= 1

    def _fixpoint(self):
        for key in self.fns:
            if self.dead(key):
                for p in self.params(key):
                    self.param_conf[(key, p)] = True
        changed = True
        rounds = 0
        while changed and rounds < 12:
            changed = False
            rounds += 1
            for callee, ss in self.sites.items():
                for p in self.params(callee):
                    if self.param_conf.get((callee, p)):
                        continue
                    real = [(ck, n, amap) for ck, n, amap in ss
                            if not (ck == callee and amap and isinstance(amap.get(p), ast.Name) and amap[p].id == p)]
                    if not real:
                        continue
                    ok = True
                    for ck, n, amap in real:
                        if amap is None or p not in amap or not self.confined(ck, amap[p]):
                            ok = False
                            break
                    if ok:
                        self.param_conf[(callee, p)] = True
                        self._ret_memo.clear()
                        changed = True

    # -- sinks
    def fs_sites(self):
        """-> [(rel, qualname, call, canonical, verdict, detail)] verdict: 'ok' | 'unconfined' | 'unrecognised'"""
        out = []
        for rel, m in self.mods.items():
            with_items = {id(it.context_expr) for w in ast.walk(m.tree) if isinstance(w, (ast.With, ast.AsyncWith)) for it in w.items}
            for call in (n for n in ast.walk(m.tree) if isinstance(n, ast.Call)):
                key = self.owner.get(id(call))
                c = self.canonical(rel, call)
                q = key[1] if key else "<module>"
                where = f"{rel.split('/')[-1]}:{call.lineno} {c or ast.unparse(call.func)} in {q}"
                if c in PATH1 or c in PATH2:
                    n_paths = 2 if c in PATH2 else 1
                    args = list(call.args[:n_paths])
                    for kw in call.keywords:
                        if kw.arg in ("path", "file", "name", "src", "dst", "filename", "top") and len(args) < n_paths:
                            args.append(kw.value)
                    if key is None or len(args) < n_paths or any(isinstance(a, ast.Starred) for a in args):
                        out.append((rel, q, call, c, "unrecognised", where + ": path argument not found"))
                        continue
                    bad = [ast.unparse(a) for a in args if not self.confined(key, a)]
                    if bad:
                        out.append((rel, q, call, c, "unconfined", where + f": `{bad[0]}` is not the extraction base, a {self.sanitiser} result, its dirname, "
                                    "or a parameter bound to such a value at every call site"))
                    else:
                        out.append((rel, q, call, c, "ok", where))
                elif c == "tempfile.TemporaryDirectory":
                    if id(call) in with_items or (key is not None and self.cleanup_owned(key, call) is not None):
                        out.append((rel, q, call, c, "ok", where))
                    else:
                        out.append((rel, q, call, c, "tempdir-lifetime", where + ": not a with-item (lifetime of the directory not tied to a block)"))
                elif c == "tempfile.mkdtemp":
                    out.append((rel, q, call, c, "tempdir-lifetime", where + ": mkdtemp has no owner that removes the directory on every exit"))
                elif c in FS_OTHER or c.startswith(FS_PREFIXES):
                    out.append((rel, q, call, c, "unrecognised", where + ": file-system primitive outside the recognised set"))
                elif isinstance(call.func, ast.Attribute) and call.func.attr in ("extract", "extractall", "makefile") and key is not None:
                    cl = self.receiver_class(key, call.func.value)
                    if isinstance(cl, tuple) or cl == "none":
                        continue                      # the 7z reader of this package: a call site of its own (binds `path`)
                    if cl is None and not self._may_hold_library_archive(rel) and any(
                            k[0] == rel and "." in k[1] and k[1].rsplit(".", 1)[1] == call.func.attr for k in self.fns):
                        continue                      # no library archive object can exist in this module; resolved by name to its own methods
                    kind = cl.split(":")[1] if isinstance(cl, str) and ":" in cl else "unknown receiver"
                    out.append((rel, q, call, f"<{kind}>.{call.func.attr}", "unrecognised", where + f": `{ast.unparse(call)}` lets a library archive object write members to disk"))
        return out

    def _may_hold_library_archive(self, rel):
        """can code of this module hold a zipfile / tarfile / shutil object?  Only if it imports such a module, or a function of it is
        called from a module that does (then the object could come in as an argument)"""
        libs = ("zipfile", "tarfile", "shutil", "py7zr")
        def imports_lib(r):
            return any(o.split(".")[0] in libs for o in self.mods[r].imports.values())
        if imports_lib(rel):
            return True
        for callee, ss in self.sites.items():
            if callee[0] == rel and any(ck[0] != rel and imports_lib(ck[0]) and self._passes_object(ck, n) for ck, n, _a in ss):
                return True
        return False

    def _passes_object(self, ck, call):
        """does this cross-module call pass anything that may be a library archive object (i.e. not a plain str / number / stream)?"""
        for a in list(call.args) + [k.value for k in call.keywords]:
            c = self.receiver_class(ck, a)
            if isinstance(c, str) and c.startswith("archive:"):
                return True
        return False

    def cleanup_owned(self, key, call):
        """round 8: the try/finally spelling of `with tempfile.TemporaryDirectory() as d:` --
               X = tempfile.TemporaryDirectory(...)          (the only binding of X)
               try: <body> finally: X.cleanup(); ...         (the very next statement; cleanup() is the FIRST statement of the finally block)
        -> (try node, X, aliases) where aliases are the locals bound once, to `X.name`; None for any other shape.  Every other use of X must be a load
        `X.name` (an X handed on, rebound, deleted or cleaned up elsewhere is not this shape).  Which uses lie inside the try body is judged by P5."""
        f = self.fns[key]
        for n in ast.walk(f):
            for fld in ("body", "orelse", "finalbody"):
                stmts = getattr(n, fld, None)
                if not isinstance(stmts, list):
                    continue
                for i, s in enumerate(stmts):
                    if not (isinstance(s, ast.Assign) and s.value is call and len(s.targets) == 1 and isinstance(s.targets[0], ast.Name)):
                        continue
                    x = s.targets[0].id
                    nxt = stmts[i + 1] if i + 1 < len(stmts) else None
                    if not (isinstance(nxt, ast.Try) and nxt.finalbody) or x in self.params(key) or not self.owner_fn_of(s, key):
                        return None
                    fin = nxt.finalbody[0]
                    is_cleanup = (isinstance(fin, ast.Expr) and isinstance(fin.value, ast.Call) and isinstance(fin.value.func, ast.Attribute)
                                  and fin.value.func.attr == "cleanup" and isinstance(fin.value.func.value, ast.Name) and fin.value.func.value.id == x
                                  and not fin.value.args and not fin.value.keywords)
                    if not is_cleanup or len(self.bindings(key, x)) != 1:
                        return None
                    if any(isinstance(d, (ast.Delete, ast.Global, ast.Nonlocal)) for d in ast.walk(f)):
                        return None
                    parents = {id(c_): p_ for p_ in ast.walk(f) for c_ in ast.iter_child_nodes(p_)}
                    for u in ast.walk(f):
                        if isinstance(u, ast.Name) and u.id == x and u is not s.targets[0] and u is not fin.value.func.value:
                            par = parents.get(id(u))
                            if not (isinstance(u.ctx, ast.Load) and isinstance(par, ast.Attribute) and par.attr == "name" and isinstance(par.ctx, ast.Load)):
                                return None
                    aliases = []
                    for a_ in ast.walk(f):
                        if isinstance(a_, ast.Assign) and isinstance(a_.value, ast.Attribute) and a_.value.attr == "name" and isinstance(a_.value.value, ast.Name) \
                                and a_.value.value.id == x:
                            if not (len(a_.targets) == 1 and isinstance(a_.targets[0], ast.Name)):
                                return None
                            aliases.append(a_.targets[0].id)
                    return nxt, x, aliases
        return None

    def tempdir_blocks(self, rel):
        """[(function, with node, name, loads inside, loads total)] for every `with TemporaryDirectory() as name`"""
        out = []
        m = self.mods[rel]
        for key, f in self.fns.items():
            if key[0] != rel:
                continue
            for w in ast.walk(f):
                if isinstance(w, (ast.With, ast.AsyncWith)) and self.owner_fn_of(w, key):
                    for it in w.items:
                        if isinstance(it.context_expr, ast.Call) and self.canonical(rel, it.context_expr) == "tempfile.TemporaryDirectory":
                            name = it.optional_vars.id if isinstance(it.optional_vars, ast.Name) else None
                            tot = [n for n in ast.walk(f) if isinstance(n, ast.Name) and n.id == name and isinstance(n.ctx, ast.Load)]
                            ins = [n for b in w.body for n in ast.walk(b) if isinstance(n, ast.Name) and n.id == name and isinstance(n.ctx, ast.Load)]
                            stores = [n for n in ast.walk(f) if isinstance(n, ast.Name) and n.id == name and isinstance(n.ctx, ast.Store)]
                            out.append((key[1], w, name, len(ins), len(tot), len(stores)))
            # round 8: the try/finally spelling (cleanup_owned): the "name" is X together with the locals bound to X.name
            for c_ in [n for n in ast.walk(f) if isinstance(n, ast.Call) and self.owner.get(id(n)) == key and self.canonical(rel, n) == "tempfile.TemporaryDirectory"]:
                own = self.cleanup_owned(key, c_)
                if own is None:
                    continue
                w, x, aliases = own
                names = {x, *aliases}
                tot = [n for n in ast.walk(f) if isinstance(n, ast.Name) and n.id in names and isinstance(n.ctx, ast.Load)]
                ins = [n for b in w.body for n in ast.walk(b) if isinstance(n, ast.Name) and n.id in names and isinstance(n.ctx, ast.Load)]
                n_st = max(len([n for n in ast.walk(f) if isinstance(n, ast.Name) and n.id == a_ and isinstance(n.ctx, ast.Store)]) for a_ in names)
                out.append((key[1], w, (aliases[0] if aliases else x), len(ins), len(tot) - 1, n_st))      # - 1: the load in `X.cleanup()`
        return out
