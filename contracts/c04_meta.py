"""C04 (g): the metadata readers report each documented document property unchanged.

Dataflow postcondition per (reader, property): every store into the metadata field of the property has, after resolving
local single assignments / walrus bindings / literal-list loops / one level of helper functions, the provenance
`text of the node <TAG of the property>` (spec table below, written from the file-format specifications, not from the
code), wrapped at most by the transformations the format itself defines (none for OOXML / ODF: exact copy;
surrounding white space is not significant in OPF `dc:*` elements and in the HTML <title>, so `strip()` is allowed there);
at least one such store exists; and the store is guarded only by tests about that same node / text (so a present,
non-empty property is always copied).  Back end `dataflow`; unrecognised shapes are `unknown`.
"""
from __future__ import annotations

import ast

from pyvc import loader
from pyvc.flow import dotted, ground_obligation

from contracts.c04_flow import EX, Index, own_walk, single_defs, short

DC = "{http://purl.org/dc/elements/1.1/}"
CP = "{http://schemas.openxmlformats.org/package/2006/metadata/core-properties}"

# reader -> (file, function qualname, kind, {property: (metadata field, node tag / key, allowed wrappers)})
OOXML = {"title": ("title", DC + "title", ()), "creator": ("author", DC + "creator", ()), "subject": ("subject", DC + "subject", ()),
         "keywords": ("keywords", CP + "keywords", ()), "description": ("comments", DC + "description", ())}
READERS = {
    "docx": (EX + "ms_modern/docx_extractor.py", "_extract_metadata_from_context", "etree", OOXML),
    "pptx": (EX + "ms_modern/pptx_extractor.py", "_extract_metadata_from_context", "etree", OOXML),
    "odf": (EX + "open_office/_shared.py", "extract_odf_metadata", "etree",
            {"title": ("title", "dc:title", ()), "creator": ("creator", "dc:creator", ()), "subject": ("subject", "dc:subject", ()),
             "keywords": ("keywords", "meta:keyword", ()), "description": ("description", "dc:description", ())}),
    "epub": (EX + "epub_extractor.py", "_EpubContext._parse_metadata", "etree",
             {"title": ("title", "dc:title", ("strip", "or-empty")), "creator": ("creator", "dc:creator", ("strip", "or-empty")),
              "subject": ("subject", "dc:subject", ("strip", "or-empty")), "description": ("description", "dc:description", ("strip", "or-empty"))}),
    "xlsx": (EX + "ms_modern/xlsx_extractor.py", "_extract_metadata_from_workbook", "props",
             {"title": ("title", "title", ("or-empty",)), "creator": ("creator", "creator", ("or-empty",)),
              "keywords": ("keywords", "keywords", ("or-empty",)), "description": ("description", "description", ("or-empty",))}),
    "html": (EX + "html_extractor.py", "_HtmlTextExtractor._extract_metadata", "html",
             {"title": ("title", "node:title", ("strip",)), "creator": ("author", "meta:author", ()),
              "keywords": ("keywords", "meta:keywords", ()), "description": ("description", "meta:description", ())}),
    "rtf": (EX + "ms_legacy/rtf_extractor.py", "_RtfParser._extract_metadata", "rtf",
            {"title": ("title", "\\title", ()), "creator": ("author", "\\author", ()), "subject": ("subject", "\\subject", ()),
             "keywords": ("keywords", "\\keywords", ()), "description": ("comments", "\\comment", ())}),
}


class Prov:
    """Provenance of expressions inside one function (with an environment for unrolled loop variables / helper parameters)."""

    def __init__(self, mod, fnode, env=None, depth=0):
        self.mod, self.fnode, self.env, self.depth = mod, fnode, dict(env or {}), depth

    def const_str(self, e):
        if isinstance(e, ast.Constant) and isinstance(e.value, str):
            return e.value
        if isinstance(e, ast.Name):
            if e.id in self.env and isinstance(self.env[e.id], tuple) and self.env[e.id][0] == "const":
                return self.env[e.id][1]
            if e.id in self.mod.assigns:
                return Prov(self.mod, None).const_str(self.mod.assigns[e.id])
            return None
        if isinstance(e, ast.JoinedStr):
            parts = []
            for v in e.values:
                if isinstance(v, ast.Constant):
                    parts.append(str(v.value))
                elif isinstance(v, ast.FormattedValue) and v.format_spec is None and v.conversion == -1:
                    s = self.const_str(v.value)
                    if s is None:
                        return None
                    parts.append(s)
                else:
                    return None
            return "".join(parts)
        if isinstance(e, ast.BinOp) and isinstance(e.op, ast.Add):
            a, b = self.const_str(e.left), self.const_str(e.right)
            return None if a is None or b is None else a + b
        return None

    def ev(self, e, d=0):
        """Canonical provenance term (nested tuples)."""
        if d > 8:
            return ("?", "depth")
        s = self.const_str(e)
        if s is not None:
            return ("const", s)
        if isinstance(e, ast.Constant):
            return ("const", e.value)
        if isinstance(e, ast.Name):
            if e.id in self.env:
                return self.env[e.id]
            if self.fnode is not None:
                defs = single_defs(self.fnode, e.id)
                vals = []
                for df in defs:
                    if df[0] == "assign":
                        vals.append(self.ev(df[1], d + 1))
                    elif df[0] == "param":
                        vals.append(("param", e.id))
                    else:
                        vals.append(("?", f"binding {df[0]} of {e.id}"))
                if vals:
                    first = vals[0]
                    return first if all(v == first for v in vals) else ("alt", tuple(vals))
            return ("name", e.id)
        if isinstance(e, ast.NamedExpr):
            return self.ev(e.value, d + 1)
        if isinstance(e, ast.Attribute):
            if e.attr == "text":
                return ("text", self.ev(e.value, d + 1))
            return ("attr", self.ev(e.value, d + 1), e.attr)
        if isinstance(e, ast.BoolOp) and isinstance(e.op, ast.Or) and len(e.values) == 2:
            b = self.ev(e.values[1], d + 1)
            if b == ("const", ""):
                return ("or-empty", self.ev(e.values[0], d + 1))
            return ("or", self.ev(e.values[0], d + 1), b)
        if isinstance(e, ast.IfExp):
            # `X if <test about X> else ""`
            return ("ifexp", self.ev(e.body, d + 1), self.ev(e.orelse, d + 1), ast.unparse(e.test))
        if isinstance(e, ast.Subscript) and isinstance(e.slice, ast.Constant):
            return ("item", self.ev(e.value, d + 1), e.slice.value)
        if isinstance(e, ast.Call):
            f = e.func
            if isinstance(f, ast.Attribute):
                if f.attr == "find" and e.args:
                    return ("find", self.ev(f.value, d + 1), self.ev(e.args[0], d + 1))
                if f.attr in ("strip",) and not e.args:
                    return ("strip", self.ev(f.value, d + 1))
                if f.attr in ("lower", "rstrip", "lstrip", "upper", "replace", "title"):
                    return (f.attr, self.ev(f.value, d + 1)) + tuple(ast.unparse(a) for a in e.args)
                if f.attr == "get" and e.args:
                    dflt = self.ev(e.args[1], d + 1) if len(e.args) > 1 else ("const", None)
                    return ("get", self.ev(f.value, d + 1), self.ev(e.args[0], d + 1), dflt)
                if f.attr == "group" and e.args:
                    return ("group", self.ev(f.value, d + 1), ast.unparse(e.args[0]))
                if isinstance(f.value, ast.Name) and f.value.id == "self":
                    return self.helper(f.attr, e, d, method=True)
                return ("call", ast.unparse(f), tuple(self.ev(a, d + 1) for a in e.args))
            if isinstance(f, ast.Name):
                if f.id in ("str",) and len(e.args) == 1:
                    return ("str", self.ev(e.args[0], d + 1))
                return self.helper(f.id, e, d, method=False)
        return ("?", ast.unparse(e)[:60])

    def helper(self, name, call, d, method):
        """One level of helper inlining: module function / nested function / method of the same class with simple returns."""
        target = None
        if self.fnode is not None:
            for n in ast.walk(self.fnode):
                if isinstance(n, ast.FunctionDef) and n.name == name and n is not self.fnode:
                    target = n
                    break
        if target is None:
            for q, fn in self.mod.functions.items():
                if q.split(".")[-1] == name and "<locals>" not in q:
                    target = fn
                    break
        simple = target is not None and not any(isinstance(n, (ast.For, ast.While)) for n in ast.walk(target)) \
            and not any(isinstance(n, ast.Call) and dotted(n.func).split(".")[-1] == target.name for n in ast.walk(target))
        if target is None or self.depth > 2 or not simple:
            return ("call", name, tuple(self.ev(a, d + 1) for a in call.args))
        params = [a.arg for a in target.args.args]
        if method and params and params[0] == "self":
            params = params[1:]
        env = dict(self.env) if target in list(ast.walk(self.fnode or ast.Module(body=[], type_ignores=[]))) else {}
        # closures see the enclosing function's names through Prov of the enclosing function
        outer = self if env else None
        for p, a in zip(params, call.args):
            env[p] = self.ev(a, d + 1)
        for k in call.keywords:
            if k.arg:
                env[k.arg] = self.ev(k.value, d + 1)
        sub = ProvClosure(self.mod, target, env, self.depth + 1, outer)
        rets = [n.value for n in own_walk(target) if isinstance(n, ast.Return) and n.value is not None]
        vals = []
        for r in rets:
            v = sub.ev(r, d + 1)
            if v in (("const", None), ("const", "")):
                continue
            vals.append(v)
        if not vals:
            return ("call", name, ())
        first = vals[0]
        return first if all(v == first for v in vals) else ("alt", tuple(vals))


class ProvClosure(Prov):
    """Provenance inside a nested function: free names resolve in the enclosing function."""

    def __init__(self, mod, fnode, env, depth, outer):
        super().__init__(mod, fnode, env, depth)
        self.outer = outer

    def ev(self, e, d=0):
        if isinstance(e, ast.Name) and e.id not in self.env and self.outer is not None and not single_defs(self.fnode, e.id):
            return self.outer.ev(e, d + 1)
        return super().ev(e, d)


def strip_wrappers(term, allowed):
    """Remove allowed wrappers; returns (core, ok)."""
    ok = True
    while isinstance(term, tuple) and term and term[0] in ("strip", "or-empty", "ifexp", "alt", "str"):
        if term[0] == "alt":
            cores = [strip_wrappers(t, allowed) for t in term[1]]
            if all(c[1] for c in cores) and all(c[0] == cores[0][0] for c in cores):
                return cores[0][0], ok
            return term, False
        if term[0] == "ifexp":
            if term[2] in (("const", ""), ("const", None)):
                term = term[1]
                continue
            return term, False
        if term[0] == "str":
            term = term[1]
            continue
        if term[0] not in allowed:
            ok = False
        term = term[1]
    return term, ok


def mentions(term, pred):
    if pred(term):
        return True
    if isinstance(term, tuple):
        return any(mentions(t, pred) for t in term if isinstance(t, tuple))
    return False


# ------------------------------------------------------------- store sites --
def stores(mod, fnode, ix):
    """(field, value expr, env, store node) for every store into a metadata field inside fnode, literal-list loops unrolled."""
    out = []

    def visit(stmts, env):
        for s in stmts:
            if isinstance(s, ast.For):
                lit = s.iter
                if isinstance(lit, ast.Name):
                    defs = single_defs(fnode, lit.id)
                    if len(defs) == 1 and defs[0][0] == "assign":
                        lit = defs[0][1]
                if isinstance(lit, (ast.List, ast.Tuple)) and lit.elts and all(isinstance(x, ast.Tuple) for x in lit.elts) \
                        and isinstance(s.target, ast.Tuple) and all(isinstance(t, ast.Name) for t in s.target.elts):
                    P = Prov(mod, fnode, env)
                    for tup in lit.elts:
                        env2 = dict(env)
                        for t, v in zip(s.target.elts, tup.elts):
                            env2[t.id] = P.ev(v)
                        visit(s.body, env2)
                    continue
                visit(s.body, env)
                visit(s.orelse, env)
                continue
            for sub in ([s] if not isinstance(s, (ast.If, ast.Try, ast.With, ast.While)) else []):
                for n in ast.walk(sub):
                    if isinstance(n, ast.Assign):
                        for t in n.targets:
                            if isinstance(t, ast.Attribute):
                                out.append((t.attr, n.value, env, n, ast.unparse(t.value)))
                    elif isinstance(n, ast.Call) and isinstance(n.func, ast.Name) and n.func.id == "setattr" and len(n.args) == 3:
                        name = Prov(mod, fnode, env).ev(n.args[1])
                        if name[0] == "const":
                            out.append((name[1], n.args[2], env, n, ast.unparse(n.args[0])))
                    elif isinstance(n, ast.Call) and dotted(n.func).endswith("Metadata"):
                        for k in n.keywords:
                            if k.arg:
                                out.append((k.arg, k.value, env, n, dotted(n.func)))
            if isinstance(s, ast.If):
                for n in ast.walk(s.test):
                    pass
                visit(s.body, env)
                visit(s.orelse, env)
            elif isinstance(s, ast.Try):
                visit(s.body, env)
                for h in s.handlers:
                    visit(h.body, env)
                visit(s.orelse, env)
                visit(s.finalbody, env)
            elif isinstance(s, (ast.With, ast.While)):
                visit(s.body, env)
    visit(fnode.body, {})
    return out


def guard_tests(ix, fnode, node):
    out = []
    cur = node
    for a in ix.ancestors(node):
        if isinstance(a, ast.If):
            if any(cur is s or any(cur is x for x in ast.walk(s)) for s in a.body):
                out.append((a.test, True))
            else:
                out.append((a.test, False))
        if a is fnode:
            break
        cur = a
    return out


def _with_walrus(mod, fnode, ix, node, env):
    """Names bound by a walrus in an enclosing if-test are resolved to that binding (the reaching definition)."""
    env = dict(env)
    for test, pos in guard_tests(ix, fnode, node):
        for n in ast.walk(test):
            if isinstance(n, ast.NamedExpr) and n.target.id not in env and pos:
                env[n.target.id] = Prov(mod, fnode, env).ev(n.value)
    return env


def _is_node_of(core, kind, tag):
    """core provenance == 'the text/value of node <tag>' for the reader kind."""
    if kind == "etree":
        if core[0] != "text":
            return False
        x = core[1]
        # find(tag) possibly with a fallback find("{ns}tag") (alt of two finds of the same local name)
        finds = [x] if x[0] == "find" else (list(x[1]) if x[0] == "alt" else [])
        if not finds:
            return False
        local = tag.split("}")[-1].split(":")[-1]
        for f in finds:
            if f[0] != "find" or f[2][0] != "const":
                return False
            t = f[2][1]
            if t != tag and not (t.split("}")[-1].split(":")[-1] == local and (t.startswith("{http://purl.org/dc/elements/1.1/}") or t.startswith("dc:"))):
                return False
        return True
    if kind == "props":
        return core[0] == "attr" and core[2] == tag and core[1] == ("attr", ("param", "wb"), "properties")
    return False


def metadata_readers(repo, tier):
    obls, fns = [], []
    for reader, (rel, q, kind, props) in READERS.items():
        try:
            mod = loader.module(rel, repo)
        except FileNotFoundError:
            mod = None
        fnode = mod.functions.get(q) if mod is not None else None
        for prop, (field, tag, allowed) in props.items():
            oid = f"C04/{short(rel)}::{q}/metadata-copied#{reader}-{prop}"
            if fnode is None:
                obls.append(ground_obligation(oid, False, "reader function missing", rel, definite=False))
                continue
            ix = Index(mod)
            if kind in ("etree", "props"):
                obls.append(_check_copied(oid, rel, mod, fnode, ix, kind, prop, field, tag, allowed, props))
            elif kind == "html":
                obls.append(_check_html(oid, rel, mod, fnode, ix, prop, field, tag, allowed))
            elif kind == "rtf":
                obls.append(_check_rtf(oid, rel, mod, fnode, ix, prop, field, tag))
        if fnode is not None:
            fns.append(dict(mod.fn_info(q), obligations=len(props)))
    return {"obligations": obls, "functions": fns}


def _check_copied(oid, rel, mod, fnode, ix, kind, prop, field, tag, allowed, props):
    sts = [s for s in stores(mod, fnode, ix) if s[0] == field]
    hint = {"kind": "metadata", "reader": oid.split("#")[1].split("-")[0], "property": prop, "field": field}

    def res(ok, why, definite=True):
        o = ground_obligation(oid, ok, f"{rel}: {why}", rel, definite=definite)
        o["replay_hint"] = hint
        return o
    if not sts:
        return res(False, f"no store into metadata.{field}: the {prop} of the document is never reported")
    other_tags = {t for p, (_f, t, _a) in props.items() if p != prop}
    for (_f, value, env, node, _base) in sts:
        env = _with_walrus(mod, fnode, ix, node, env)
        P = Prov(mod, fnode, env)
        term = P.ev(value)
        core, ok = strip_wrappers(term, allowed)
        if not _is_node_of(core, kind, tag):
            wrong = mentions(term, lambda t: isinstance(t, tuple) and t[:1] == ("const",) and t[1] in other_tags) \
                and not mentions(term, lambda t: isinstance(t, tuple) and t[:1] in (("alt",), ("?",)))
            return res(False, f"line {node.lineno}: metadata.{field} is assigned {ast.unparse(value)[:60]} whose provenance is not the text of <{tag}>"
                       + (" (it is the node of another property)" if wrong else ""), definite=bool(wrong))
        if not ok:
            return res(False, f"line {node.lineno}: metadata.{field} = {ast.unparse(value)[:60]}: the text of <{tag}> is transformed "
                              f"(only {list(allowed) or 'an exact copy'} is allowed for this format)")
        # guards: only about this node / its text (or the container nodes)
        for test, _pos in guard_tests(ix, fnode, node):
            for nm in [n for n in ast.walk(test) if isinstance(n, ast.Name)]:
                t = P.ev(nm)
                if mentions(t, lambda x: isinstance(x, tuple) and x[:1] == ("const",) and x[1] in other_tags):
                    return res(False, f"line {node.lineno}: the store into metadata.{field} is guarded by a test about another property ({ast.unparse(test)[:50]})")
                if mentions(t, lambda x: isinstance(x, tuple) and x[:1] == ("?",)):
                    return res(False, f"line {node.lineno}: guard {ast.unparse(test)[:50]} not understood", definite=False)
    return res(True, f"metadata.{field} <- text of <{tag}>" + (f" modulo {list(allowed)}" if allowed else " (exact copy)") + f"; {len(sts)} store(s)")


def _check_html(oid, rel, mod, fnode, ix, prop, field, tag, allowed):
    sts = [s for s in stores(mod, fnode, ix) if s[0] == field]
    hint = {"kind": "metadata", "reader": "html", "property": prop, "field": field}

    def res(ok, why, definite=True):
        o = ground_obligation(oid, ok, f"{rel}: {why}", rel, definite=definite)
        o["replay_hint"] = hint
        return o
    if not sts:
        return res(False, f"no store into metadata.{field}")
    for (_f, value, env, node, _b) in sts:
        P = Prov(mod, fnode, env)
        term = P.ev(value)
        core, ok = strip_wrappers(term, allowed)
        if tag.startswith("node:"):
            want = tag.split(":")[1]
            good = mentions(core, lambda t: isinstance(t, tuple) and t[:1] == ("call",) and "_find_node" in str(t[1]) and ("const", want) in t[2]) \
                or mentions(core, lambda t: t == ("const", want))
            if not (good and ok):
                return res(False, f"line {node.lineno}: metadata.{field} = {ast.unparse(value)[:60]}: not the text of the <{want}> node", definite=False)
        else:
            want = tag.split(":")[1]
            # content attribute of a <meta> whose name attribute equals `want`: value = attrs.get("content", ""), guard name == want
            is_content = mentions(term, lambda t: isinstance(t, tuple) and t[:1] == ("get",) and t[2] == ("const", "content"))
            guards = guard_tests(ix, fnode, node)
            named = any(pos and any(isinstance(c, ast.Constant) and c.value == want for c in ast.walk(test)) for test, pos in guards)
            wrong = [c.value for test, pos in guards if pos for c in ast.walk(test) if isinstance(c, ast.Constant) and isinstance(c.value, str)
                     and c.value in ("description", "keywords", "author") and c.value != want]
            if not is_content or not ok:
                return res(False, f"line {node.lineno}: metadata.{field} = {ast.unparse(value)[:60]}: not the content attribute of the meta element", definite=False)
            if not named:
                return res(False, f"line {node.lineno}: metadata.{field} is stored under a test that does not select <meta name={want!r}>"
                           + (f" (it selects {wrong})" if wrong else ""), definite=bool(wrong))
    return res(True, f"metadata.{field} <- {tag}" + (f" modulo {list(allowed)}" if allowed else ""))


def _check_rtf(oid, rel, mod, fnode, ix, prop, field, tag):
    """RTF: metadata.<field> = get_value(<pattern for the \\<keyword> group>): the keyword must be the property's (the decoding of the
    group text -- \\'hh escapes, control words -- is part of the format)."""
    sts = [s for s in stores(mod, fnode, ix) if s[0] == field]
    hint = {"kind": "metadata", "reader": "rtf", "property": prop, "field": field}

    def res(ok, why, definite=True):
        o = ground_obligation(oid, ok, f"{rel}: {why}", rel, definite=definite)
        o["replay_hint"] = hint
        return o
    if not sts:
        return res(False, f"no store into metadata.{field}")
    for (_f, value, env, node, _b) in sts:
        if not (isinstance(value, ast.Call) and isinstance(value.func, ast.Name) and value.args and isinstance(value.args[0], ast.Constant)
                and isinstance(value.args[0].value, str)):
            return res(False, f"line {node.lineno}: metadata.{field} = {ast.unparse(value)[:60]}: shape not recognised", definite=False)
        pat = value.args[0].value
        kw = tag.lstrip("\\")
        import re as _re
        words = _re.findall(r"\\\\([a-z]+)", pat)
        if kw not in words:
            return res(False, f"line {node.lineno}: metadata.{field} is read from the group {words} instead of \\{kw}", definite=True)
    return res(True, f"metadata.{field} <- text of the {tag} group of \\info")
