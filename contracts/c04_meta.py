"""C04 (g): the metadata readers report each documented document property unchanged.

Decided by a small flow-sensitive ABSTRACT INTERPRETER over the real AST of the reader's module (back end `dataflow`):
values are provenance terms (`text of find(<root>, <tag>)`, `content attribute of <attrs>`, constants, constant
tuples / dicts, alternatives at joins).  It follows the data flow, not the shape of the code:

  * assignments, walrus bindings, tuple unpacking, conditional expressions, `x or ""`;
  * `if` with statically decidable tests (constants from tables: `convert is not None`) takes one branch, otherwise both
    branches are executed under a recorded guard and joined; early `return` / `continue` end a path;
  * `for` over a constant sequence (literal or hoisted module constant, tuple targets) is unrolled, over anything else the
    body is executed once for an arbitrary element;
  * calls of module-level helpers, nested functions and methods of the same class are executed in place (bounded depth)
    with their parameters bound; their returns are joined;
  * stores: `obj.f = v`, `setattr(obj, name, v)` with the name evaluated (constant, loop variable over a table, lookup in a
    constant dict -> one guarded store per entry), constructor keywords `XMetadata(f=v)`.

Every function of the module is analysed as an entry point; a store whose field / value depends on parameters that only a
caller knows is judged in the caller's context.  Per (reader, property) the obligation holds when at least one store into the
property's field exists, every such store has the provenance `text of the node <TAG of the property>` (spec table below,
from the file-format specifications) wrapped at most by the transformations the format defines, and is guarded only by tests
about that node / text.  Anything the interpreter does not understand gives `unknown` -- never a refutation: a violation is
reported only when replay/c04_meta.py reproduces a changed property on a crafted document.
"""
from __future__ import annotations

import ast
import re as _re

from pyvc import loader
from pyvc.flow import dotted, ground_obligation

from contracts.c04_flow import EX, short

DC = "{http://purl.org/dc/elements/1.1/}"
CP = "{http://schemas.openxmlformats.org/package/2006/metadata/core-properties}"

# reader -> (file, metadata class, kind, {property: (metadata field, node tag / key, allowed wrappers)})
OOXML = {"title": ("title", DC + "title", ()), "creator": ("author", DC + "creator", ()), "subject": ("subject", DC + "subject", ()),
         "keywords": ("keywords", CP + "keywords", ()), "description": ("comments", DC + "description", ())}
READERS = {
    "docx": (EX + "ms_modern/docx_extractor.py", "DocxMetadata", "etree", OOXML),
    "pptx": (EX + "ms_modern/pptx_extractor.py", "PptxMetadata", "etree", OOXML),
    "odf": (EX + "open_office/_shared.py", "OpenDocumentMetadata", "etree",
            {"title": ("title", "dc:title", ()), "creator": ("creator", "dc:creator", ()), "subject": ("subject", "dc:subject", ()),
             "keywords": ("keywords", "meta:keyword", ()), "description": ("description", "dc:description", ())}),
    "epub": (EX + "epub_extractor.py", "EpubMetadata", "etree",
             {"title": ("title", "dc:title", ("strip",)), "creator": ("creator", "dc:creator", ("strip",)),
              "subject": ("subject", "dc:subject", ("strip",)), "description": ("description", "dc:description", ("strip",))}),
    "xlsx": (EX + "ms_modern/xlsx_extractor.py", "XlsxMetadata", "props",
             {"title": ("title", "title", ()), "creator": ("creator", "creator", ()),
              "keywords": ("keywords", "keywords", ()), "description": ("description", "description", ())}),
    "html": (EX + "html_extractor.py", "HtmlMetadata", "html",
             {"title": ("title", "node:title", ("strip",)), "creator": ("author", "meta:author", ()),
              "keywords": ("keywords", "meta:keywords", ()), "description": ("description", "meta:description", ())}),
    "rtf": (EX + "ms_legacy/rtf_extractor.py", "RtfMetadata", "rtf",
            {"title": ("title", "\\title", ()), "creator": ("author", "\\author", ()), "subject": ("subject", "\\subject", ()),
             "keywords": ("keywords", "\\keywords", ()), "description": ("comments", "\\comment", ())}),
}
# wrappers that only map an absent / empty text to the field's "nothing stored" value
NEUTRAL = ("or-empty", "or-none", "str")
MAX_DEPTH = 4
MAX_UNROLL = 80


class Unknown(Exception):
    pass


def alt(values):
    flat = []
    for v in values:
        for x in (v[1] if isinstance(v, tuple) and v and v[0] == "alt" else (v,)):
            if x not in flat:
                flat.append(x)
    return flat[0] if len(flat) == 1 else ("alt", tuple(flat))


def mentions(term, pred):
    if pred(term):
        return True
    if isinstance(term, tuple):
        return any(mentions(t, pred) for t in term if isinstance(t, tuple))
    return False


class Store:
    def __init__(self, target, field, value, guards, node, fn, ctx_params):
        self.target, self.field, self.value, self.guards, self.node, self.fn, self.ctx_params = target, field, value, guards, node, fn, ctx_params


class Interp:
    """One entry point.  `stores` collects Store records; `incomplete` notes constructs that were skipped."""

    def __init__(self, mod, root_q, root_node):
        self.mod, self.root_q, self.root = mod, root_q, root_node
        self.stores = []
        self.incomplete = []
        self.cls = root_q.split(".")[0] if "." in root_q and "<locals>" not in root_q.split(".")[0] else None
        self.stack = []
        self._new = 0

    # ------------------------------------------------------------ values --
    def literal(self, e, env, d):
        if isinstance(e, ast.Tuple):
            return ("tuple", tuple(self.ev(x, env, d + 1) for x in e.elts))
        if isinstance(e, ast.List):
            return ("list", tuple(self.ev(x, env, d + 1) for x in e.elts))
        if isinstance(e, ast.Dict):
            if all(k is not None for k in e.keys):
                return ("dict", tuple((self.ev(k, env, d + 1), self.ev(v, env, d + 1)) for k, v in zip(e.keys, e.values)))
        return None

    def module_value(self, name, d):
        v = self.mod.assigns.get(name)
        if v is None or d > 12:
            return None
        n_bind = sum(1 for n in ast.walk(self.mod.tree) if isinstance(n, ast.Name) and n.id == name and isinstance(n.ctx, ast.Store))
        if n_bind != 1:
            return None
        return self.ev(v, {}, d + 1)

    def ev(self, e, env, d=0):
        if d > 40:
            return ("?", "depth")
        if isinstance(e, ast.Constant):
            return ("const", e.value)
        if isinstance(e, ast.Name):
            if e.id in env:
                return env[e.id]
            mv = self.module_value(e.id, d)
            if mv is not None:
                return mv
            return ("name", e.id)
        if isinstance(e, ast.JoinedStr):
            parts = []
            for v in e.values:
                if isinstance(v, ast.Constant):
                    parts.append(str(v.value))
                elif isinstance(v, ast.FormattedValue) and v.format_spec is None and v.conversion == -1:
                    t = self.ev(v.value, env, d + 1)
                    if t[0] != "const" or not isinstance(t[1], str):
                        return ("fstr", tuple(self.ev(x.value, env, d + 1) for x in e.values if isinstance(x, ast.FormattedValue)))
                    parts.append(t[1])
                else:
                    return ("?", "fstring")
            return ("const", "".join(parts))
        if isinstance(e, ast.BinOp) and isinstance(e.op, ast.Add):
            a, b = self.ev(e.left, env, d + 1), self.ev(e.right, env, d + 1)
            if a[0] == "const" and b[0] == "const" and isinstance(a[1], str) and isinstance(b[1], str):
                return ("const", a[1] + b[1])
            return ("add", a, b)
        if isinstance(e, ast.BinOp) and isinstance(e.op, ast.BitOr):
            return ("flags",)
        lit = self.literal(e, env, d)
        if lit is not None:
            return lit
        if isinstance(e, ast.NamedExpr):
            v = self.ev(e.value, env, d + 1)
            env[e.target.id] = v
            return v
        if isinstance(e, ast.Attribute):
            base = self.ev(e.value, env, d + 1)
            if e.attr == "text":
                return ("text", base)
            return ("attr", base, e.attr)
        if isinstance(e, ast.Subscript):
            base = self.ev(e.value, env, d + 1)
            if isinstance(e.slice, ast.Slice):
                return ("slice", base)
            k = self.ev(e.slice, env, d + 1)
            if base[0] in ("tuple", "list") and k[0] == "const" and isinstance(k[1], int) and -len(base[1]) <= k[1] < len(base[1]):
                return base[1][k[1]]
            if base[0] == "dict" and k[0] == "const":
                for kk, vv in base[1]:
                    if kk == k:
                        return vv
            return ("get", base, k, ("raise",))
        if isinstance(e, ast.BoolOp):
            vals = [self.ev(v, env, d + 1) for v in e.values]
            if isinstance(e.op, ast.Or) and len(vals) == 2:
                if vals[1] == ("const", ""):
                    return ("or-empty", vals[0])
                if vals[1] == ("const", None):
                    return ("or-none", vals[0])
                t = self.truth_of(vals[0])
                if t is True:
                    return vals[0]
                if t is False:
                    return vals[1]
                return ("or", vals[0], vals[1])
            return ("boolop", type(e.op).__name__, tuple(vals))
        if isinstance(e, ast.IfExp):
            t = self.static_truth(e.test, env)
            if t is True:
                return self.ev(e.body, env, d + 1)
            if t is False:
                return self.ev(e.orelse, env, d + 1)
            a, b = self.ev(e.body, env, d + 1), self.ev(e.orelse, env, d + 1)
            if b in (("const", ""), ("const", None)):
                return ("or-empty" if b[1] == "" else "or-none", a)
            if a in (("const", ""), ("const", None)):       # the same choice written the other way round: `None if absent else x`
                return ("or-empty" if a[1] == "" else "or-none", b)
            return ("ifexp", a, b, ast.unparse(e.test))
        if isinstance(e, ast.UnaryOp) and isinstance(e.op, ast.Not):
            return ("not", self.ev(e.operand, env, d + 1))
        if isinstance(e, ast.Compare):
            return ("cmp", ast.unparse(e)[:80])
        if isinstance(e, ast.Lambda):
            return ("closure", e, dict(env))
        if isinstance(e, (ast.ListComp, ast.GeneratorExp, ast.SetComp, ast.DictComp)) and len(e.generators) == 1 and not e.generators[0].ifs:
            g = e.generators[0]
            it = self.ev(g.iter, env, d + 1)
            if it[0] == "mcall" and it[1] == "items" and it[2][0] == "dict":
                it = ("tuple", tuple(("tuple", (k, v)) for k, v in it[2][1]))
            if it[0] in ("tuple", "list") and len(it[1]) <= MAX_UNROLL:
                items = []
                for item in it[1]:
                    env2 = dict(env)
                    self.bind(g.target, item, env2)
                    if isinstance(e, ast.DictComp):
                        items.append((self.ev(e.key, env2, d + 1), self.ev(e.value, env2, d + 1)))
                    else:
                        items.append(self.ev(e.elt, env2, d + 1))
                return ("dict", tuple(items)) if isinstance(e, ast.DictComp) else ("tuple", tuple(items))
            return ("comp", ast.unparse(e)[:60])
        if isinstance(e, (ast.ListComp, ast.GeneratorExp, ast.SetComp, ast.DictComp)):
            return ("comp", ast.unparse(e)[:60])
        if isinstance(e, ast.Call):
            return self.call(e, env, d)
        return ("?", ast.unparse(e)[:60])

    # -------------------------------------------------------------- calls --
    def call(self, e, env, d):
        f = e.func
        # a list handed to a call, or the receiver of a method call, may be mutated: it is no longer a constant sequence
        for a in list(e.args) + ([f.value] if isinstance(f, ast.Attribute) else []):
            if isinstance(a, ast.Name) and isinstance(env.get(a.id), tuple) and env[a.id][:1] == ("list",):
                env[a.id] = ("mutable", env[a.id])
        args = [self.ev(a, env, d + 1) for a in e.args if not isinstance(a, ast.Starred)]
        kw = {k.arg: self.ev(k.value, env, d + 1) for k in e.keywords if k.arg}
        for k in e.keywords:
            if k.arg is None:                   # **mapping: a constant-key dict (display, dict(...), comprehension over a constant sequence)
                m = self.ev(k.value, env, d + 1)
                if m[0] == "dict" and all(kk[0] == "const" and isinstance(kk[1], str) for kk, _v in m[1]):
                    kw.update({kk[1]: v for kk, v in m[1]})
                else:
                    self.incomplete.append(f"line {e.lineno}: **{ast.unparse(k.value)[:30]} not resolved")
                    kw["**"] = m
        name = dotted(f)
        if isinstance(f, ast.Name):
            if f.id == "setattr" and len(e.args) == 3:
                self.store(args[0], args[1], args[2], e, env)
                return ("const", None)
            if f.id in ("str", "int", "float", "bool"):
                return (f.id, args[0]) if len(args) == 1 else ("const", {"str": "", "int": 0, "float": 0.0, "bool": False}[f.id])
            if f.id == "dict" and not e.args and all(k.arg for k in e.keywords):
                return ("dict", tuple((("const", k), v) for k, v in kw.items()))
            if f.id in ("len", "isinstance", "hasattr", "callable", "any", "all", "sorted", "list", "tuple", "dict", "set", "next", "iter",
                        "getattr", "enumerate", "zip", "range", "min", "max", "print", "repr", "type"):
                if f.id in ("list", "tuple") and len(args) == 1 and args[0][0] in ("tuple", "list"):
                    return ("tuple", args[0][1])
                if f.id == "getattr" and len(args) >= 2 and args[1][0] == "const" and isinstance(args[1][1], str):
                    return ("text", args[0]) if args[1][1] == "text" else ("attr", args[0], args[1][1])
                return ("builtin", f.id, tuple(args))
            target = env.get(f.id)
            if isinstance(target, tuple) and target[0] == "closure":
                return self.inline(target[1], target[2], args, kw, e, method=False)
            if isinstance(target, tuple) and target[0] in ("name", "const"):
                # a callable taken from a table (converter column): int / str / None
                if target == ("name", "int") or target == ("name", "str") or target == ("name", "float"):
                    return (target[1], args[0]) if args else ("?", "conv")
                if target[0] == "const":
                    return ("?", "call of a constant")
            if f.id in self.mod.functions and f.id not in env:
                return self.inline(self.mod.functions[f.id], {}, args, kw, e, method=False)
            if f.id in self.mod.classes or f.id[:1].isupper():
                return self.construct(f.id, kw, e, env)
        if name in ("re.compile",) and args:
            return ("pattern", args[0])
        if name.startswith("re.") and name.split(".")[1] in ("search", "match", "fullmatch", "sub", "findall") and len(args) >= 2:
            return ("re." + name.split(".")[1], ("pattern", args[0]), tuple(args[1:]))
        if isinstance(f, ast.Attribute):
            if isinstance(f.value, ast.Name) and f.value.id == "self" and self.cls is not None and f"{self.cls}.{f.attr}" in self.mod.functions:
                fn = self.mod.functions[f"{self.cls}.{f.attr}"]
                decos = [ast.unparse(x) for x in fn.decorator_list]
                return self.inline(fn, {"self": env.get("self", ("param", "self"))}, args, kw, e, method="staticmethod" not in decos)
            recv = self.ev(f.value, env, d + 1)
            a = f.attr
            if a in ("find", "findtext") and args:
                # the prefix map (second positional / `namespaces=`) belongs to the selector: `dc:title` names whatever it binds `dc` to
                nsmap = args[1] if len(args) > 1 else kw.get("namespaces")
                node = ("find", recv, args[0]) if nsmap is None else ("find", recv, args[0], nsmap)
                return node if a == "find" else ("or-none", ("text", node))
            if a in ("strip", "lstrip", "rstrip", "lower", "upper", "title", "casefold") and not args:
                return (a, recv)
            if a == "get" and args:
                dflt = args[1] if len(args) > 1 else ("const", None)
                if recv[0] == "dict" and args[0][0] == "const":
                    for kk, vv in recv[1]:
                        if kk == args[0]:
                            return vv
                    return dflt
                return ("get", recv, args[0], dflt)
            if a == "group":
                return ("group", recv, tuple(args))
            if a in ("search", "match", "fullmatch", "finditer", "findall"):
                return ("re." + a, recv, tuple(args))
            if a == "sub":
                return ("re.sub", recv, tuple(args))
            if a in ("replace", "rstrip", "lstrip", "split", "join", "format", "encode", "decode", "isoformat", "items", "keys", "values",
                     "startswith", "endswith", "append", "extend", "add", "update", "debug", "info", "warning", "error", "exception"):
                return ("mcall", a, recv, tuple(args))
            return ("mcall", a, recv, tuple(args))
        return ("?", ast.unparse(e)[:60])

    def construct(self, cls, kw, node, env):
        self._new += 1
        obj = ("new", cls, self._new)
        for k, v in kw.items():
            self.store(obj, ("const", k) if k != "**" else ("?", "**kwargs"), v, node, env)
        return obj

    def inline(self, fn, closure_env, args, kw, node, method):
        nm = getattr(fn, "name", "<lambda>")
        loops = any(isinstance(n, (ast.For, ast.While, ast.ListComp, ast.GeneratorExp)) for n in ast.walk(fn))
        recursive = any(isinstance(n, ast.Call) and dotted(n.func).split(".")[-1] == nm for n in ast.walk(fn))
        if len(self.stack) >= MAX_DEPTH or fn in self.stack or loops or recursive:
            # not executed in place: an opaque function of its arguments (its own stores are judged with it as entry point)
            return ("call", nm, tuple(args))
        params = [a.arg for a in fn.args.posonlyargs + fn.args.args]
        env = dict(closure_env)
        if method and params and params[0] in ("self", "cls"):
            env.setdefault(params[0], ("param", params[0]))
            params = params[1:]
        defaults = list(fn.args.defaults)
        dmap = dict(zip([a.arg for a in (fn.args.posonlyargs + fn.args.args)][-len(defaults):] if defaults else [], defaults))
        for i, p in enumerate(params):
            if i < len(args):
                env[p] = args[i]
            elif p in kw:
                env[p] = kw[p]
            elif p in dmap:
                env[p] = self.ev(dmap[p], {}, 0)
            else:
                env[p] = ("param", p)
        for a in fn.args.kwonlyargs:
            env[a.arg] = kw.get(a.arg, ("param", a.arg))
        if isinstance(fn, ast.Lambda):
            self.stack.append(fn)
            try:
                return self.ev(fn.body, env, 0)
            finally:
                self.stack.pop()
        self.stack.append(fn)
        saved_guards = self.guards
        try:
            rets = []
            self.block(fn.body, env, rets)
            if not rets:
                return ("const", None)
            return alt(rets)
        finally:
            self.guards = saved_guards
            self.stack.pop()

    # ------------------------------------------------------------- stores --
    def store(self, target, field, value, node, env):
        fn = self.stack[-1] if self.stack else self.root
        self.stores.append(Store(target, field, value, list(self.guards), node, fn, None))

    # ---------------------------------------------------------- truthiness --
    def truth_of(self, v):
        if v[0] == "const":
            return bool(v[1])
        if v[0] in ("new", "pattern", "closure"):
            return True
        if v[0] in ("tuple", "list"):
            return len(v[1]) > 0
        if v[0] == "dict":
            return len(v[1]) > 0
        return None

    def static_truth(self, test, env):
        if isinstance(test, ast.UnaryOp) and isinstance(test.op, ast.Not):
            t = self.static_truth(test.operand, env)
            return None if t is None else not t
        if isinstance(test, ast.BoolOp):
            ts = [self.static_truth(v, env) for v in test.values]
            if isinstance(test.op, ast.And):
                if any(t is False for t in ts):
                    return False
                return True if all(t is True for t in ts) else None
            if any(t is True for t in ts):
                return True
            return False if all(t is False for t in ts) else None
        if isinstance(test, ast.Compare) and len(test.ops) == 1:
            a, b = self.ev(test.left, dict(env)), self.ev(test.comparators[0], dict(env))
            op = test.ops[0]
            if isinstance(op, (ast.Is, ast.IsNot)) and b == ("const", None):
                if a[0] == "const":
                    r = a[1] is None
                elif a[0] in ("new", "pattern", "tuple", "dict", "closure") or a in (("name", "int"), ("name", "str"), ("name", "float")):
                    r = False
                else:
                    return None
                return r if isinstance(op, ast.Is) else not r
            if isinstance(op, (ast.Eq, ast.NotEq)) and a[0] == "const" and b[0] == "const":
                return (a[1] == b[1]) if isinstance(op, ast.Eq) else (a[1] != b[1])
            return None
        if isinstance(test, (ast.Name, ast.Constant)):
            return self.truth_of(self.ev(test, dict(env)))
        return None

    # ---------------------------------------------------------- statements --
    guards: list = []

    def run(self):
        env = {}
        a = self.root.args
        for p in a.posonlyargs + a.args + a.kwonlyargs:
            env[p.arg] = ("param", p.arg)
        self.guards = []
        self.stack = [self.root]
        try:
            self.block(self.root.body, env, [])
        finally:
            self.stack = []

    def join(self, envs):
        envs = [e for e in envs if e is not None]
        if not envs:
            return None
        out = {}
        for k in set().union(*[set(e) for e in envs]):
            vals = [e[k] for e in envs if k in e]
            if len(vals) < len(envs):
                vals.append(("unbound",))
            out[k] = alt(vals)
        return out

    def bind(self, tgt, v, env):
        if isinstance(tgt, ast.Name):
            env[tgt.id] = v
        elif isinstance(tgt, (ast.Tuple, ast.List)):
            for i, t in enumerate(tgt.elts):
                if v[0] == "tuple" and len(v[1]) == len(tgt.elts):
                    self.bind(t, v[1][i], env)
                else:
                    self.bind(t, ("item", v, i), env)
        elif isinstance(tgt, ast.Attribute):
            self.store(self.ev(tgt.value, env), ("const", tgt.attr), v, tgt, env)
        elif isinstance(tgt, ast.Starred):
            self.bind(tgt.value, ("?", "starred"), env)

    def block(self, stmts, env, rets):
        """Executes stmts in env (mutated).  Returns 'fall' | 'return' | 'continue' | 'break' | 'raise' for the path(s): when the
        paths disagree the environment is the join of the falling ones and 'fall' is returned if any falls.  A guard whose other
        branch left the block (`if c: continue`) stays in force for the rest of the block."""
        g_entry = self.guards
        try:
            for s in stmts:
                r = self.stmt(s, env, rets)
                if r != "fall":
                    return r
            return "fall"
        finally:
            self.guards = g_entry

    def stmt(self, s, env, rets):
        if isinstance(s, ast.Assign):
            v = self.ev(s.value, env)
            for t in s.targets:
                self.bind(t, v, env)
            return "fall"
        if isinstance(s, ast.AnnAssign):
            if s.value is not None:
                self.bind(s.target, self.ev(s.value, env), env)
            return "fall"
        if isinstance(s, ast.AugAssign):
            if isinstance(s.target, ast.Name):
                env[s.target.id] = ("aug", env.get(s.target.id, ("unbound",)), self.ev(s.value, env))
            return "fall"
        if isinstance(s, ast.Expr):
            self.ev(s.value, env)
            return "fall"
        if isinstance(s, ast.Return):
            rets.append(self.ev(s.value, env) if s.value is not None else ("const", None))
            return "return"
        if isinstance(s, ast.Raise):
            return "raise"
        if isinstance(s, ast.Continue):
            return "continue"
        if isinstance(s, ast.Break):
            return "break"
        if isinstance(s, (ast.Pass, ast.Import, ast.ImportFrom, ast.Global, ast.Nonlocal, ast.Assert, ast.Delete)):
            return "fall"
        if isinstance(s, (ast.FunctionDef, ast.AsyncFunctionDef)):
            env[s.name] = ("closure", s, env)          # shares the enclosing environment (late binding, like Python)
            return "fall"
        if isinstance(s, ast.ClassDef):
            return "fall"
        if isinstance(s, ast.If):
            t = self.static_truth(s.test, env)
            if t is not None:
                self.ev(s.test, env)                  # walrus side effects
                return self.block(s.body if t else s.orelse, env, rets)
            self.ev(s.test, env)                      # binds walrus targets
            snap = dict(env)
            e1, e2 = dict(env), dict(env)
            g0 = self.guards
            self.guards = g0 + [(s.test, True, snap)]
            r1 = self.block(s.body, e1, rets)
            self.guards = g0 + [(s.test, False, snap)]
            r2 = self.block(s.orelse, e2, rets)
            self.guards = g0
            r = self.merge(env, [(r1, e1), (r2, e2)])
            if r == "fall" and (r1 == "fall") != (r2 == "fall"):
                self.guards = g0 + [(s.test, r1 == "fall", snap)]     # only one branch continues: its guard persists
            return r
        if isinstance(s, (ast.For, ast.AsyncFor)):
            it = self.ev(s.iter, env)
            if it[0] == "builtin" and it[1] in ("enumerate",) and it[2] and it[2][0][0] == "tuple":
                start = it[2][1][1] if len(it[2]) > 1 and it[2][1][0] == "const" else 0
                it = ("tuple", tuple(("tuple", (("const", start + i), x)) for i, x in enumerate(it[2][0][1])))
            if it[0] == "mcall" and it[1] == "items" and it[2][0] == "dict":
                it = ("tuple", tuple(("tuple", (k, v)) for k, v in it[2][1]))
            if it[0] == "dict":
                it = ("tuple", tuple(k for k, _v in it[1]))
            if it[0] == "list":
                it = ("tuple", it[1])
            if it[0] == "tuple" and len(it[1]) <= MAX_UNROLL:
                for item in it[1]:
                    self.bind(s.target, item, env)
                    r = self.block(s.body, env, rets)
                    if r == "break":
                        self.incomplete.append(f"line {s.lineno}: break inside an unrolled loop")
                        break
                    if r in ("return", "raise"):
                        return r
                if s.orelse:
                    return self.block(s.orelse, env, rets)
                return "fall"
            snap = dict(env)
            e1 = dict(env)
            self.bind(s.target, ("elem", it), e1)
            g0 = self.guards
            self.guards = g0 + [("loop", s.lineno, snap)]
            r1 = self.block(s.body, e1, rets)
            self.guards = g0
            r = self.merge(env, [("fall" if r1 in ("fall", "continue", "break") else r1, e1), ("fall", dict(snap))])
            if s.orelse:
                return self.block(s.orelse, env, rets)
            return r
        if isinstance(s, ast.While):
            snap = dict(env)
            e1 = dict(env)
            g0 = self.guards
            self.guards = g0 + [("loop", s.lineno, snap)]
            r1 = self.block(s.body, e1, rets)
            self.guards = g0
            return self.merge(env, [("fall" if r1 in ("fall", "continue", "break") else r1, e1), ("fall", dict(snap))])
        if isinstance(s, ast.Try):
            snap = dict(env)
            e1 = dict(env)
            r1 = self.block(s.body, e1, rets)
            outs = [(r1, e1)]
            if r1 == "fall" and s.orelse:
                outs = [(self.block(s.orelse, e1, rets), e1)]
            for h in s.handlers:
                eh = self.join([dict(snap), dict(e1)]) or dict(snap)
                if h.name:
                    eh[h.name] = ("exc",)
                g0 = self.guards
                self.guards = g0 + [("except", h.lineno, snap)]
                rh = self.block(h.body, eh, rets)
                self.guards = g0
                outs.append((rh, eh))
            r = self.merge(env, outs)
            if s.finalbody:
                rf = self.block(s.finalbody, env, rets)
                if rf != "fall":
                    return rf
            return r
        if isinstance(s, (ast.With, ast.AsyncWith)):
            for it in s.items:
                v = self.ev(it.context_expr, env)
                if it.optional_vars is not None:
                    self.bind(it.optional_vars, v, env)
            return self.block(s.body, env, rets)
        if isinstance(s, ast.Match):
            self.incomplete.append(f"line {s.lineno}: match statement")
            return "fall"
        self.incomplete.append(f"line {getattr(s, 'lineno', '?')}: {type(s).__name__}")
        return "fall"

    def merge(self, env, outs):
        """Joins branch results into env; returns the combined status."""
        falls = [e for r, e in outs if r == "fall"]
        if falls:
            j = self.join(falls)
            env.clear()
            env.update(j)
            return "fall"
        kinds = {r for r, _e in outs}
        if len(kinds) == 1:
            return kinds.pop()
        if kinds <= {"continue", "break"}:
            return "continue"
        if "continue" in kinds or "break" in kinds:
            return "continue"         # the iteration ends on every path
        return "return"


# ------------------------------------------------------------------ judging --
def strip_wrappers(term, allowed):
    """(core, transformed?) after removing neutral wrappers and the ones the format allows."""
    changed = False
    while isinstance(term, tuple) and term and term[0] in NEUTRAL + ("strip", "lower", "upper", "title", "lstrip", "rstrip", "casefold", "int", "float"):
        if term[0] not in NEUTRAL and term[0] not in allowed:
            changed = True
        term = term[1]
    return term, changed


def alternatives(term):
    return list(term[1]) if isinstance(term, tuple) and term and term[0] == "alt" else [term]


def is_target(store, metacls, new_classes):
    t = store.target
    if t[0] == "new":
        return t[1] == metacls
    if t[0] == "attr":
        return "metadata" in t[2].lower()
    if t[0] in ("param", "name"):
        return "meta" in t[1].lower()
    if t[0] == "alt":
        return any(x[0] == "new" and x[1] == metacls for x in t[1])
    return False


def local_of(tag):
    return tag.split("}")[-1].split(":")[-1]


# namespaces the spec table's prefixes stand for (file-format specifications)
SPEC_NS = {"dc": DC[1:-1], "cp": CP[1:-1], "meta": "urn:oasis:names:tc:opendocument:xmlns:meta:1.0"}


def clark(tag, nsmap=None):
    """Clark name `{uri}local` selected by a ONE-STEP ElementPath selector, or None when the selector is anything else (a path with
    steps / predicates, a wildcard namespace `{*}local`, a wildcard name, a prefix the map does not bind).  `nsmap`: None = the
    conventional binding of the prefix (SPEC_NS), else {prefix: uri}."""
    m = _re.fullmatch(r"(?:\{([^{}*]+)\})?((?:[\w\-][\w.\-]*:)?[\w\-][\w.\-]*)", tag) if isinstance(tag, str) else None
    if m is None:
        return None
    if m.group(1) is not None:
        return tag if ":" not in m.group(2) else None
    if ":" in tag:
        pre, local = tag.split(":", 1)
        uri = (SPEC_NS if nsmap is None else nsmap).get(pre)
        return "{%s}%s" % (uri, local) if uri and local and ":" not in local else None
    if nsmap is not None and nsmap.get(""):
        return "{%s}%s" % (nsmap[""], tag)          # ElementPath: the "" entry of the map is the default namespace of unprefixed names
    return tag


def selectors_of(term):
    out = []

    def walk(t):
        if isinstance(t, tuple):
            if t[:1] == ("find",) and len(t) >= 3 and t[2][:1] == ("const",):
                if f"find({t[2][1]!r})" not in out:
                    out.append(f"find({t[2][1]!r})")
                return                               # the selector of the node itself, not those of its ancestors
            for x in t:
                walk(x)
    walk(term)
    return out[:4]


def const_nsmap(term):
    """{prefix: uri} of a resolved prefix map term; None = not resolved (the conventional binding is assumed, as before)."""
    if isinstance(term, tuple) and term[:1] == ("dict",) and all(k[0] == "const" and isinstance(k[1], str) and v[0] == "const" and isinstance(v[1], str)
                                                                  for k, v in term[1]):
        return {k[1]: v[1] for k, v in term[1]}
    return None


def same_node(selector, nsmap_term, tag):
    """Does find(<selector>, <map>) select the property's node <tag>, whatever else the parent contains?"""
    want = clark(tag)
    got = clark(selector, const_nsmap(nsmap_term) if nsmap_term is not None else None)
    return want is not None and got == want


def node_text_of(core, kind, tag):
    """Does the provenance `core` denote the text / value of the property's node?  -> True | False | None (not understood)."""
    if kind == "etree":
        if core[0] != "text":
            return None if mentions(core, lambda t: t[:1] in (("?",), ("param",), ("call",), ("item",), ("elem",))) else False
        inner = core[1]
        while isinstance(inner, tuple) and inner and inner[0] in NEUTRAL:     # `node if ... else None`: an absent node stays absent
            inner = inner[1]
        finds = []
        for f in alternatives(inner):
            while isinstance(f, tuple) and f and f[0] in NEUTRAL:
                f = f[1]
            if f not in (("const", None), ("unbound",)):
                finds.append(f)
        if not finds:
            return None
        ok = True
        for f in finds:
            if f[0] != "find" or f[2][0] != "const" or not isinstance(f[2][1], str):
                return None if f[0] in ("param", "?", "name", "item", "elem", "call") or (f[0] == "find" and f[2][0] != "const") else False
            # the selector has to name the node: same local name AND same namespace.  `{*}title` / `.//dc:title` / a prefix bound to
            # another URI select other nodes too (a vendor <series:title> before <dc:title>) -> not the text of the property's node
            ok = ok and (f[2][1] == tag and len(f) == 3 or same_node(f[2][1], f[3] if len(f) > 3 else None, tag))
        return ok
    if kind == "props":
        if core[0] == "attr" and core[2] == tag and core[1][0] == "attr" and core[1][2] == "properties":
            return True
        return None if mentions(core, lambda t: t[:1] in (("?",), ("call",), ("item",))) else False
    return None


def judge_etree(store, kind, tag, allowed, other_tags, interp):
    """-> ('ok'|'bad'|'unresolved', why)"""
    verdicts = []
    for v in alternatives(store.value):
        if v in (("const", None), ("const", ""), ("unbound",)):
            continue
        core, changed = strip_wrappers(v, allowed)
        r = node_text_of(core, kind, tag)
        if r is None:
            verdicts.append(("unresolved", f"value {short_term(v)} not understood"))
        elif r is False:
            sels = selectors_of(core)
            verdicts.append(("bad", f"value is {short_term(v)}" + (f" selected by {', '.join(sels)}" if sels else "") + f", not the text of <{tag}> alone"))
        elif changed:
            verdicts.append(("bad", f"the text of <{tag}> is transformed: {short_term(v)}"))
        else:
            verdicts.append(("ok", ""))
    if not verdicts:
        return "unresolved", "only empty values stored"
    for g in store.guards:
        if g[0] in ("loop", "except"):
            continue
        test, _pos, snap = g
        none_tested = {id(c.left) for c in ast.walk(test) if isinstance(c, ast.Compare) and len(c.ops) == 1 and isinstance(c.ops[0], (ast.Is, ast.IsNot))
                       and isinstance(c.comparators[0], ast.Constant) and c.comparators[0].value is None}
        for nm in [n for n in ast.walk(test) if isinstance(n, ast.Name)]:
            t = interp.ev(nm, dict(snap))
            if id(nm) in none_tested and t[:1] == ("param",):
                continue                              # presence test of a container handed in by the caller
            if mentions(t, lambda x: x[:1] == ("const",) and isinstance(x[1], str) and x[1] in other_tags):
                verdicts.append(("bad", f"stored under a test about another property ({ast.unparse(test)[:50]})"))
            elif (t[:1] == ("param",) and nm.id not in ("self", "cls")) or mentions(t, lambda x: x[:1] == ("?",)):
                verdicts.append(("unresolved", f"guard {ast.unparse(test)[:50]} not understood"))
    for k in ("bad", "unresolved"):
        for v in verdicts:
            if v[0] == k:
                return v
    return "ok", ""


def short_term(t, n=0):
    if not isinstance(t, tuple):
        return repr(t)[:30]
    if n > 3:
        return "..."
    if t[0] == "closure":
        return "<function>"
    return "(" + " ".join(short_term(x, n + 1) if isinstance(x, tuple) else repr(x)[:40] for x in t[:4]) + ")"


def key_guards(store, interp):
    """[(key term, constant, polarity)] for guards of the form <expr> == <const> (either side, `in (consts)`), plus the
    entry guards of table-driven stores."""
    out = []
    for g in store.guards:
        if g[0] == "key-eq":
            out.append((g[1], g[2], True))
            continue
        if g[0] in ("loop", "except"):
            continue
        test, pos, snap = g
        for c in ast.walk(test):
            if isinstance(c, ast.Compare) and len(c.ops) == 1 and isinstance(c.ops[0], (ast.Eq, ast.NotEq)):
                a, b = interp.ev(c.left, dict(snap)), interp.ev(c.comparators[0], dict(snap))
                for x, y in ((a, b), (b, a)):
                    if y[0] == "const" and isinstance(y[1], str):
                        eq = isinstance(c.ops[0], ast.Eq)
                        # polarity of the comparison inside `test` is only certain when it is the whole test or a conjunct
                        conj = c is test or (isinstance(test, ast.BoolOp) and isinstance(test.op, ast.And) and c in test.values)
                        if conj or not pos:
                            out.append((x, y[1], (eq == pos) if conj else None))
    return out


def expand_table_stores(stores):
    """A store whose field name is a lookup in a constant dict becomes one store per entry, guarded by key == entry key."""
    out = []
    for s in stores:
        names = alternatives(s.field)
        done = False
        for f in names:
            if f[0] == "get" and f[1][0] == "dict":
                for k, v in f[1][1]:
                    if k[0] == "const":
                        out.append(Store(s.target, v, s.value, s.guards + [("key-eq", f[2], k[1])], s.node, s.fn, None))
                done = True
            elif f[0] == "const" and f[1] is None:
                done = True
            else:
                out.append(Store(s.target, f, s.value, s.guards, s.node, s.fn, None))
                done = True
        if not done:
            out.append(s)
    return out


def judge_html_meta(store, want, interp):
    vals = [v for v in alternatives(store.value) if v not in (("const", None), ("const", ""), ("unbound",))]
    if not vals:
        return "unresolved", "only empty values stored"
    for v in vals:
        core, changed = strip_wrappers(v, ())
        is_content = core[0] == "get" and core[2] == ("const", "content")
        if not is_content:
            if mentions(core, lambda t: t[:1] in (("?",), ("param",), ("call",))):
                return "unresolved", f"value {short_term(v)} not understood"
            return "bad", f"value {short_term(v)} is not the content attribute"
        if changed:
            return "bad", f"the content attribute is transformed: {short_term(v)}"
    kgs = [kg for kg in key_guards(store, interp) if mentions(kg[0], lambda t: t == ("const", "name"))]
    if any(k == want and pol is True for _t, k, pol in kgs):
        if any(k != want and pol is True for _t, k, pol in kgs):
            return "bad", "stored under tests selecting two different meta names"
        return "ok", ""
    sel = [k for _t, k, pol in kgs if pol is True]
    if sel:
        return "bad", f"stored for <meta name={sel[0]!r}>, not {want!r}"
    return "unresolved", "no test selecting the meta name found on the path to the store"


def judge_html_title(store, interp):
    vals = [v for v in alternatives(store.value) if v not in (("const", None), ("const", ""), ("unbound",))]
    for v in vals:
        core, _changed = strip_wrappers(v, ("strip",))
        if mentions(core, lambda t: t == ("const", "title")) and not mentions(core, lambda t: t[:1] == ("const",) and t[1] in ("description", "keywords", "author", "h1")):
            continue
        if mentions(core, lambda t: t[:1] in (("?",), ("param",))):
            return "unresolved", f"value {short_term(v)} not understood"
        return "bad", f"value {short_term(v)} is not the text of the <title> node"
    return ("ok", "") if vals else ("unresolved", "only empty values stored")


def judge_rtf(store, kw, other_kws):
    import re as _re
    pats = []
    mentions(store.value, lambda t: pats.append(t[1]) or False if t[:1] == ("const",) and isinstance(t[1], str) and "\\\\" in t[1] else False)
    words = set()
    for p in pats:
        words |= set(_re.findall(r"\\\\([a-z]+)", p))
    words -= {"s", "d", "w"}
    if kw in words and not (words & other_kws):
        return "ok", ""
    if words & other_kws and kw not in words:
        return "bad", f"read from the \\{sorted(words & other_kws)[0]} group instead of \\{kw}"
    return "unresolved", f"no pattern for the \\{kw} group found in the value ({short_term(store.value)})"


def analyse_module(mod):
    """All stores of the module, each entry point analysed separately: {id(store node): [Store, ...]}."""
    by_node = {}
    incomplete = []
    callers = set()
    for q, fn in mod.functions.items():
        for n in ast.walk(fn):
            if isinstance(n, ast.Call):
                nm = dotted(n.func).split(".")[-1]
                if nm and nm != fn.name:
                    callers.add(nm)
    interps = []
    for q, fn in mod.functions.items():
        if "<locals>" in q or isinstance(fn, ast.Lambda):
            continue
        it = Interp(mod, q, fn)
        try:
            it.run()
        except RecursionError:
            incomplete.append(f"{q}: recursion limit")
            continue
        it.called_elsewhere = fn.name in callers
        interps.append(it)
        for s in expand_table_stores(it.stores):
            s.interp = it
            by_node.setdefault(id(s.node), []).append(s)
        incomplete.extend(f"{q}: {x}" for x in it.incomplete)
    return by_node, incomplete


def metadata_readers(repo, tier):
    obls, fns = [], []
    for reader, (rel, metacls, kind, props) in READERS.items():
        try:
            mod = loader.module(rel, repo)
            by_node, incomplete = analyse_module(mod)
            err = None
        except Exception as e:  # noqa -- a shape the interpreter does not handle must never be an engine error
            by_node, incomplete, err = {}, [], f"{type(e).__name__}: {e}"
        for prop, (field, tag, allowed) in props.items():
            oid = f"C04/{short(rel)}::metadata/metadata-copied#{reader}-{prop}"
            hint = {"kind": "metadata", "reader": reader, "property": prop, "field": field}
            if err is not None:
                o = ground_obligation(oid, False, f"{rel}: interpreter gave up: {err}", rel, definite=False)
            else:
                try:
                    ok, why = _judge_property(by_node, kind, metacls, prop, field, tag, allowed, props)
                except Exception as e:  # noqa
                    ok, why = False, f"judgement gave up: {type(e).__name__}: {e}"
                o = ground_obligation(oid, ok, f"{rel}: {why}", rel, definite=False)
                if not ok:
                    hint = dict(hint, strings=_transform_strings(by_node, metacls, field))
            o["replay_hint"] = hint
            obls.append(o)
        if err is None:
            fns.append({"function": f"{rel}::<metadata stores of {metacls}>", "lines": [1, 1], "file_sha256": mod.sha256, "segment_sha256": mod.sha256,
                        "obligations": len(props)})
    return {"obligations": obls, "functions": fns}


def _transform_strings(by_node, metacls, field):
    """String constants that occur as arguments of method calls on the way to the field (rstrip("Z"), replace("a", "b") ...):
    the replayer builds property values around them."""
    out = []

    def walk(t):
        if isinstance(t, tuple):
            if t[:1] == ("mcall",) and len(t) >= 4:
                for a in t[3]:
                    if isinstance(a, tuple) and a[:1] == ("const",) and isinstance(a[1], str) and a[1] and a[1] not in out:
                        out.append(a[1])
            for x in t:
                if isinstance(x, tuple):
                    walk(x)
    for contexts in by_node.values():
        for s in contexts:
            if is_target(s, metacls, None) and any(f == ("const", field) for f in alternatives(s.field)):
                walk(s.value)
    return out[:6]


def _judge_property(by_node, kind, metacls, prop, field, tag, allowed, props):
    other_tags = {t for p, (_f, t, _a) in props.items() if p != prop}
    ok_nodes, problems = 0, []
    for _nid, contexts in by_node.items():
        relevant = []
        for s in contexts:
            if not is_target(s, metacls, None):
                continue
            names = alternatives(s.field)
            if any(f == ("const", field) for f in names):
                relevant.append((s, len(names) == 1))
            elif any(f[0] != "const" for f in names):
                relevant.append((s, None))          # field name not resolved in this context
        if not relevant:
            continue
        verdicts = []
        for s, exact in relevant:
            if exact is None:
                verdicts.append(("unresolved", "field name not resolved", s))
                continue
            if kind in ("etree", "props"):
                v = judge_etree(s, kind, tag, allowed, other_tags, s.interp)
            elif kind == "html":
                v = judge_html_title(s, s.interp) if tag.startswith("node:") else judge_html_meta(s, tag.split(":")[1], s.interp)
            else:
                v = judge_rtf(s, tag.lstrip("\\"), {t.lstrip("\\") for t in other_tags})
            verdicts.append((v[0], v[1], s))
        resolved = [v for v in verdicts if v[0] != "unresolved"]
        if not resolved:
            # a store that may write this field but could not be judged in any context
            if any(x[1] for x in relevant if x[1] is not None) or all(x[1] is None for x in relevant):
                line = getattr(relevant[0][0].node, "lineno", "?")
                if any(x[1] is not None for x in relevant):
                    problems.append(f"line {line}: {verdicts[0][1]}")
                # field name unresolved everywhere: it might write any field -> cannot be ignored
                elif all(not s.interp.called_elsewhere or True for s, _e in relevant):
                    problems.append(f"line {line}: store with an unresolved field name")
            continue
        bad = [v for v in resolved if v[0] == "bad"]
        if bad:
            problems.append(f"line {getattr(bad[0][2].node, 'lineno', '?')}: metadata.{field}: {bad[0][1]}")
        else:
            ok_nodes += 1
    if problems:
        return False, "; ".join(problems[:3])
    if ok_nodes == 0:
        return False, f"no store into the {field} field of {metacls} found: the {prop} of the document is never reported"
    return True, f"{metacls}.{field} <- {tag}" + (f" modulo {list(allowed)}" if allowed else " (exact copy)") + f"; {ok_nodes} store site(s)"
