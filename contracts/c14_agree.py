"""C14: the three copies of `_get_image_pixel_dimensions` (docx / pptx / xlsx) agree on EVERY input.

Relational proof by a step-wise bisimulation over the real ASTs (no restated bodies):
  prologue  the code before the marker loop, with the loop replaced by `return ("loop", <live-in state>)`, gives equivalent
            results in both copies (same returned size, or both enter the loop with the same state);
  step      one iteration of the marker loop from the same state gives the same returned size, the same next state, or one
            copy leaves the loop while the other reaches a state in which its own loop test is false;
  epilogue  the code after the loop returns the same value.
Live-in state = the names read by the loop before they are written, matched by position of first use (so the copies may
name their locals differently).  Identical copies (after renaming locals) are discharged syntactically.
"""
from __future__ import annotations

import ast
import copy

import z3

from pyvc import loader, ops, solve
from pyvc.flow import ground_obligation
from pyvc.state import Frame, State
from pyvc.symex import Outcome
from pyvc.values import NONE, VBool, VInt, VNoneT, VStr, VTuple, VExc

from contracts import c14_exec as X


def find_loop(fn):
    loops = [n for n in fn.body if isinstance(n, ast.While)]
    inner = [n for n in ast.walk(fn) if isinstance(n, ast.While)]
    return inner[0] if len(inner) == 1 else None


def path_to(fn, target):
    """list of (parent list, index) from fn.body down to the statement `target`."""
    def rec(stmts):
        for k, s in enumerate(stmts):
            if s is target:
                return [(stmts, k)]
            for fld in ("body", "orelse", "finalbody"):
                sub = getattr(s, fld, None)
                if isinstance(sub, list):
                    r = rec(sub)
                    if r is not None:
                        return [(stmts, k)] + r
        return None
    return rec(fn.body)


def live_in(loop):
    """Names read by the loop (test + body) before being written in it, in order of first use."""
    written, order = set(), []

    def visit_expr(e):
        for n in sorted([x for x in ast.walk(e) if isinstance(x, ast.Name)], key=lambda x: (x.lineno, x.col_offset)):
            if isinstance(n.ctx, ast.Load) and n.id not in written and n.id not in order:
                order.append(n.id)
    visit_expr(loop.test)

    def visit(stmts):
        for s in stmts:
            if isinstance(s, (ast.Assign, ast.AugAssign, ast.AnnAssign)):
                if isinstance(s, ast.AugAssign):
                    visit_expr(s.target) if not isinstance(s.target, ast.Name) else (order.append(s.target.id) if s.target.id not in written and s.target.id not in order else None)
                if s.value is not None:
                    visit_expr(s.value)
                for t in (s.targets if isinstance(s, ast.Assign) else [s.target]):
                    for n in ast.walk(t):
                        if isinstance(n, ast.Name):
                            written.add(n.id)
            elif isinstance(s, ast.If):
                visit_expr(s.test)
                w0 = set(written)
                visit(s.body)
                wa = set(written)
                written.clear(); written.update(w0)
                visit(s.orelse)
                wb = set(written)
                written.clear(); written.update(wa & wb)
            elif isinstance(s, (ast.Return, ast.Expr)):
                if s.value is not None:
                    visit_expr(s.value)
            elif isinstance(s, (ast.Break, ast.Continue, ast.Pass)):
                pass
            else:
                for n in ast.walk(s):
                    if isinstance(n, ast.Name) and isinstance(n.ctx, ast.Load) and n.id not in written and n.id not in order:
                        order.append(n.id)
    visit(loop.body)
    return order


def tag(name, *vals):
    return ast.Tuple(elts=[ast.Constant(value=name)] + list(vals), ctx=ast.Load())


def names(ns):
    return [ast.Name(id=n, ctx=ast.Load()) for n in ns]


def split_function(fn):
    """-> (pre, step, post, live names, params) as FunctionDefs built from copies of the real statements, or None."""
    loop = find_loop(fn)
    if loop is None or loop.orelse:
        return None
    chain = path_to(fn, loop)
    if chain is None:
        return None
    params = [a.arg for a in fn.args.args]
    # globals (module constants such as _JPEG_SOF_MARKERS) are not state
    loc = {n.id for n in ast.walk(fn) if isinstance(n, ast.Name) and isinstance(n.ctx, ast.Store)} | set(params)
    live = [n for n in live_in(loop) if n in loc]
    state = [n for n in live if n not in params]
    # loop-invariant locals: a name the loop never writes, bound exactly once (before the loop, at the top level of the function or of the
    # block that holds the loop) to an expression over the parameters alone (`size = len(data)`), is not STATE: its defining statement
    # is repeated in front of the step / test functions, so that the step proof knows e.g. that the bound is the length of the data
    written_in_loop = {n.id for n in ast.walk(loop) if isinstance(n, ast.Name) and isinstance(n.ctx, ast.Store)}
    remat = []
    enclosing = [lst0 for (lst0, _k0) in chain]
    for nme in list(state):
        if nme in written_in_loop:
            continue
        defs = [x for x in ast.walk(fn) if isinstance(x, (ast.Assign, ast.AnnAssign, ast.AugAssign, ast.For, ast.With, ast.NamedExpr))
                and any(isinstance(t, ast.Name) and isinstance(t.ctx, ast.Store) and t.id == nme for t in ast.walk(x))]
        if len(defs) != 1 or not isinstance(defs[0], ast.Assign) or len(defs[0].targets) != 1 or not isinstance(defs[0].targets[0], ast.Name):
            continue
        d = defs[0]
        if not any(any(s is d for s in lst0) for lst0 in enclosing) or (d.lineno, d.col_offset) >= (loop.lineno, loop.col_offset):
            continue
        reads = {x.id for x in ast.walk(d.value) if isinstance(x, ast.Name)}
        if not reads <= (set(params) | {"len", "int", "abs", "min", "max"}) or any(isinstance(x, (ast.Yield, ast.Await, ast.NamedExpr, ast.Lambda)) for x in ast.walk(d.value)):
            continue
        if any(isinstance(x, ast.Name) and isinstance(x.ctx, ast.Store) and x.id in params for x in ast.walk(fn)):
            continue        # a parameter is re-bound somewhere: its value at the loop may differ from the one at the definition
        remat.append(d)
        state.remove(nme)

    def mkfn(name, args, body):
        f = ast.FunctionDef(name=name, args=ast.arguments(posonlyargs=[], args=[ast.arg(arg=a) for a in args], kwonlyargs=[], kw_defaults=[], defaults=[]),
                            body=body, decorator_list=[], returns=None, type_comment=None)
        f.lineno, f.col_offset, f.end_lineno, f.end_col_offset = fn.lineno, fn.col_offset, fn.end_lineno, fn.end_col_offset
        ast.fix_missing_locations(f)
        return f

    # code that follows the loop: the statements after the loop at every enclosing level, innermost first
    post_body = []
    for (lst0, k0) in reversed(chain):
        post_body.extend(copy.deepcopy(lst0[k0 + 1:]))
    # pre: the real function with the loop replaced by `return ("loop", state...)` (what follows the loop in its own block is cut;
    # the continuation of the enclosing blocks stays, it is what runs when the loop is not reached)
    fpre2 = copy.deepcopy(fn)
    lp2 = find_loop(fpre2)
    ch2 = path_to(fpre2, lp2)
    lst2, k2 = ch2[-1]
    del lst2[k2 + 1:]
    lst2[k2] = ast.copy_location(ast.Return(value=tag("loop", *names(state))), lp2)
    pre = mkfn("__pre", params, fpre2.body)

    class T(ast.NodeTransformer):
        def visit_Return(self, n):
            return ast.copy_location(ast.Return(value=tag("ret", n.value if n.value is not None else ast.Constant(value=None))), n)

        def visit_Break(self, n):
            return ast.copy_location(ast.Return(value=tag("exit")), n)

        def visit_Continue(self, n):
            return ast.copy_location(ast.Return(value=tag("next", *names(state))), n)

        def visit_FunctionDef(self, n):
            return n
    body = [T().visit(copy.deepcopy(s)) for s in loop.body]
    step_body = [ast.If(test=copy.deepcopy(loop.test), body=body + [ast.Return(value=tag("next", *names(state)))],
                        orelse=[ast.Return(value=tag("exit"))])]
    step = mkfn("__step", params + state, [copy.deepcopy(d) for d in remat] + step_body)
    test = mkfn("__test", params + state, [copy.deepcopy(d) for d in remat] + [ast.Return(value=copy.deepcopy(loop.test))])
    post = mkfn("__post", params, post_body or [ast.Return(value=ast.Constant(value=None))])
    return pre, step, post, test, state, params


def run(ex_cls, mod, reg, uni, fnode, env):
    ex = ex_cls(mod, reg, uni)
    ex.contract = None
    ex.oid_prefix = "agree"
    st = State()
    st.frames = [Frame(dict(env), None, fnode)]
    ex.cur_fn_stack.append(fnode)
    ex.sinks.append([])
    try:
        outs = ex.exec_block(fnode.body, st)
    finally:
        sink = ex.sinks.pop()
        ex.cur_fn_stack.pop()
    res = []
    for o in outs:
        if o.kind == "return":
            res.append((o.st.pc, o.val))
        elif o.kind == "fall":
            res.append((o.st.pc, NONE))
        elif o.kind == "raise":
            res.append((o.st.pc, ("raise", o.val)))
        else:
            raise ops.Unsupported(f"{o.kind} escaping")
    for (es, exc) in sink:
        res.append((es.pc, ("raise", exc)))
    return res, ex


def same_value(a, b):
    """z3 Bool: two result values are equal (ints / None / tuples / tags)."""
    if isinstance(a, tuple) or isinstance(b, tuple):       # exceptions
        if isinstance(a, tuple) and isinstance(b, tuple):
            return a[1].tidx == b[1].tidx
        return z3.BoolVal(False)
    if isinstance(a, VNoneT) or isinstance(b, VNoneT):
        return z3.BoolVal(isinstance(a, VNoneT) and isinstance(b, VNoneT))
    if isinstance(a, VTuple) and isinstance(b, VTuple):
        if len(a.items) != len(b.items):
            return z3.BoolVal(False)
        return z3.And([same_value(x, y) for x, y in zip(a.items, b.items)] + [z3.BoolVal(True)])
    if isinstance(a, VStr) and isinstance(b, VStr):
        return a.t == b.t
    if isinstance(a, (VInt, VBool)) and isinstance(b, (VInt, VBool)):
        return ops.int_term(a) == ops.int_term(b)
    return z3.BoolVal(False)


def kind_of(v):
    if isinstance(v, tuple):
        return "raise"
    if isinstance(v, VTuple) and v.items and isinstance(v.items[0], VStr) and v.items[0].const() in ("loop", "ret", "next", "exit"):
        return v.items[0].const()
    return "value"


def agree(repo, rel_a, rel_b, qual, label, reg, uni, ex_cls, quals=None):
    """-> list of obligation dicts."""
    short = "ms_modern"
    base = f"C14/{short}::{qual}/agree#{label}"
    ma, mb = loader.module(rel_a, repo), loader.module(rel_b, repo)
    qa, qb = quals or (qual, qual)
    fa, fb = ma.functions.get(qa), mb.functions.get(qb)
    if fa is None or fb is None:
        return [ground_obligation(f"{base}.{part}", False, "function missing", rel_a, kind="agree", definite=False) for part in ("prologue", "loop-step", "epilogue")]
    # private helpers (e.g. a per-format reader split off the sniffer) are inlined, `return helper(...)` included
    from contracts.c14_inline import inlined as _inl
    fa = _inl(ma, qa, tail=True)[0] or fa
    fb = _inl(mb, qb, tail=True)[0] or fb

    def alpha(fn):
        m = {}
        f2 = copy.deepcopy(fn)
        for n in ast.walk(f2):
            if isinstance(n, ast.Name) and (isinstance(n.ctx, ast.Store) or n.id in m):
                m.setdefault(n.id, f"v{len(m)}")
        for n in ast.walk(f2):
            if isinstance(n, ast.Name) and n.id in m:
                n.id = m[n.id]
            elif isinstance(n, ast.arg):
                n.arg = m.setdefault(n.arg, f"v{len(m)}")
        f2.body = [s for s in f2.body if not (isinstance(s, ast.Expr) and isinstance(s.value, ast.Constant))]
        return ast.dump(ast.Module(body=f2.body, type_ignores=[]))
    consts_equal = ast.dump(ma.assigns.get("_JPEG_SOF_MARKERS") or ast.Constant(value=None)) == ast.dump(mb.assigns.get("_JPEG_SOF_MARKERS") or ast.Constant(value=None))
    if alpha(fa) == alpha(fb) and consts_equal:
        return [ground_obligation(f"{base}.{part}", True, "the two copies are identical up to the names of locals (and use the same marker table)", rel_a, kind="agree")
                for part in ("prologue", "loop-step", "epilogue")]
    sa, sb = split_function(fa), split_function(fb)
    if sa is None or sb is None:
        return [ground_obligation(f"{base}.{part}", False, "no single marker loop found: shape not recognised", rel_a, kind="agree", definite=False)
                for part in ("prologue", "loop-step", "epilogue")]
    pre_a, step_a, post_a, test_a, state_a, par_a = sa
    pre_b, step_b, post_b, test_b, state_b, par_b = sb
    if len(state_a) != len(state_b) or len(par_a) != 1 or len(par_b) != 1:
        return [ground_obligation(f"{base}.{part}", False, f"loop state {state_a} vs {state_b}: not matched", rel_a, kind="agree", definite=False)
                for part in ("prologue", "loop-step", "epilogue")]
    D = z3.Array("agree.D", z3.IntSort(), z3.IntSort())
    N = z3.Int("agree.len")
    from pyvc.values import VSeq
    data = VSeq(N, lambda i: VInt(X.byte_int(D, i)), "byte", True, tag=("symbytes", D, N))
    hyp = [N >= 0, X.byte_range(D)]
    svals = [VInt(z3.Int(f"agree.s{k}")) for k in range(len(state_a))]
    out = []

    def compare(part, fna, fnb, enva, envb, rel):
        try:
            ra, exa = run(ex_cls, ma, reg, uni, fna, enva)
            rb, exb = run(ex_cls, mb, reg, uni, fnb, envb)
        except Exception as e:  # noqa
            return ground_obligation(f"{base}.{part}", False, f"not executable: {type(e).__name__}: {e}", rel_a, kind="agree", definite=False)
        status, secs, nvc, reason = "proved", 0.0, 0, ""
        for (pca, va) in ra:
            for (pcb, vb) in rb:
                goal = rel(va, vb, exa, exb)
                r = solve.check_vc(hyp + list(pca) + list(pcb), goal, None, want_model=False)
                nvc += 1
                secs += r.seconds
                if r.status != "proved":
                    status = "unknown"         # a solver model here still has to be confirmed natively (bounded differential run)
                    reason = f"paths with results {kind_of(va)} / {kind_of(vb)} not shown equivalent ({r.status})"
                    break
            if status != "proved":
                break
        return {"id": f"{base}.{part}", "kind": "agree", "status": status, "vcs": nvc, "seconds": round(secs, 4), "backends": {"z3": nvc},
                "witness": None, "reason": reason, "loc": rel_a}

    def rel_values(va, vb, exa, exb):
        return same_value(va, vb)

    def test_false(ex, mod, fn_test, par, state, v):
        """Bool: the loop test of this copy is false in the state carried by a ("next", ...) result"""
        env = {par[0]: data}
        for nme, x in zip(state, v.items[1:]):
            env[nme] = x
        res, _ = run(type(ex), mod, reg, uni, fn_test, env)
        conds = []
        for (pc, val) in res:
            t = ex.truth(State(), val).t if not isinstance(val, tuple) else z3.BoolVal(True)
            conds.append(z3.Implies(z3.And(list(pc) + [z3.BoolVal(True)]), z3.Not(t)))
        return z3.And(conds + [z3.BoolVal(True)])

    def rel_step(va, vb, exa, exb):
        ka, kb = kind_of(va), kind_of(vb)
        if ka == kb:
            return same_value(va, vb)
        if ka == "next" and kb == "exit":
            return test_false(exa, ma, test_a, par_a, state_a, va)
        if ka == "exit" and kb == "next":
            return test_false(exb, mb, test_b, par_b, state_b, vb)
        return z3.BoolVal(False)

    out.append(compare("prologue", pre_a, pre_b, {par_a[0]: data}, {par_b[0]: data}, rel_values))
    enva = dict({par_a[0]: data}, **{n: v for n, v in zip(state_a, svals)})
    envb = dict({par_b[0]: data}, **{n: v for n, v in zip(state_b, svals)})
    out.append(compare("loop-step", step_a, step_b, enva, envb, rel_step))
    out.append(compare("epilogue", post_a, post_b, {par_a[0]: data}, {par_b[0]: data}, rel_values))
    return out
