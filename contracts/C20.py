"""C20 -- built-in AES equals FIPS-197 AES (ECB/CBC) for every key and block.

The specification below is written from FIPS-197 / SP 800-38A, independently of
the code: GF(2^8) arithmetic by the defining polynomial, S-box as affine map of
the multiplicative inverse, ShiftRows/MixColumns/KeyExpansion/Cipher/InvCipher
as in the standard.  It is evaluated on the standard's known-answer vectors on
every run (guards the spec itself).  Bytes are 8-bit vectors.
"""
import z3

from pyvc import loader, ops
from pyvc.contracts import FnContract, LoopSpec, Raises
from pyvc.state import HeapObj
from pyvc.values import VTable, NONE, VBool, VBytes, VExt, VInt, VRef, VSeq, VStr, VTuple, VUnk, ext_sort, fresh_name
from pyvc.verify import Maker, p_bv, p_bytes, p_const, p_list_bv

AES = "sharepoint2text/parsing/extractors/pdf/_pypdf_aes_fallback.py"
BV8 = z3.BitVecSort(8)


def bv(x):
    return z3.BitVecVal(x, 8)


# ------------------------------------------------------------------ GF(2^8) --
def xtime(a):
    """{02} . a  modulo x^8+x^4+x^3+x+1 (mask form: no branching)."""
    if isinstance(a, int):
        return ((a << 1) ^ (0x1B if a & 0x80 else 0)) & 0xFF
    msb = z3.Extract(7, 7, a)
    mask = z3.Concat(*[msb] * 8)
    return (a << 1) ^ (mask & bv(0x1B))


def gmul_const(a, c):
    """{c} . a for a constant c, by the binary expansion of c."""
    acc = None
    p = a
    while c:
        if c & 1:
            acc = p if acc is None else acc ^ p
        p = xtime(p)
        c >>= 1
    return acc if acc is not None else (0 if isinstance(a, int) else bv(0))


def gmul(a, b):
    """a . b for two symbolic bytes: carry-less product reduced by 0x11B."""
    a15 = z3.ZeroExt(7, a)
    prod = z3.BitVecVal(0, 15)
    for i in range(8):
        bit = z3.Extract(i, i, b)
        mask = z3.Concat(*[bit] * 15)
        prod = prod ^ ((a15 << i) & mask)
    # reduce bits 14..8
    for i in range(14, 7, -1):
        bit = z3.Extract(i, i, prod)
        mask = z3.Concat(*[bit] * 15)
        prod = prod ^ (z3.BitVecVal(0x11B << (i - 8), 15) & mask)
    return z3.Extract(7, 0, prod)


# plain-python GF arithmetic for the (ground) table specifications
def _pmul(a, b):
    r = 0
    for i in range(8):
        if (b >> i) & 1:
            r ^= a << i
    for i in range(14, 7, -1):
        if (r >> i) & 1:
            r ^= 0x11B << (i - 8)
    return r


def _pinv(a):
    if a == 0:
        return 0
    for x in range(1, 256):
        if _pmul(a, x) == 1:
            return x


def _affine(b):
    r = 0
    for i in range(8):
        bit = ((b >> i) ^ (b >> ((i + 4) % 8)) ^ (b >> ((i + 5) % 8)) ^ (b >> ((i + 6) % 8)) ^ (b >> ((i + 7) % 8)) ^ (0x63 >> i)) & 1
        r |= bit << i
    return r


SBOX_SPEC = [_affine(_pinv(i)) for i in range(256)]
INV_SBOX_SPEC = [0] * 256
for _i, _v in enumerate(SBOX_SPEC):
    INV_SBOX_SPEC[_v] = _i


def sbox(a):
    if isinstance(a, int):
        return SBOX_SPEC[a]
    return ops.bv_table_lookup([bv(v) for v in SBOX_SPEC], a)


def inv_sbox(a):
    if isinstance(a, int):
        return INV_SBOX_SPEC[a]
    return ops.bv_table_lookup([bv(v) for v in INV_SBOX_SPEC], a)


# ------------------------------------------------- state functions (FIPS 5.1) --
# the state is a list of 16 bytes in input order: s[r + 4c]
def sub_bytes(s):
    return [sbox(x) for x in s]


def inv_sub_bytes(s):
    return [inv_sbox(x) for x in s]


def shift_rows(s):
    return [s[r + 4 * ((c + r) % 4)] for c in range(4) for r in range(4)][:0] or [s[(i % 4) + 4 * (((i // 4) + (i % 4)) % 4)] for i in range(16)]


def inv_shift_rows(s):
    return [s[(i % 4) + 4 * (((i // 4) - (i % 4)) % 4)] for i in range(16)]


def mix_columns(s):
    out = []
    for c in range(4):
        a = s[4 * c:4 * c + 4]
        out += [gmul_const(a[0], 2) ^ gmul_const(a[1], 3) ^ a[2] ^ a[3],
                a[0] ^ gmul_const(a[1], 2) ^ gmul_const(a[2], 3) ^ a[3],
                a[0] ^ a[1] ^ gmul_const(a[2], 2) ^ gmul_const(a[3], 3),
                gmul_const(a[0], 3) ^ a[1] ^ a[2] ^ gmul_const(a[3], 2)]
    return out


def inv_mix_columns(s):
    out = []
    for c in range(4):
        a = s[4 * c:4 * c + 4]
        out += [gmul_const(a[0], 14) ^ gmul_const(a[1], 11) ^ gmul_const(a[2], 13) ^ gmul_const(a[3], 9),
                gmul_const(a[0], 9) ^ gmul_const(a[1], 14) ^ gmul_const(a[2], 11) ^ gmul_const(a[3], 13),
                gmul_const(a[0], 13) ^ gmul_const(a[1], 9) ^ gmul_const(a[2], 14) ^ gmul_const(a[3], 11),
                gmul_const(a[0], 11) ^ gmul_const(a[1], 13) ^ gmul_const(a[2], 9) ^ gmul_const(a[3], 14)]
    return out


def add_round_key(s, k):
    return [a ^ b for a, b in zip(s, k)]


def rcon_spec(i):
    """Rcon[i] = x^(i-1) in GF(2^8), i >= 1."""
    v = 1
    for _ in range(i - 1):
        v = _pmul(v, 2)
    return v


def key_expansion(key):
    """FIPS-197 5.2 for Nk = len(key)/4 in {4,6,8}; returns Nr+1 round keys of 16 bytes."""
    nk = len(key) // 4
    nr = nk + 6
    w = [list(key[4 * i:4 * i + 4]) for i in range(nk)]
    for i in range(nk, 4 * (nr + 1)):
        t = list(w[i - 1])
        if i % nk == 0:
            t = t[1:] + t[:1]
            t = [sbox(x) for x in t]
            t[0] = t[0] ^ (rcon_spec(i // nk) if isinstance(t[0], int) else bv(rcon_spec(i // nk)))
        elif nk > 6 and i % nk == 4:
            t = [sbox(x) for x in t]
        w.append([a ^ b for a, b in zip(w[i - nk], t)])
    return [[b for word in w[4 * r:4 * r + 4] for b in word] for r in range(nr + 1)]


def cipher(block, rks):
    nr = len(rks) - 1
    s = add_round_key(list(block), rks[0])
    for r in range(1, nr):
        s = add_round_key(mix_columns(shift_rows(sub_bytes(s))), rks[r])
    return add_round_key(shift_rows(sub_bytes(s)), rks[nr])


def inv_cipher(block, rks):
    nr = len(rks) - 1
    s = add_round_key(list(block), rks[nr])
    for r in range(nr - 1, 0, -1):
        s = inv_mix_columns(add_round_key(inv_sub_bytes(inv_shift_rows(s)), rks[r]))
    return add_round_key(inv_sub_bytes(inv_shift_rows(s)), rks[0])


def kat():
    """Known answers (the SAME spec functions evaluated on ints): FIPS-197 App. C.1-C.3 (cipher and
    inverse cipher), App. A.1 (last round key), SP 800-38A F.1.1 first block."""
    pt = list(bytes.fromhex("00112233445566778899aabbccddeeff"))
    res = []
    for keyhex, cthex in (("000102030405060708090a0b0c0d0e0f", "69c4e0d86a7b0430d8cdb78070b4c55a"),
                          ("000102030405060708090a0b0c0d0e0f1011121314151617", "dda97ca4864cdfe06eaf70a0ec0d7191"),
                          ("000102030405060708090a0b0c0d0e0f101112131415161718191a1b1c1d1e1f", "8ea2b7ca516745bfeafc49904b496089")):
        rks = key_expansion(list(bytes.fromhex(keyhex)))
        ct = bytes(cipher(pt, rks))
        res.append(ct.hex() == cthex)
        res.append(bytes(inv_cipher(list(ct), rks)) == bytes(pt))
    rks = key_expansion(list(bytes.fromhex("2b7e151628aed2a6abf7158809cf4f3c")))
    res.append(bytes(rks[10]).hex() == "d014f9a8c9ee2589e13f0cc8b6630ca6")
    res.append(bytes(cipher(list(bytes.fromhex("6bc1bee22e409f96e93d7e117393172a")), rks)).hex() == "3ad77bb40d7a3660a89ecaf32466ef97")
    res.append(SBOX_SPEC[0x53] == 0xED and SBOX_SPEC[0] == 0x63 and INV_SBOX_SPEC[0x63] == 0)
    return res


# ---------------------------------------------------------------- contracts --
def vb(items):
    return [VInt(t) for t in items]


def terms(vs):
    out = []
    for v in vs:
        t = v.t
        if not z3.is_bv(t):
            t = z3.Int2BV(t, 8)
        elif t.size() < 8:
            t = z3.ZeroExt(8 - t.size(), t)
        elif t.size() > 8:
            t = z3.Extract(7, 0, t)
        out.append(t)
    return out


def p_round_keys(n):
    def mk(ex, st, name):
        items = [VBytes([VInt(z3.BitVec(f"{name}_{r}_{i}", 8)) for i in range(16)]) for r in range(n)]
        return VRef(st.alloc(HeapObj("list", items, fresh=False), ex.refs))
    return Maker(mk, desc=f"list of {n} 16-byte round keys")


def p_alts(*makers):
    def mk(ex, st, name):
        out = []
        for m in makers:
            out.extend(m.make(ex, st, name))
        return out
    return Maker(mk, desc=" | ".join(m.desc for m in makers))


def p_sym_bytes(cond_on_len=None, desc="bytes of any length"):
    """bytes of symbolic length (uninterpreted content)."""
    def mk(ex, st, name):
        n = z3.Int(f"{name}_len")
        f = z3.Function(f"{name}_at", z3.IntSort(), BV8)
        c = n >= 0
        if cond_on_len is not None:
            c = z3.And(c, cond_on_len(n))
        return [(c, VSeq(n, lambda i, f=f: VInt(f(i)), "byte", True, tag=name))]
    return Maker(mk, desc=desc)


def items_of(c, name):
    """entry-time items of a list/tuple/bytes argument"""
    return c.ex.concrete_items(c.entry, c.args[name])


def newlist(c, items):
    return c.ex.new_list(c.st, items)


def rk_terms(c, name):
    return [terms(rk.items) for rk in c.entry.obj(c.args[name].ref).data]


def state_fn(f, *extra):
    def final(c):
        s = terms(c.old_list("state"))
        more = [terms(c.args[e].items) for e in extra]
        return vb(f(s, *more))
    return final


def install_tables(reg):
    """Module tables as functional tables (each description is an obligation in table_checks)."""
    m = loader.module(AES)
    def tab(name, fn):
        try:
            lit = m.literal(name)
        except Exception:
            return
        reg.module_consts[(AES, name)] = VTable([VInt(int(x)) for x in lit], fn, name)
    tab("_SBOX", sbox)
    tab("_INV_SBOX", inv_sbox)
    for k in (2, 3, 9, 11, 13, 14):
        reg.module_consts[(AES, f"_MUL{k}")] = VTable([VInt(_pmul(v, k)) for v in range(256)],
                                                       (lambda t, k=k: gmul_const(t, k)), f"_MUL{k}")


def contracts(reg):
    install_tables(reg)
    out = []
    out.append(FnContract(target=f"{AES}::_xtime", params=[("a", p_bv(16))],
                          returns=lambda c: VInt(xtime(z3.Extract(7, 0, c.args["a"].t))),
                          note="{02}.a in GF(2^8) (argument reduced mod 256 first)"))
    out.append(FnContract(target=f"{AES}::_gf_mul", params=[("a", p_bv(8)), ("b", p_bv(8))],
                          returns=lambda c: VInt(gmul(c.args["a"].t, c.args["b"].t)),
                          loops={0: LoopSpec(unroll=8, label="bits-of-b")},
                          note="GF(2^8) product = carry-less product reduced by x^8+x^4+x^3+x+1"))
    out.append(FnContract(target=f"{AES}::_build_mul_table", params=[("multiplier", p_bv(8))],
                          returns=lambda c: VTuple([VInt(gmul(bv(v), c.args["multiplier"].t)) for v in range(256)])))
    out.append(FnContract(target=f"{AES}::_add_round_key", params=[("state", p_list_bv(16)), ("round_key", p_bytes(16))],
                          final={"state": state_fn(add_round_key, "round_key")}, modifies=("state",)))
    out.append(FnContract(target=f"{AES}::_sub_bytes", params=[("state", p_list_bv(16))],
                          final={"state": state_fn(sub_bytes)}, modifies=("state",)))
    out.append(FnContract(target=f"{AES}::_inv_sub_bytes", params=[("state", p_list_bv(16))],
                          final={"state": state_fn(inv_sub_bytes)}, modifies=("state",)))
    out.append(FnContract(target=f"{AES}::_shift_rows", params=[("state", p_list_bv(16))],
                          final={"state": state_fn(shift_rows)}, modifies=("state",)))
    out.append(FnContract(target=f"{AES}::_inv_shift_rows", params=[("state", p_list_bv(16))],
                          final={"state": state_fn(inv_shift_rows)}, modifies=("state",)))
    out.append(FnContract(target=f"{AES}::_mix_columns", params=[("state", p_list_bv(16))],
                          final={"state": state_fn(mix_columns)}, modifies=("state",)))
    out.append(FnContract(target=f"{AES}::_inv_mix_columns", params=[("state", p_list_bv(16))],
                          final={"state": state_fn(inv_mix_columns)}, modifies=("state",)))
    out.append(FnContract(target=f"{AES}::_build_rcon", params=[("max_rounds", p_const(14))],
                          returns=lambda c: VTuple([VInt(bv(0))] + [VInt(bv(rcon_spec(i))) for i in range(1, 15)])))
    out.append(FnContract(target=f"{AES}::_rcon", params=[("n", p_const(14))],
                          returns=lambda c: VTuple([VInt(bv(0))] + [VInt(bv(rcon_spec(i))) for i in range(1, 15)])))
    out.append(FnContract(target=f"{AES}::_rot_word", params=[("word", p_list_bv(4))],
                          returns=lambda c: newlist(c, items_of(c, "word")[1:] + items_of(c, "word")[:1])))
    out.append(FnContract(target=f"{AES}::_sub_word", params=[("word", p_list_bv(4))],
                          returns=lambda c: newlist(c, vb([sbox(t) for t in terms(items_of(c, "word"))]))))

    def ke_returns(c):
        k = c.args["key"]
        rks = key_expansion(terms(k.items))
        return newlist(c, [VBytes(vb(rk)) for rk in rks])

    def bad_key_len(c):
        k = c.args["key"]
        if isinstance(k, VSeq):
            return z3.And(k.length != 16, k.length != 24, k.length != 32)
        return z3.BoolVal(len(k.items) not in (16, 24, 32))

    out.append(FnContract(
        target=f"{AES}::_expand_key",
        params=[("key", p_alts(p_bytes(16), p_bytes(24), p_bytes(32),
                               p_sym_bytes(lambda n: z3.And(n != 16, n != 24, n != 32), "bytes of any other length")))],
        returns=ke_returns,
        ensures=[("only-valid-key-lengths", lambda c: z3.Not(bad_key_len(c)))],
        raises=[Raises("ValueError", when=bad_key_len)],
        inline=False))

    def blk_params():
        return [("block", p_alts(p_bytes(16), p_sym_bytes(lambda n: n != 16, "bytes of length != 16"))),
                ("round_keys", p_alts(p_round_keys(11), p_round_keys(13), p_round_keys(15)))]

    def bad_block(c):
        b = c.args["block"]
        return b.length != 16 if isinstance(b, VSeq) else z3.BoolVal(len(b.items) != 16)

    out.append(FnContract(
        target=f"{AES}::_aes_encrypt_block", params=blk_params(),
        returns=lambda c: VBytes(vb(cipher(terms(c.args["block"].items), rk_terms(c, "round_keys")))),
        ensures=[("only-16-byte-blocks", lambda c: z3.Not(bad_block(c)))],
        raises=[Raises("ValueError", when=bad_block)]))
    out.append(FnContract(
        target=f"{AES}::_aes_decrypt_block", params=blk_params(),
        returns=lambda c: VBytes(vb(inv_cipher(terms(c.args["block"].items), rk_terms(c, "round_keys")))),
        ensures=[("only-16-byte-blocks", lambda c: z3.Not(bad_block(c)))],
        raises=[Raises("ValueError", when=bad_block)]))
    return out


def lemmas():
    out = []
    a, b = z3.BitVec("a!l", 8), z3.BitVec("b!l", 8)
    for i, ok in enumerate(kat()):
        out.append((f"C20/spec::FIPS-197/lemma#known-answer.{i}", [], z3.BoolVal(bool(ok))))
    out.append(("C20/spec::gf/lemma#gmul_const-agrees-with-gmul", [],
                z3.And([gmul_const(a, c) == gmul(a, bv(c)) for c in (2, 3, 9, 11, 13, 14)])))
    out.append(("C20/spec::sbox/lemma#inv_sbox-inverts-sbox", [], z3.And(inv_sbox(sbox(a)) == a, sbox(inv_sbox(a)) == a)))
    out.append(("C20/spec::sbox/lemma#sbox-is-affine-of-inverse", [],
                z3.BoolVal(all(_pmul(x, _pinv(x)) == 1 for x in range(1, 256)) and len(set(SBOX_SPEC)) == 256)))
    s = [z3.BitVec(f"s{i}!l", 8) for i in range(16)]
    eqs = lambda x, y: z3.And([p == q for p, q in zip(x, y)])
    out.append(("C20/spec::rounds/lemma#InvShiftRows-inverts-ShiftRows", [], eqs(inv_shift_rows(shift_rows(s)), s)))
    # (InvSubBytes . SubBytes = id is the byte-wise lemma inv_sbox-inverts-sbox: both are maps over the 16 bytes)
    out.append(("C20/spec::rounds/lemma#InvMixColumns-inverts-MixColumns", [], eqs(inv_mix_columns(mix_columns(s)), s)))
    k = [z3.BitVec(f"k{i}!l", 8) for i in range(16)]
    out.append(("C20/spec::rounds/lemma#AddRoundKey-is-an-involution", [], eqs(add_round_key(add_round_key(s, k), k), s)))
    # InvCipher . Cipher = id for Nr = 10, 12, 14: step functions opaque, inverse lemmas (proved above) as rewrite facts
    B = z3.DeclareSort("State128")
    SB, SR, MC = (z3.Function(n, B, B) for n in ("SB", "SR", "MC"))
    ISB, ISR, IMC = (z3.Function(n, B, B) for n in ("ISB", "ISR", "IMC"))
    ARK = z3.Function("ARK", B, B, B)
    x, kq = z3.Const("x!q", B), z3.Const("k!q", B)
    facts = [z3.ForAll([x], ISB(SB(x)) == x), z3.ForAll([x], ISR(SR(x)) == x), z3.ForAll([x], IMC(MC(x)) == x),
             z3.ForAll([x, kq], ARK(ARK(x, kq), kq) == x)]
    for nr in (10, 12, 14):
        ks = [z3.Const(f"rk{r}!l", B) for r in range(nr + 1)]
        p0 = z3.Const("p!l", B)
        st = ARK(p0, ks[0])
        for r in range(1, nr):
            st = ARK(MC(SR(SB(st))), ks[r])
        st = ARK(SR(SB(st)), ks[nr])
        d = ARK(st, ks[nr])
        for r in range(nr - 1, 0, -1):
            d = IMC(ARK(ISB(ISR(d)), ks[r]))
        d = ARK(ISB(ISR(d)), ks[0])
        out.append((f"C20/spec::cipher/lemma#InvCipher-inverts-Cipher.Nr{nr}", facts, d == p0))
    return out


def table_checks(repo, tier):
    """Ground obligations on the literal tables of the module."""
    from pyvc.flow import ground_obligation
    m = loader.module(AES, repo)
    obls = []
    G = lambda oid, ok, why="": obls.append(ground_obligation(oid, ok, why, AES, kind="module-invariant", backend="ground"))
    try:
        sb, isb = m.literal("_SBOX"), m.literal("_INV_SBOX")
    except Exception as e:  # noqa
        return {"obligations": [], "undecided": [{"obligation": "C20/_pypdf_aes_fallback.py::tables", "why": f"tables not literal: {e}"}]}
    bad = [i for i in range(256) if i >= len(sb) or sb[i] != SBOX_SPEC[i]]
    G("C20/_pypdf_aes_fallback.py::_SBOX/module-invariant#equals-affine-of-inverse", len(sb) == 256 and not bad, f"first differing indices {bad[:4]}")
    bad = [i for i in range(256) if i >= len(isb) or isb[i] != INV_SBOX_SPEC[i]]
    G("C20/_pypdf_aes_fallback.py::_INV_SBOX/module-invariant#inverts-_SBOX", len(isb) == 256 and not bad, f"first differing indices {bad[:4]}")
    # _MULk = _build_mul_table(k): the module-level initialiser is executed symbolically under the
    # *verified* contract of _build_mul_table; the resulting table must be gmul(v, k) for every v
    from pyvc.contracts import Registry
    from pyvc.exctypes import Universe
    from pyvc.symex import Executor
    reg = Registry()
    for c in contracts(reg):
        reg.add(c)
    for k in (2, 3, 9, 11, 13, 14):
        reg.module_consts.pop((AES, f"_MUL{k}"), None)
    ex = Executor(m, reg, Universe(repo))
    ex.sinks.append([])
    for k in (2, 3, 9, 11, 13, 14):
        v = ex.module_const(f"_MUL{k}")
        items = getattr(v, "items", None)
        ok = items is not None and len(items) == 256
        bad = []
        if ok:
            for i, it in enumerate(items):
                t = z3.simplify(it.t)
                if not (z3.is_bv_value(t) or z3.is_int_value(t)) or t.as_long() != _pmul(i, k):
                    bad.append(i)
        G(f"C20/_pypdf_aes_fallback.py::_MUL{k}/module-invariant#equals-gf-multiples-of-{k}", ok and not bad, f"bad indices {bad[:4]}; kind {type(v).__name__}")
    v = ex.module_const("_RCON")
    items = getattr(v, "items", None) or []
    ok = len(items) == 15 and all(z3.simplify(it.t).as_long() == (0 if i == 0 else rcon_spec(i)) for i, it in enumerate(items))
    G("C20/_pypdf_aes_fallback.py::_RCON/module-invariant#equals-powers-of-x", ok, f"kind {type(v).__name__}")
    return {"obligations": obls}


EXTRA = [table_checks]
TRUSTED = ["FIPS-197 spec transcription in contracts/C20.py (guarded by known-answer vectors each run)"]
ASSUMED_MODELS = []
ASSUMPTIONS = ["PY-INT with exact bit-vector encoding (widths grow, no overflow)", "bytes objects are immutable sequences of ints in [0,256)"]
